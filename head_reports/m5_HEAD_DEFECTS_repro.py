"""Reproduces violations of C07 on the UNMODIFIED tree (see HEAD_DEFECTS.md).
Exits 1 if at least one of them is observed."""
import itertools
import sys

import numpy as np

from stereomolgraph import StereoMolGraph
from stereomolgraph.coords import Geometry, are_planar

observed = False


def renamed_back(graph, order):
    n = len(order)
    tmp = graph.relabel_atoms({j: 1000 + order[j] for j in range(n)})
    return tmp.relabel_atoms({1000 + i: i for i in range(n)})


# H1a: are_planar depends on the order of the points ------------------------
h = 0.26
pts = np.array([[2.25, 0, h], [-2.25, 0, h], [0, 1.55, -h], [0, -1.55, -h]])
answers = {bool(are_planar(pts[list(p)]))
           for p in itertools.permutations(range(4))}
print("H1a are_planar of the same four points in all 24 orders:", answers)
observed |= len(answers) > 1

# H1b: slightly puckered PtCl2H2 centre: SquarePlanar or Tetrahedral ---------
types = ["Pt", "Cl", "Cl", "H", "H"]
coords = np.vstack([[0.0, 0.0, 0.0], pts])
kinds = {}
for order in itertools.permutations(range(5)):
    geo = Geometry([types[i] for i in order], coords[list(order)])
    graph = renamed_back(StereoMolGraph.from_geometry(geo), order)
    kinds.setdefault(type(graph.get_atom_stereo(0)).__name__, order)
print("H1b descriptor class of Pt over all 120 atom orders:", kinds)
observed |= len(kinds) > 1

# H1c: CClF=CClF twisted by 15 degrees: PlanarBond or nothing ----------------
types = ["C", "C", "Cl", "F", "Cl", "F"]
t, a = np.radians(15), np.radians(122)
coords = [[0, 0, 0], [1.34, 0, 0]]
for s, r in ((1, 1.72), (-1, 1.33)):
    coords.append([r * np.cos(a), s * r * np.sin(a), 0])
for s, r in ((1, 1.72), (-1, 1.33)):
    y = s * r * np.sin(a)
    coords.append([1.34 - r * np.cos(a), y * np.cos(t), y * np.sin(t)])
coords = np.array(coords)
seen = {}
for order in itertools.permutations(range(6)):
    geo = Geometry([types[i] for i in order], coords[list(order)])
    graph = renamed_back(StereoMolGraph.from_geometry(geo), order)
    stereo = graph.get_bond_stereo((0, 1))
    seen.setdefault("no bond stereo" if stereo is None else "PlanarBond",
                    order)
print("H1c bond stereo of C=C over all 720 atom orders:", seen)
observed |= len(seen) > 1

# H2: ideal square pyramid VOCl2F2, two equal trans angles (160 deg) ---------
types = ["V", "O", "Cl", "Cl", "F", "F"]
b = np.radians(80)
coords = [[0, 0, 0], [0, 0, 1.6]]
for r, axis in ((2.2, 0), (1.8, 1)):
    for s in (1, -1):
        v = [0.0, 0.0, -r * np.cos(b)]
        v[axis] = s * r * np.sin(b)
        coords.append(v)
coords = np.array(coords)
rng = np.random.default_rng(5)
axes = {}
for _ in range(200):
    q, r_ = np.linalg.qr(rng.normal(size=(3, 3)))
    q = q * np.sign(np.diag(r_))
    if np.linalg.det(q) < 0:
        q[:, 0] *= -1
    graph = StereoMolGraph.from_geometry(Geometry(types, coords @ q.T))
    key = tuple(sorted(graph.get_atom_stereo(0).atoms[1:3]))
    axes[key] = axes.get(key, 0) + 1
print("H2 axial pair of the perceived trigonal bipyramid over 200 rotations:",
      axes)
observed |= len(axes) > 1

sys.exit(1 if observed else 0)
