"""Reproduces the HEAD observations listed in HEAD_DEFECTS.md (unmodified tree).
Prints one line per observation; exits 0 always."""
from rdkit import RDLogger

from stereomolgraph import StereoMolGraph
from stereomolgraph.stereodescriptors import (
    Octahedral, PlanarBond, SquarePlanar, Tetrahedral, TrigonalBipyramidal,
)

RDLogger.DisableLog("rdApp.*")


def star(centre, ligands, ids):
    g = StereoMolGraph()
    g.add_atom(ids[0], centre)
    for ident, element in zip(ids[1:], ligands):
        g.add_atom(ident, element)
        g.add_bond(ids[0], ident)
    return g


def round_trip(g, **kw):
    mol, _ = g._to_rdmol(**kw)
    return StereoMolGraph.from_rdmol(mol, use_atom_map_number=True)


def report(label, func):
    try:
        print(f"{label}: {func()}")
    except Exception as exc:  # noqa: BLE001
        print(f"{label}: raises {exc!r}")


# H1: unspecified (parity None) octahedral / trigonal-bipyramidal centre
g = star("Co", ["F", "Cl", "Br", "I", "S", "P"], [7, 12, 100, 3, 55, 21, 40])
g.set_atom_stereo(Octahedral((7, 12, 100, 3, 55, 21, 40), None))
report("H1a Octahedral(parity=None) round trip", lambda: round_trip(g).atom_stereo)
g = star("As", ["F", "Cl", "Br", "I", "S"], [7, 12, 100, 3, 55, 21])
g.set_atom_stereo(TrigonalBipyramidal((7, 12, 100, 3, 55, 21), None))
report("H1b TrigonalBipyramidal(parity=None) round trip",
       lambda: round_trip(g).atom_stereo)

# H2: identifier 0
g = star("C", ["F", "Cl", "Br", "I"], [0, 1, 2, 3, 4])
g.set_atom_stereo(Tetrahedral((0, 1, 2, 3, 4), 1))
report("H2 graph with identifier 0 round trip", lambda: round_trip(g).atom_stereo)

# H3: planar bond with the lone-pair placeholder in slot 0 (imine N-H)
g = StereoMolGraph()
for ident, element in ((1, "H"), (2, "N"), (3, "C"), (4, "H"), (5, "F")):
    g.add_atom(ident, element)
for bond in ((1, 2), (2, 3), (3, 4), (3, 5)):
    g.add_bond(*bond)
g.set_bond_stereo(PlanarBond((1, None, 2, 3, 4, 5), 0))
report("H3a PlanarBond((1, None, 2, 3, 4, 5), 0) round trip",
       lambda: round_trip(g, generate_bond_orders=True).bond_stereo)
g.set_bond_stereo(PlanarBond((None, 1, 2, 3, 5, 4), 0))  # the SAME descriptor
report("H3b PlanarBond((None, 1, 2, 3, 5, 4), 0) round trip",
       lambda: round_trip(g, generate_bond_orders=True).bond_stereo)

# H4: unspecified square planar centre comes back as a specified one
g = star("Pt", ["F", "Cl", "Br", "I"], [7, 12, 100, 3, 55])
g.set_atom_stereo(SquarePlanar((7, 12, 100, 3, 55), None))
report("H4 SquarePlanar(parity=None) round trip", lambda: round_trip(g).atom_stereo)
