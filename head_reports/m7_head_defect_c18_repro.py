"""Unmodified tree: bond-order perception depends on the atom order (C18).

Exits 1 when the order dependence / wrong assignment is observed."""
import itertools
import sys

import numpy as np

from stereomolgraph.algorithms.bond_orders import connectivity2bond_orders

Z = {"H": 1, "C": 6, "N": 7, "O": 8, "S": 16, "P": 15}
STANDARD = {"H": 1, "C": 4, "N": 3, "O": 2, "S": 2, "P": 3}


def run(name, symbols, bonds, orders):
    results = {}
    for order in orders:
        pos = {atom: i for i, atom in enumerate(order)}
        n = len(order)
        ac = np.zeros((n, n), dtype=int)
        for a, b in bonds:
            ac[pos[a], pos[b]] = ac[pos[b], pos[a]] = 1
        bo, charges, radicals = connectivity2bond_orders(
            [Z[symbols[a]] for a in order], ac
        )
        valence = {a: int(np.asarray(bo)[pos[a]].sum()) for a in order}
        wrong = {f"{symbols[a]}{a}": v for a, v in valence.items()
                 if v != STANDARD[symbols[a]]}
        rad = {f"{symbols[a]}{a}": r for a, r in zip(order, radicals) if r}
        results[tuple(order)] = (tuple(sorted(wrong.items())), tuple(sorted(rad.items())))
    distinct = set(results.values())
    for order, (wrong, rad) in results.items():
        print(f"  {name} order {order}: wrong valences {dict(wrong)} radicals {dict(rad)}")
    bad = distinct != {((), ())}
    print(("FAIL " if bad else "ok   ") + name,
          "(order dependent)" if len(distinct) > 1 else "")
    return bad


bad = False
# carbonyl sulfide O=C=S: S before O gives S#C-O with two radicals
bad |= run("OCS", {0: "O", 1: "C", 2: "S"}, [(0, 1), (1, 2)],
           list(itertools.permutations((0, 1, 2))))
# thiazole: S before N gives S valence 3 / N valence 4 and two radicals
thiazole = {1: "S", 2: "C", 3: "N", 4: "C", 5: "C", 6: "H", 7: "H", 8: "H"}
thz_bonds = [(1, 2), (2, 3), (3, 4), (4, 5), (5, 1), (2, 6), (4, 7), (5, 8)]
bad |= run("thiazole", thiazole, thz_bonds,
           [(1, 2, 3, 4, 5, 6, 7, 8), (3, 2, 1, 4, 5, 6, 7, 8)])
# HS-NH2 and HS-OH
bad |= run("HS-NH2", {0: "S", 1: "N", 2: "H", 3: "H", 4: "H"},
           [(0, 1), (0, 2), (1, 3), (1, 4)], [(0, 1, 2, 3, 4), (1, 0, 2, 3, 4)])
bad |= run("HS-OH", {0: "S", 1: "O", 2: "H", 3: "H"},
           [(0, 1), (0, 2), (1, 3)], [(0, 1, 2, 3), (1, 0, 2, 3)])
# order independent but chemically absurd: S-S quintuple, P-P triple bond
bad |= run("CH3-S-S-CH3", {0: "C", 1: "S", 2: "S", 3: "C", **{i: "H" for i in range(4, 10)}},
           [(0, 1), (1, 2), (2, 3), (0, 4), (0, 5), (0, 6), (3, 7), (3, 8), (3, 9)],
           [tuple(range(10))])
bad |= run("H2P-PH2", {0: "P", 1: "P", 2: "H", 3: "H", 4: "H", 5: "H"},
           [(0, 1), (0, 2), (0, 3), (1, 4), (1, 5)], [tuple(range(6))])
sys.exit(1 if bad else 0)
