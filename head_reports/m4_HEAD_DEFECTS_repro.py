from stereomolgraph import (CondensedReactionGraph, MolGraph,
                            StereoCondensedReactionGraph, StereoMolGraph)
from stereomolgraph.algorithms.isomorphism import vf2pp_all_isomorphisms
from stereomolgraph.stereodescriptors import PlanarBond

# 1. enumerator on two empty graphs
for cls in (MolGraph, StereoMolGraph, CondensedReactionGraph,
            StereoCondensedReactionGraph):
    try:
        print(cls.__name__, list(vf2pp_all_isomorphisms(cls(), cls())))
    except Exception as exc:
        print(cls.__name__, "empty vs empty ->", repr(exc))
    print("   (== on empty graphs:", cls() == cls(), ")")

# 2. reflexivity: formed bond stereo change on a bond that is broken
g = StereoCondensedReactionGraph()
for i, el in enumerate(["H", "H", "C", "C", "H", "H"]):
    g.add_atom(i, el)
for a, b in [(0, 2), (1, 2), (3, 4), (3, 5)]:
    g.add_bond(a, b)
g.add_broken_bond(2, 3)
g.set_bond_stereo_change(formed=PlanarBond((0, 1, 2, 3, 4, 5), 0))  # accepted
try:
    print("g == g.copy():", g == g.copy())
except Exception as exc:
    print("g == g.copy() ->", repr(exc))
try:
    print("hash(g):", hash(g))
except Exception as exc:
    print("hash(g) ->", repr(exc))
