"""Rules on the four graph ``__eq__`` / ``__hash__`` methods (C01, C02, C03)."""
from __future__ import annotations

import ast
import re

from .core import (GRAPH_CLASSES, SHORT, AnalysisError, Program, ancestors,
                   call_name, norm)
from .pe import resolve, single_defs
from .report import Result

FLAGS = {"MolGraph": ("False", "False"),
         "StereoMolGraph": ("True", "False"),
         "CondensedReactionGraph": ("False", "False"),
         "StereoCondensedReactionGraph": ("True", "True")}
REFINER = {"MolGraph": "color_refine_mg",
           "StereoMolGraph": "color_refine_smg",
           "CondensedReactionGraph": "color_refine_crg",
           "StereoCondensedReactionGraph": "color_refine_scrg"}
HASHER = {"MolGraph": "color_refine_hash_mg",
          "StereoMolGraph": "color_refine_hash_smg",
          "CondensedReactionGraph": "color_refine_hash_crg",
          "StereoCondensedReactionGraph": "color_refine_hash_scrg"}


def eq_of(prog: Program, K: str):
    fi = prog.resolve_method(K, "__eq__")
    if fi is None:
        raise AnalysisError(f"{K}.__eq__ does not resolve")
    return prog.specialise(fi, K)


def search_call(fi) -> ast.Call:
    calls = [n for n in ast.walk(fi.node) if isinstance(n, ast.Call)
             and call_name(n) == "vf2pp_all_isomorphisms"]
    if len(calls) != 1:
        raise AnalysisError(f"{fi.short}: expected one call of "
                            "vf2pp_all_isomorphisms")
    return calls[0]


def check_eq_class(prog: Program, res: Result) -> None:
    res.rule("R-EQ-CLASS", "the class guard of __eq__ rejects a different "
             "class in both directions: isinstance(other, self.__class__) in "
             "a class that has subclasses is asymmetric (Python tries the "
             "subclass's reflected __eq__, gets NotImplemented, and the base "
             "class then accepts the subclass instance); accepted: identity "
             "test on type() / __class__")
    for K in GRAPH_CLASSES:
        fi = eq_of(prog, K)
        s, o = fi.params()[:2]
        guards = [n for n in fi.node.body if isinstance(n, ast.If)
                  and any(isinstance(b, ast.Return) and norm(b.value) in (
                      "NotImplemented", "False") for b in n.body)]
        inst = f"{SHORT[K]}.__eq__ class guard"
        ok = False
        why = "no class guard returning NotImplemented/False"
        for g in guards:
            t = norm(g.test)
            sym = {f"type({o}) is not type({s})", f"type({s}) is not type({o})",
                   f"{o}.__class__ is not {s}.__class__",
                   f"{s}.__class__ is not {o}.__class__",
                   f"type({o}) != type({s})", f"type({s}) != type({o})",
                   f"{o}.__class__ != {s}.__class__",
                   f"{s}.__class__ != {o}.__class__",
                   f"not type({o}) is type({s})",
                   f"not type({s}) is type({o})",
                   f"not {o}.__class__ is {s}.__class__"}
            if t in sym:
                ok = True
                break
            if t in (f"not isinstance({o}, {s}.__class__)",
                     f"not isinstance({o}, type({s}))",
                     f"not isinstance({o}, {fi.cls.name})"):
                subs = prog.subclasses(fi.cls.name)
                if not subs and K == fi.cls.name:
                    ok = True
                    break
                why = (f"`{t}` accepts instances of the subclasses "
                       f"{subs or [K]}: e.g. {fi.cls.name}(g) == "
                       f"{(subs or [K])[0]}(g) is True")
        if ok:
            res.ok("R-EQ-CLASS", inst, fi.loc())
        else:
            res.bad("R-EQ-CLASS", f"{fi.short} class guard", fi.loc(),
                    f"{inst}: {why}", instance=inst)


def check_eq_sym(prog: Program, res: Result) -> None:
    res.rule("R-EQ-SYM", "in each __eq__ the search is called as "
             "vf2pp_all_isomorphisms(self, other, atom_labels=(X, Y), ...) "
             "where Y is X with self replaced by other; stereo / "
             "stereo_change flags equal the class table; subgraph=False; the "
             "result is reduced with any()")
    res.rule("R-LABEL-FLOW", "the labels handed to the search are the "
             "class's own colour refinement (mg / smg / crg / scrg) seeded by "
             "label_hash over a label tuple containing 'atom_type', keyed by "
             "the graph's own atoms")
    for K in GRAPH_CLASSES:
        fi = eq_of(prog, K)
        s, o = fi.params()[:2]
        call = search_call(fi)
        bound = prog.bound_args(call)
        if bound is not None:
            sig = prog.signature_of("vf2pp_all_isomorphisms")
            kw = dict(bound)
            args = [norm(bound[p_]) for p_ in sig[:2] if p_ in bound]
        else:
            kw = {k.arg: k.value for k in call.keywords}
            args = [norm(a) for a in call.args]
        inst = f"{SHORT[K]}.__eq__ search call"
        problems = []
        if args[:2] != [s, o]:
            problems.append(f"graphs passed as {args[:2]}, expected "
                            f"[{s}, {o}]")
        want = FLAGS[K]
        got = (norm(kw.get("stereo")), norm(kw.get("stereo_change")))
        # a flag that is not passed has the default of the search: False
        got = tuple("False" if g == "<none>" else g for g in got)
        if any(k.arg is None for k in call.keywords):
            raise AnalysisError(f"{fi.short}: the search is called with "
                                "**options that are not a literal")
        if got != want:
            problems.append(f"flags (stereo, stereo_change) = {got}, class "
                            f"table says {want}")
        bc = norm(kw.get("bond_change"))
        want_bc = "True" if "Reaction" in K else "False"
        if (bc if bc != "<none>" else "False") != want_bc:
            problems.append(f"bond_change={bc}: reaction roles of bonds "
                            f"{'are not' if want_bc == 'True' else 'are'} "
                            "compared by the search for this class")
        if norm(kw.get("subgraph")) not in ("False", "<none>"):
            problems.append("subgraph mode requested")
        labels = kw.get("atom_labels")
        if not (isinstance(labels, ast.Tuple) and len(labels.elts) == 2):
            problems.append("atom_labels is not a pair")
        else:
            from .core import alpha_norm
            x = alpha_norm(resolve(labels.elts[0], fi.node), 600)
            y = alpha_norm(resolve(labels.elts[1], fi.node), 600)
            swapped = re.sub(rf"\b{s}\b", "\0", x)
            swapped = re.sub(rf"\b{o}\b", s, swapped).replace("\0", o)
            if swapped != y:
                problems.append("the two label maps are not the same "
                                f"expression modulo self<->other: `{x[:90]}` "
                                f"vs `{y[:90]}`")
            if s not in x or o in re.findall(r"[A-Za-z_]\w*", x):
                problems.append("first label map is not computed from self "
                                "alone")
            # label flow
            ref = REFINER[K]
            if f"{ref}({s}" not in x:
                problems.append(f"labels of {K} are not refined with {ref}")
            if "label_hash(" not in x or "'atom_type'" not in x:
                problems.append("initial labels do not include 'atom_type' "
                                "via label_hash")
            if f"zip({s}.atoms" not in x.replace(" ", "").replace(
                    "zip(", "zip(") and f"{s}.atoms" not in x:
                problems.append("label map is not keyed by the graph's atoms")
        # reduced with any()
        p = next(iter(ancestors(call)), None)
        if not (isinstance(p, ast.Call) and call_name(p) == "any"):
            problems.append("result of the search is not reduced with any()")
        if problems:
            for pr in problems:
                rule = "R-LABEL-FLOW" if ("refined" in pr or "label_hash" in pr
                                          or "keyed" in pr) else "R-EQ-SYM"
                ctx = ["<specialised>"]
                if ("flags (stereo" in pr or pr.startswith("bond_change=")) \
                        and all(k_ not in kw or isinstance(
                            kw[k_], ast.Constant)
                            for k_ in ("stereo", "stereo_change",
                                       "bond_change")) \
                        and not any(k.arg is None for k in call.keywords):
                    # every flag of the call is a literal after resolving the
                    # class level configuration: the verdict does not depend
                    # on helpers the method also calls
                    ctx.append("<decided>")
                res.bad(rule, f"{fi.short}: {pr[:80]}", fi.loc(call),
                        f"{inst}: {pr}", instance=inst + " " + pr[:40],
                        context=ctx)
        else:
            res.ok("R-EQ-SYM", inst, fi.loc(call))
            res.ok("R-LABEL-FLOW", inst, fi.loc(call))


def check_empty_guard(prog: Program, res: Result) -> None:
    res.rule("R-EMPTY", "empty graphs never reach the refinement generators "
             "(next() on a generator that ends after its first value raises "
             "StopIteration) or the search (node_order[0]; the only "
             "isomorphism is the falsy empty dict): __eq__ returns early when "
             "an operand has no atoms, testing BOTH operands; __hash__ "
             "returns early for an empty graph")
    for K in GRAPH_CLASSES:
        for meth in ("__eq__", "__hash__"):
            fi = prog.resolve_method(K, meth)
            if fi is None:
                raise AnalysisError(f"{K}.{meth} does not resolve")
            fi = prog.specialise(fi, K)
            names = fi.params()[:2] if meth == "__eq__" else fi.params()[:1]
            heavy = [n for n in ast.walk(fi.node) if isinstance(n, ast.Call)
                     and (call_name(n) or "").startswith(("color_refine",
                                                          "vf2pp", "label_hash"))]
            if not heavy:
                raise AnalysisError(f"{fi.short}: refinement calls vanished")
            first_heavy = min(n.lineno for n in heavy)
            covered = set()
            for node in fi.node.body:
                if node.lineno >= first_heavy:
                    break
                if isinstance(node, ast.If) and any(
                        isinstance(b, ast.Return) for b in node.body):
                    t = norm(node.test)
                    for nm in names:
                        if re.search(rf"(len\({nm}\)|{nm}\.n_atoms|"
                                     rf"len\({nm}\.atoms\)|{nm}\._atom_attrs)",
                                     t) or re.search(rf"not {nm}\b", t):
                            covered.add(nm)
            inst = f"{SHORT[K]}.{meth} empty-graph guard"
            if covered == set(names):
                res.ok("R-EMPTY", inst, fi.loc())
            else:
                miss = sorted(set(names) - covered)
                res.bad("R-EMPTY", f"{fi.short} empty guard {miss}", fi.loc(),
                        f"{inst}: no early return for an empty `"
                        f"{', '.join(miss)}` before the colour refinement; "
                        f"{K}() {'== ' + K + '()' if meth == '__eq__' else 'hash'}"
                        " raises StopIteration", instance=inst)
