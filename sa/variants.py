"""Self-test variants: (file relative to src/stereomolgraph, old text, new text).

``expect='fire'``: the variant breaks the property (still valid Python) and the
check must report a new finding.  ``expect='silent'``: behaviour preserving
refactor, the check must stay silent.
"""
from __future__ import annotations

SD = "stereodescriptors.py"
MG = "graphs/mg.py"
SMG = "graphs/smg.py"
CRG = "graphs/crg.py"
SCRG = "graphs/scrg.py"
ISO = "algorithms/isomorphism.py"
CR = "algorithms/color_refine.py"
BO = "algorithms/bond_orders.py"
EXP = "experimental.py"
COORDS = "coords.py"
XYZ = "xyz2graph.py"
RD2G = "rdmol2graph.py"
G2RD = "graph2rdmol.py"


def V(name, expect, *edits, rule=None):
    return {"name": name, "expect": expect, "edits": list(edits),
            "rule": rule}


VARIANTS: dict[str, list[dict]] = {}

VARIANTS["C04"] = [
    V("tetrahedral row odd permutation", "fire",
      (SD, "            (0, 3, 1, 2, 4),\n", "            (0, 3, 2, 1, 4),\n"),
      rule="T-ROT"),
    V("octahedral row dropped", "fire",
      (SD, "            (0, 6, 4, 1, 5, 2, 3),\n", ""), rule="T-ROT"),
    V("tbp inversion swaps axial+equatorial (proper)", "fire",
      (SD, "    inversion = (0, 1, 2, 3, 5, 4)", "    inversion = (0, 2, 1, 3, 5, 4)"),
      rule="T-INV"),
    V("square planar row is a non-symmetry", "fire",
      (SD, "            (0, 2, 3, 4, 1),\n", "            (0, 2, 4, 3, 1),\n")),
    V("planar bond made chiral-like: cis/trans swap accepted", "fire",
      (SD, "            (1, 0, 2, 3, 5, 4),\n            (4, 5, 3, 2, 0, 1),\n            (5, 4, 3, 2, 1, 0),\n    )\n\n    def get_isomers(self) -> set[PlanarBond]:",
           "            (1, 0, 2, 3, 4, 5),\n            (4, 5, 3, 2, 0, 1),\n            (5, 4, 3, 2, 1, 0),\n    )\n\n    def get_isomers(self) -> set[PlanarBond]:")),
    V("eq: opposite parity compares plain atoms", "fire",
      (SD, "                    other._inverted_atoms() == p for p in self._perm_atoms()",
           "                    other.atoms == p for p in self._perm_atoms()"),
      rule="R-EQ-TABLE"),
    V("eq: any -> all", "fire",
      (SD, "                return o_atoms == s_atoms or any(\n                    o_atoms == p for p in self._perm_atoms()\n                )",
           "                return o_atoms == s_atoms or all(\n                    o_atoms == p for p in self._perm_atoms()\n                )")),
    V("eq: != inside any", "fire",
      (SD, "                    o_atoms == p for p in self._perm_atoms()",
           "                    o_atoms != p for p in self._perm_atoms()")),
    V("eq: unspecified parity needs same order", "fire",
      (SD, "            if set_s_atoms == set_o_atoms:\n                return True\n            return False",
           "            if s_atoms == o_atoms:\n                return True\n            return False")),
    V("eq: chiral vs achiral returns True", "fire",
      (SD, "        if self.parity in (1, -1):\n            if other.parity == 0:\n                return False",
           "        if self.parity in (1, -1):\n            if other.parity == 0:\n                return True")),
    V("eq: length prefilter inverted", "fire",
      (SD, "            if len(s_atoms) != len(o_atoms) or not set_s_atoms.issuperset(\n                set_o_atoms\n            ):\n                return False\n\n            elif self.parity == other.parity:",
           "            if len(s_atoms) == len(o_atoms) or not set_s_atoms.issuperset(\n                set_o_atoms\n            ):\n                return False\n\n            elif self.parity == other.parity:")),
    V("invert keeps parity", "fire",
      (SD, "        new_parity = -self.parity", "        new_parity = self.parity"),
      rule="R-INVERT"),
    V("invert flips achiral", "fire",
      (SD, "        if self.parity == 0:\n            return self\n        new_parity",
           "        if self.parity == 0:\n            return self.__class__(self.atoms, 1)\n        new_parity")),
    V("hash ignores parity sign", "fire",
      (SD, "            return hash((inverted_perm, perm))", "            return hash((perm, inverted_perm))"),
      rule="R-HASH-TABLE"),
    V("hash of ordered tuple of images", "fire",
      (SD, "        perm = frozenset(\n            {\n                tuple([self.atoms[i] for i in perm])\n                for perm in self.PERMUTATION_GROUP\n            }\n        )\n            return hash(perm)",
           "        perm = tuple(\n            [\n                tuple([self.atoms[i] for i in perm])\n                for perm in self.PERMUTATION_GROUP\n            ]\n        )\n            return hash(perm)")),
    V("_inverted_atoms ignores inversion", "fire",
      (SD, "        atoms = tuple([self.atoms[i] for i in self.inversion])",
           "        atoms = tuple([self.atoms[i] for i in range(len(self.atoms))])")),
    V("_perm_atoms skips group", "fire",
      (SD, "                for perm in self.PERMUTATION_GROUP\n            )\n\n    def invert",
           "                for perm in self.PERMUTATION_GROUP[:1]\n            )\n\n    def invert")),
    V("descriptor mutated after construction", "fire",
      (SD, "    def _inverted_atoms(self) -> A:\n        if self.inversion is None:",
           "    def _inverted_atoms(self) -> A:\n        self.parity = self.parity\n        if self.inversion is None:"),
      rule="R-IMM"),
    V("benign: table rows reordered", "silent",
      (SD, "            (0, 1, 2, 3, 4, 5),\n            (0, 1, 2, 5, 3, 4),\n",
           "            (0, 1, 2, 5, 3, 4),\n            (0, 1, 2, 3, 4, 5),\n")),
    V("benign: eq uses `in` instead of any()", "silent",
      (SD, "                return o_atoms == s_atoms or any(\n                    o_atoms == p for p in self._perm_atoms()\n                )",
           "                return o_atoms in self._perm_atoms()")),
    V("benign: local renamed in invert", "silent",
      (SD, "        new_parity = -self.parity\n        assert new_parity in (1, -1)\n        return self.__class__(self.atoms, new_parity)",
           "        flipped = -self.parity\n        assert flipped in (1, -1)\n        return self.__class__(self.atoms, flipped)")),
    V("benign: invert via * -1", "silent",
      (SD, "        new_parity = -self.parity", "        new_parity = self.parity * -1")),
]

VARIANTS["C10"] = [
    V("copy-constructor shallow atom attrs", "fire",
      (MG, "            self._atom_attrs = deepcopy(mol_graph._atom_attrs)",
           "            self._atom_attrs = dict(mol_graph._atom_attrs)"), rule="R-OWN"),
    V("copy-constructor aliases neighbours", "fire",
      (MG, "            self._neighbors = deepcopy(mol_graph._neighbors)",
           "            self._neighbors = mol_graph._neighbors"), rule="R-OWN"),
    V("copy() shallow", "fire",
      (MG, "        return deepcopy(self)", "        import copy as _c\n        return _c.copy(self)")),
    V("smg copy shares stereo dict", "fire",
      (SMG, "        new_graph._atom_stereo = deepcopy(self._atom_stereo)\n        new_graph._bond_stereo = deepcopy(self._bond_stereo)\n        return new_graph",
            "        new_graph._atom_stereo = self._atom_stereo\n        new_graph._bond_stereo = deepcopy(self._bond_stereo)\n        return new_graph")),
    V("relabel reuses attribute dicts", "fire",
      (MG, "            mapping.get(atom, atom): dict(attrs)\n", "            mapping.get(atom, atom): attrs\n")),
    V("subgraph reuses bond attribute dicts", "fire",
      (MG, "            bond: dict(attrs)\n", "            bond: attrs\n")),
    V("subgraph aliases neighbour sets", "fire",
      (MG, "            atom: {n for n in self._neighbors[atom] if n in new_atoms}",
           "            atom: self._neighbors[atom]")),
    V("compose updates with source dicts", "fire",
      (MG, "                new_graph._atom_attrs[atom] = dict(attrs)", "                new_graph._atom_attrs[atom] = attrs")),
    V("compose aliases neighbour sets", "fire",
      (MG, "                new_graph._neighbors.setdefault(atom, set()).update(neighbors)",
           "                new_graph._neighbors.setdefault(atom, neighbors)")),
    V("scrg ctor shares change dicts", "fire",
      (SCRG, "            self._atom_stereo_change = deepcopy(mol_graph._atom_stereo_change)",
             "            self._atom_stereo_change = dict(mol_graph._atom_stereo_change)")),
    V("scrg copy shares bond changes", "fire",
      (SCRG, "        new_graph._bond_stereo_change = deepcopy(self._bond_stereo_change)",
             "        new_graph._bond_stereo_change = self._bond_stereo_change")),
    V("reactant keeps bond attr dict", "fire",
      (CRG, "                    attrs = self._bond_attrs[bond].copy()\n                    attrs.pop(\"reaction\", None)\n                else:\n                    attrs = {}\n                product.add_bond(*bond, **attrs)\n        return product\n\n    def product",
            "                    attrs = self._bond_attrs[bond]\n                else:\n                    attrs = {}\n                product._bond_attrs[bond] = attrs\n        return product\n\n    def product")),
    V("scrg reactant shares static stereo", "fire",
      (SCRG, "        reactant._atom_stereo = deepcopy(self._atom_stereo)", "        reactant._atom_stereo = self._atom_stereo")),
    V("_ts returns self", "fire",
      (CRG, "        return MolGraph(self)", "        return self")),
    V("add_bond stores caller's dict (kwargs are fresh: benign)", "silent",
      (MG, "        self._bond_attrs[bond] = attr", "        self._bond_attrs[bond] = dict(attr)")),
    V("benign: dict() -> .copy()", "silent",
      (MG, "            mapping.get(atom, atom): dict(attrs)\n", "            mapping.get(atom, atom): attrs.copy()\n")),
    V("benign: dict() -> {**attrs}", "silent",
      (MG, "            bond: dict(attrs)\n", "            bond: {**attrs}\n")),
    V("benign: deepcopy of inner dicts", "silent",
      (MG, "                new_graph._atom_attrs[atom] = dict(attrs)", "                new_graph._atom_attrs[atom] = deepcopy(attrs)")),
    V("benign: ctor via copy()", "silent",
      (SMG, "            self._atom_stereo = deepcopy(mol_graph._atom_stereo)",
            "            self._atom_stereo = dict(mol_graph._atom_stereo)")),
]
