"""Tiny partial evaluator over a function body for *finite decision tables*.

Given concrete values for a few expressions (keyed by their source text, e.g.
``self.parity``) and an optional oracle for other tests, it enumerates the
reachable exits (return / raise / fall-through) with the undecided guards that
lead to them.  It only folds constants that are literally in the source; it
is a syntactic enumeration of truth assignments, no solver, nothing executed.
"""
from __future__ import annotations

import ast
from dataclasses import dataclass, field

from .core import clone, norm

UNKNOWN = object()
NONE_VALUE = object()      # an oracle's way of saying "the value is None"


class Sym:
    """Symbolic (non-constant) value of a local on the current path."""
    def __init__(self, node: ast.AST):
        self.node = node

    def __repr__(self):
        return f"Sym({norm(self.node)})"


@dataclass
class Outcome:
    kind: str                     # 'return' | 'raise' | 'fall'
    node: ast.AST | None
    expr: ast.AST | None
    guards: list[tuple[ast.AST, bool]] = field(default_factory=list)
    env: dict = field(default_factory=dict)       # local constant bindings
    calls: list[ast.AST] = field(default_factory=list)  # expr-stmts on path
    sym: ast.AST | None = None    # expr with path-local names substituted


class PE:
    def __init__(self, func: ast.FunctionDef, env: dict[str, object],
                 oracle=None, max_paths: int = 4096):
        self.func = func
        self.env0 = dict(env)
        self.oracle = oracle          # (expr, PE, env) -> True/False/None
        self.max_paths = max_paths
        self.outcomes: list[Outcome] = []

    # -- expressions -------------------------------------------------------
    def ev(self, e: ast.AST, env: dict):
        key = norm(e, 400)
        if key in env:
            return env[key]
        if self.oracle is not None:
            r = self.oracle(e, self, env)
            if r is NONE_VALUE:
                return None
            if r is not None:
                return r
        if isinstance(e, ast.Constant):
            return e.value
        if isinstance(e, ast.Name):
            v = env.get(e.id, UNKNOWN)
            return UNKNOWN if isinstance(v, Sym) else v
        if isinstance(e, (ast.Tuple, ast.List, ast.Set)):
            vals = [self.ev(x, env) for x in e.elts]
            if any(v is UNKNOWN for v in vals):
                return UNKNOWN
            return tuple(vals)
        if isinstance(e, ast.UnaryOp):
            v = self.ev(e.operand, env)
            if v is UNKNOWN:
                return UNKNOWN
            try:
                if isinstance(e.op, ast.Not):
                    return not v
                if isinstance(e.op, ast.USub):
                    return -v
                if isinstance(e.op, ast.UAdd):
                    return +v
            except TypeError:
                return UNKNOWN
            return UNKNOWN
        if isinstance(e, ast.BinOp):
            a, b = self.ev(e.left, env), self.ev(e.right, env)
            if a is UNKNOWN or b is UNKNOWN:
                return UNKNOWN
            try:
                if isinstance(e.op, ast.Mult):
                    return a * b
                if isinstance(e.op, ast.Add):
                    return a + b
                if isinstance(e.op, ast.Sub):
                    return a - b
            except TypeError:
                return UNKNOWN
            return UNKNOWN
        if isinstance(e, ast.BoolOp):
            vals = [self.ev(x, env) for x in e.values]
            if isinstance(e.op, ast.And):
                if any(v is not UNKNOWN and not v for v in vals):
                    return False
                if all(v is not UNKNOWN for v in vals):
                    return vals[-1]
                return UNKNOWN
            else:
                if any(v is not UNKNOWN and v for v in vals):
                    return True
                if all(v is not UNKNOWN for v in vals):
                    return vals[-1]
                return UNKNOWN
        if isinstance(e, ast.Compare):
            left = self.ev(e.left, env)
            result = True
            for op, right_e in zip(e.ops, e.comparators):
                right = self.ev(right_e, env)
                if left is UNKNOWN or right is UNKNOWN:
                    return UNKNOWN
                try:
                    if isinstance(op, ast.Is):
                        r = left is right or (left == right and isinstance(
                            left, (int, bool, type(None), str)))
                    elif isinstance(op, ast.IsNot):
                        r = not (left is right or (left == right and
                                 isinstance(left, (int, bool, type(None), str))))
                    elif isinstance(op, ast.Eq):
                        r = left == right
                    elif isinstance(op, ast.NotEq):
                        r = left != right
                    elif isinstance(op, ast.In):
                        r = left in right
                    elif isinstance(op, ast.NotIn):
                        r = left not in right
                    elif isinstance(op, ast.Lt):
                        r = left < right
                    elif isinstance(op, ast.LtE):
                        r = left <= right
                    elif isinstance(op, ast.Gt):
                        r = left > right
                    elif isinstance(op, ast.GtE):
                        r = left >= right
                    else:
                        return UNKNOWN
                except TypeError:
                    return UNKNOWN
                result = result and r
                left = right
            return result
        if isinstance(e, ast.IfExp):
            t = self.ev(e.test, env)
            if t is UNKNOWN:
                return UNKNOWN
            return self.ev(e.body if t else e.orelse, env)
        if isinstance(e, ast.NamedExpr):
            return self.ev(e.value, env)
        return UNKNOWN

    # -- statements --------------------------------------------------------
    def run(self) -> list[Outcome]:
        self.outcomes = []
        self._block(self.func.body, dict(self.env0), [], [], self._fall)
        return self.outcomes

    def _fall(self, env, guards, calls):
        self.outcomes.append(Outcome("fall", None, None, list(guards),
                                     dict(env), list(calls)))

    def _emit(self, kind, node, expr, env, guards, calls):
        if len(self.outcomes) >= self.max_paths:
            raise RuntimeError("path explosion in partial evaluator")
        self.outcomes.append(Outcome(
            kind, node, expr, list(guards), dict(env), list(calls),
            self.sym(expr, env) if expr is not None else None))

    def sym(self, expr: ast.AST, env: dict) -> ast.AST:
        """expr with names replaced by their path-local symbolic values
        (names bound by a comprehension inside expr are left alone)."""
        import copy
        bound = set()
        for n in ast.walk(expr):
            if isinstance(n, ast.comprehension):
                bound |= {x.id for x in ast.walk(n.target)
                          if isinstance(x, ast.Name)}
            elif isinstance(n, ast.Lambda):
                bound |= {a.arg for a in n.args.args}
        pe = self

        class S(ast.NodeTransformer):
            def visit_Name(self, node):
                if not isinstance(node.ctx, ast.Load) or node.id in bound:
                    return node
                v = env.get(node.id, UNKNOWN)
                if isinstance(v, Sym):
                    return clone(v.node)
                if v is not UNKNOWN and isinstance(
                        v, (int, str, bool, type(None), float)):
                    return ast.Constant(v)
                return node

            def visit_IfExp(self, node):
                # a conditional expression whose test is decided on this path
                t = pe.ev(node.test, env)
                if t is not UNKNOWN:
                    return self.visit(node.body if t else node.orelse)
                self.generic_visit(node)
                return node
        return S().visit(clone(expr))

    def _block(self, stmts, env, guards, calls, cont):
        if not stmts:
            cont(env, guards, calls)
            return
        st, rest = stmts[0], stmts[1:]

        def nxt(env2, guards2, calls2):
            self._block(rest, env2, guards2, calls2, cont)

        if isinstance(st, ast.Return):
            self._emit("return", st, st.value, env, guards, calls)
        elif isinstance(st, ast.Raise):
            self._emit("raise", st, st.exc, env, guards, calls)
        elif isinstance(st, ast.If):
            t = self.ev(st.test, env)
            self._bind_walrus(st.test, env)
            if t is UNKNOWN:
                self._block(st.body, dict(env), guards + [(st.test, True)],
                            calls, nxt)
                self._block(st.orelse, dict(env), guards + [(st.test, False)],
                            calls, nxt)
            elif t:
                self._block(st.body, env, guards, calls, nxt)
            else:
                self._block(st.orelse, env, guards, calls, nxt)
        elif isinstance(st, (ast.Assign, ast.AnnAssign)):
            value = st.value
            targets = st.targets if isinstance(st, ast.Assign) else [st.target]
            if value is not None:
                self._assign(targets, value, env)
            nxt(env, guards, calls)
        elif isinstance(st, ast.AugAssign):
            if isinstance(st.target, ast.Name):
                env[st.target.id] = UNKNOWN
            nxt(env, guards, calls)
        elif isinstance(st, ast.Assert):
            t = self.ev(st.test, env)
            if t is not UNKNOWN and not t:
                self._emit("raise", st, st.test, env, guards, calls)
            else:
                nxt(env, guards, calls)
        elif isinstance(st, ast.Expr):
            nxt(env, guards, calls + [st.value])
        elif isinstance(st, (ast.For, ast.While)):
            # zero trips or one trip of the body, then continue
            nxt(dict(env), guards, calls)
            env2 = dict(env)
            if isinstance(st, ast.For):
                for n in ast.walk(st.target):
                    if isinstance(n, ast.Name):
                        env2[n.id] = UNKNOWN
            self._block(st.body, env2, guards + [(st, True)], calls, nxt)
        elif isinstance(st, (ast.Continue, ast.Break)):
            # end of this trip of the enclosing loop body
            self._emit("fall", st, None, env, guards, calls)
        elif isinstance(st, ast.With):
            self._block(st.body, env, guards, calls, nxt)
        elif isinstance(st, ast.Try):
            self._block(st.body + st.orelse + st.finalbody, env, guards,
                        calls, nxt)
        else:
            nxt(env, guards, calls)

    def _bind_walrus(self, test, env):
        for n in ast.walk(test):
            if isinstance(n, ast.NamedExpr) and isinstance(n.target, ast.Name):
                v = self.ev(n.value, env)
                env[n.target.id] = (Sym(self.sym(n.value, env))
                                    if v is UNKNOWN else v)

    def _assign(self, targets, value, env):
        for t in targets:
            if isinstance(t, ast.Name):
                v = self.ev(value, env)
                env[t.id] = Sym(self.sym(value, env)) if v is UNKNOWN else v
            elif isinstance(t, (ast.Tuple, ast.List)) and isinstance(
                    value, (ast.Tuple, ast.List)) and len(t.elts) == len(
                    value.elts):
                self._assign_pairs(t.elts, value.elts, env)
            else:
                for n in ast.walk(t):
                    if isinstance(n, ast.Name):
                        env[n.id] = UNKNOWN

    def _assign_pairs(self, ts, vs, env):
        vals = []
        for v in vs:
            x = self.ev(v, env)
            vals.append(Sym(self.sym(v, env)) if x is UNKNOWN else x)
        for t, v in zip(ts, vals):
            if isinstance(t, ast.Name):
                env[t.id] = v


# --------------------------------------------------------------------------
# symbolic substitution of single-assignment locals
# --------------------------------------------------------------------------

class Subst(ast.NodeTransformer):
    def __init__(self, table: dict[str, ast.AST]):
        self.table = table
        self.depth = 0

    def visit_Name(self, node: ast.Name):
        if isinstance(node.ctx, ast.Load) and node.id in self.table \
                and self.depth < 12:
            self.depth += 1
            import copy
            new = self.visit(clone(self.table[node.id]))
            self.depth -= 1
            return new
        return node


def single_defs(func: ast.FunctionDef) -> dict[str, ast.AST]:
    """Locals bound exactly once by a plain (possibly tuple) assignment."""
    counts: dict[str, int] = {}
    vals: dict[str, ast.AST] = {}

    def bind(t, v):
        if isinstance(t, ast.Name):
            counts[t.id] = counts.get(t.id, 0) + 1
            vals[t.id] = v
        elif isinstance(t, (ast.Tuple, ast.List)):
            if isinstance(v, (ast.Tuple, ast.List)) and len(v.elts) == len(
                    t.elts):
                for a, b in zip(t.elts, v.elts):
                    bind(a, b)
            else:
                for n in ast.walk(t):
                    if isinstance(n, ast.Name):
                        counts[n.id] = counts.get(n.id, 0) + 2

    for node in ast.walk(func):
        if isinstance(node, ast.Assign):
            for t in node.targets:
                bind(t, node.value)
        elif isinstance(node, ast.AnnAssign) and node.value is not None:
            bind(node.target, node.value)
        elif isinstance(node, ast.NamedExpr):
            bind(node.target, node.value)
        elif isinstance(node, (ast.AugAssign,)):
            for n in ast.walk(node.target):
                if isinstance(n, ast.Name):
                    counts[n.id] = counts.get(n.id, 0) + 2
        elif isinstance(node, (ast.For, ast.comprehension)):
            for n in ast.walk(node.target):
                if isinstance(n, ast.Name):
                    counts[n.id] = counts.get(n.id, 0) + 2
    params = {a.arg for a in func.args.args + func.args.kwonlyargs
              + func.args.posonlyargs}
    return {k: v for k, v in vals.items()
            if counts.get(k) == 1 and k not in params}


def resolve(expr: ast.AST, func: ast.FunctionDef) -> ast.AST:
    import copy
    return Subst(single_defs(func)).visit(clone(expr))
