"""Memoised derived state on the graph classes.

A graph class may keep a value computed from its containers in a slot of its
own ("fill when empty, hand out, reset when the graph is edited"):

    if self._colors is None:
        self._colors = <computed from self>
    return self._colors

Such a slot is *derived state*.  The rules of every property read the class
as if the value were recomputed on each use, so the parsed program is first
brought into that form (memo elimination: the slot disappears from
``__slots__``, the resets disappear, the fill becomes a local).  That is an
equivalence exactly when the discipline below holds, and the discipline is
what this module decides (typestate: "filled" may not survive an edit):

R-MEMO-INVALIDATE  every function that modifies a container slot of a graph
                   object that may be an existing graph (``self``, or a local
                   that is not bound to a freshly constructed object on every
                   path) resets each memo slot of that object unconditionally
                   -- at statement level of the function, or by calling a
                   self / super method that does.

A function with no reset at all is a violation (the stale value is handed out
after the edit); a reset that exists but is conditional, a memo slot that is
stored in any other way (copied, filled outside the guarded form, read outside
its fill function) is not judged: analysis error.
"""
from __future__ import annotations

import ast
from dataclasses import dataclass, field

GRAPH_ROOT = "MolGraph"
MUTATORS = {"add", "discard", "remove", "pop", "popitem", "clear", "update",
            "setdefault", "append", "extend", "insert", "difference_update",
            "intersection_update", "symmetric_difference_update", "sort",
            "reverse"}
CTOR_METHODS = {"copy", "__new__", "__class__", "subgraph", "compose",
                "relabel_atoms", "reactant", "product", "reverse_reaction",
                "enantiomer", "from_rdmol", "from_graphs", "from_geometry",
                "from_composed_molgraphs", "from_composed_chiral_molgraphs"}


@dataclass
class MemoReport:
    slots: list[str] = field(default_factory=list)        # "Class.slot"
    fills: list[str] = field(default_factory=list)        # "Class.method"
    checked: list[str] = field(default_factory=list)      # mutators examined
    violations: list[tuple[str, str, str, str]] = field(default_factory=list)
    unrecognised: list[tuple[str, str]] = field(default_factory=list)


def _slots_of(cd: ast.ClassDef) -> list[str]:
    for st in cd.body:
        if isinstance(st, ast.Assign) and any(
                isinstance(t, ast.Name) and t.id == "__slots__"
                for t in st.targets) and isinstance(
                st.value, (ast.Tuple, ast.List)):
            return [e.value for e in st.value.elts
                    if isinstance(e, ast.Constant) and isinstance(e.value, str)]
    return []


def _base_names(cd: ast.ClassDef) -> list[str]:
    out = []
    for b in cd.bases:
        bb = b.value if isinstance(b, ast.Subscript) else b
        while isinstance(bb, ast.Attribute):
            bb = ast.Name(bb.attr, ast.Load())
        if isinstance(bb, ast.Name):
            out.append(bb.id)
    return out


def _is_attr(node, recv: str | None, attr: str | set[str]) -> bool:
    if not isinstance(node, ast.Attribute) or not isinstance(
            node.value, ast.Name):
        return False
    if recv is not None and node.value.id != recv:
        return False
    return node.attr in attr if isinstance(attr, set) else node.attr == attr


def _is_none(e) -> bool:
    return isinstance(e, ast.Constant) and e.value is None


def _root_slot(e: ast.AST, slots: set[str], aliases: dict[str, tuple]):
    """(receiver, slot, keys) when e is X.T, X.T[k]..., X.T.get(k)[j] or a
    local alias of such a chain; keys are the index expressions from the slot
    outwards."""
    keys: list[ast.AST] = []
    while True:
        if isinstance(e, ast.Subscript):
            keys.append(e.slice)
            e = e.value
        elif isinstance(e, ast.Call) and isinstance(
                e.func, ast.Attribute) and e.func.attr in (
                "get", "setdefault", "__getitem__") and e.args:
            keys.append(e.args[0])
            e = e.func.value
        else:
            break
    keys.reverse()
    if isinstance(e, ast.Attribute) and isinstance(e.value, ast.Name) and \
            e.attr in slots:
        return e.value.id, e.attr, tuple(keys)
    if isinstance(e, ast.Name) and e.id in aliases:
        r, t, k0 = aliases[e.id]
        return r, t, tuple(k0) + tuple(keys)
    return None


# keys of the inner attribute dictionaries that are part of a graph's
# identity; edits of other keys cannot change equality / hash
IDENTITY_KEYS = {"_atom_attrs": "atom_type", "_bond_attrs": "reaction"}


def _mutations(fn: ast.FunctionDef, slots: set[str]):
    """[(receiver, slot, node, keys, method)] container modifications in fn;
    keys = index chain below the slot that is modified (the last one is the
    key that is written / deleted / popped, when there is one)."""
    aliases: dict[str, tuple] = {}
    binds: dict[str, list] = {}
    for n in ast.walk(fn):
        if isinstance(n, ast.Assign):
            for t in n.targets:
                for x in ast.walk(t):
                    if isinstance(x, ast.Name) and isinstance(
                            x.ctx, ast.Store):
                        binds.setdefault(x.id, []).append(
                            n.value if x is t else None)
        elif isinstance(n, (ast.For, ast.comprehension, ast.withitem,
                            ast.AugAssign, ast.AnnAssign, ast.NamedExpr)):
            t = getattr(n, "target", None) or getattr(n, "optional_vars", None)
            if t is not None:
                for x in ast.walk(t):
                    if isinstance(x, ast.Name):
                        binds.setdefault(x.id, []).append(None)
    for name, vals in binds.items():
        # a local is an alias of a container only if every binding is one
        roots = [None if v is None else _root_slot(v, slots, {})
                 for v in vals]
        if roots and all(r is not None for r in roots) and \
                len({(r[0], r[1]) for r in roots}) == 1 and len(roots) == 1:
            aliases[name] = roots[0]
    out = []
    for n in ast.walk(fn):
        targets = []
        if isinstance(n, ast.Assign):
            targets = n.targets
        elif isinstance(n, (ast.AugAssign, ast.AnnAssign)):
            targets = [n.target] if getattr(n, "value", True) is not None \
                else []
        elif isinstance(n, ast.Delete):
            targets = n.targets
        for t in targets:
            for x in (t.elts if isinstance(t, (ast.Tuple, ast.List)) else [t]):
                if isinstance(x, ast.Name):
                    continue
                r = _root_slot(x, slots, aliases)
                if r is not None:
                    out.append((r[0], r[1], n, r[2], None))
        if isinstance(n, ast.Call) and isinstance(n.func, ast.Attribute) and \
                n.func.attr in MUTATORS:
            r = _root_slot(n.func.value, slots, aliases)
            if r is not None:
                keys = r[2]
                if n.func.attr in ("pop", "setdefault", "discard", "remove",
                                   "add") and n.args:
                    keys = keys + (n.args[0],)
                out.append((r[0], r[1], n, keys, n.func.attr))
    return out


def _identity_relevant(fn: ast.FunctionDef, slot: str, keys: tuple,
                       method: str | None, reaction_memo: bool) -> bool:
    """False only when the modification provably edits an attribute key that
    is not part of the graph's identity (inner dictionaries of _atom_attrs /
    _bond_attrs)."""
    ident = IDENTITY_KEYS.get(slot)
    if ident is None or len(keys) < 2:
        return True                     # structure: atoms / bonds / stereo
    if method in ("update", "clear", "popitem"):
        return True
    if slot == "_bond_attrs" and not reaction_memo:
        return False                    # bond attributes of a plain graph
    k = keys[1]
    if isinstance(k, ast.Constant):
        return k.value == ident
    if isinstance(k, ast.Name):
        # guard clause at statement level: if k == "<ident>": raise
        for st in fn.body:
            if isinstance(st, ast.If) and isinstance(st.test, ast.Compare) \
                    and len(st.test.ops) == 1 and isinstance(
                    st.test.ops[0], ast.Eq) and st.body and isinstance(
                    st.body[-1], ast.Raise):
                sides = [st.test.left, st.test.comparators[0]]
                if any(isinstance(x, ast.Name) and x.id == k.id
                       for x in sides) and any(
                        isinstance(x, ast.Constant) and x.value == ident
                        for x in sides):
                    return False
    return True


def _top_level(fn: ast.FunctionDef):
    """Statements executed on every normal path through fn (statement level,
    bodies of with / try and finally blocks at that level)."""
    def walk(stmts):
        for st in stmts:
            yield st
            if isinstance(st, ast.With):
                yield from walk(st.body)
            elif isinstance(st, ast.Try):
                yield from walk(st.finalbody)
    yield from walk(fn.body)


def _fresh_receivers(fn: ast.FunctionDef, class_names: set[str]) -> set[str]:
    """Locals that are bound to a newly constructed object by every
    assignment in fn."""
    binds: dict[str, list[ast.AST]] = {}
    for n in ast.walk(fn):
        if isinstance(n, ast.Assign):
            for t in n.targets:
                if isinstance(t, ast.Name):
                    binds.setdefault(t.id, []).append(n.value)
        elif isinstance(n, ast.AnnAssign) and n.value is not None and \
                isinstance(n.target, ast.Name):
            binds.setdefault(n.target.id, []).append(n.value)
        elif isinstance(n, (ast.For, ast.comprehension)):
            for x in ast.walk(n.target):
                if isinstance(x, ast.Name):
                    binds.setdefault(x.id, []).append(None)
    params = {a.arg for a in fn.args.posonlyargs + fn.args.args
              + fn.args.kwonlyargs}

    def ctor(v) -> bool:
        if not isinstance(v, ast.Call):
            return False
        f = v.func
        if isinstance(f, ast.Name):
            return f.id in class_names or f.id in ("cls", "deepcopy")
        if isinstance(f, ast.Attribute):
            if f.attr in CTOR_METHODS:
                return True
            if f.attr == "__class__":
                return True
        if isinstance(f, ast.Call) and isinstance(f.func, ast.Name) and \
                f.func.id == "type":
            return True
        if isinstance(f, ast.Subscript):         # Cls[T]()
            return True
        return False

    return {x for x, vs in binds.items()
            if x not in params and vs and all(v is not None and ctor(v)
                                              for v in vs)}


def _hash_valued(guard: ast.If, s: str) -> bool:
    for x in ast.walk(guard):
        if isinstance(x, ast.Assign) and any(
                isinstance(t, ast.Attribute) and t.attr == s
                for t in x.targets):
            v = x.value
            while isinstance(v, ast.Call) and isinstance(
                    v.func, ast.Name) and v.func.id == "int" and v.args:
                v = v.args[0]
            if not (isinstance(v, ast.Call) and "hash" in (
                    v.func.id if isinstance(v.func, ast.Name) else
                    getattr(v.func, "attr", ""))):
                return False
    return True


def eliminate(trees: dict[str, ast.Module]) -> MemoReport:
    rep = MemoReport()
    classes: dict[str, ast.ClassDef] = {}
    where: dict[str, str] = {}
    for rel, tree in trees.items():
        for n in ast.walk(tree):
            if isinstance(n, ast.ClassDef):
                classes.setdefault(n.name, n)
                where.setdefault(n.name, rel)

    def is_graph(name: str, seen=()) -> bool:
        if name == GRAPH_ROOT:
            return True
        cd = classes.get(name)
        if cd is None or name in seen:
            return False
        return any(is_graph(b, seen + (name,)) for b in _base_names(cd))

    graph = [c for c in classes if is_graph(c)]
    if not graph:
        return rep
    all_slots: set[str] = set()
    for c in graph:
        all_slots |= set(_slots_of(classes[c]))
    # ---- memo fills ------------------------------------------------------
    fills: dict[str, list[tuple[str, ast.FunctionDef, ast.If]]] = {}
    for c in graph:
        for m in classes[c].body:
            if not isinstance(m, ast.FunctionDef) or not m.args.args:
                continue
            me = m.args.args[0].arg
            for n in ast.walk(m):
                if not (isinstance(n, ast.If) and not n.orelse
                        and isinstance(n.test, ast.Compare)
                        and len(n.test.ops) == 1
                        and isinstance(n.test.ops[0], ast.Is)
                        and _is_none(n.test.comparators[0])
                        and isinstance(n.test.left, ast.Attribute)
                        and _is_attr(n.test.left, me, all_slots)):
                    continue
                s = n.test.left.attr
                stores = [x for x in ast.walk(n)
                          if isinstance(x, ast.Assign) and any(
                              _is_attr(t, me, s) for t in x.targets)]
                if stores and not any(_is_none(x.value) for x in stores):
                    fills.setdefault(s, []).append((c, m, n))
    if not fills:
        return rep
    # ---- discipline: who else touches the slot ----------------------------
    memo = set(fills)
    ok_slots = set()
    for s in sorted(memo):
        fill_fns = {id(m) for _c, m, _n in fills[s]}
        bad = None
        for rel, tree in trees.items():
            for fn in ast.walk(tree):
                if not isinstance(fn, ast.FunctionDef):
                    continue
                for n in ast.walk(fn):
                    if not (isinstance(n, ast.Attribute) and n.attr == s):
                        continue
                    if id(fn) in fill_fns:
                        continue
                    par_ok = False
                    # allowed outside the fill: `X.s = None`
                    for st in ast.walk(fn):
                        if isinstance(st, ast.Assign) and any(
                                t is n for t in st.targets) and \
                                _is_none(st.value):
                            par_ok = True
                        if isinstance(st, ast.AnnAssign) and st.target is n \
                                and (st.value is None or _is_none(st.value)):
                            par_ok = True
                    if not par_ok:
                        bad = (f"{rel}:{n.lineno}",
                               f"memo slot `{s}` is used outside its fill "
                               f"function in {fn.name} (copied / read / "
                               "filled in another form)")
        if bad:
            rep.unrecognised.append(bad)
        else:
            ok_slots.add(s)
    if not ok_slots:
        return rep
    def mro_slots(c: str, seen=()) -> set[str]:
        cd = classes.get(c)
        if cd is None or c in seen:
            return set()
        out = set(_slots_of(cd))
        for b in _base_names(cd):
            out |= mro_slots(b, seen + (c,))
        return out

    # a memo filled in class C is computed from what C can see: the container
    # slots of C and of its bases
    deps = {s: set().union(*[mro_slots(c) for c, _m, _n in fills[s]]) - memo
            for s in ok_slots}
    container_slots = all_slots - memo
    class_names = set(classes)
    # ---- unconditional resetters (fixpoint over self / super calls) -------
    methods: dict[str, list[tuple[str, ast.FunctionDef]]] = {}
    for c in graph:
        for m in classes[c].body:
            if isinstance(m, ast.FunctionDef):
                methods.setdefault(m.name, []).append((c, m))

    def direct_reset(fn, recv, s) -> bool:
        return any(isinstance(st, ast.Assign) and _is_none(st.value) and any(
            _is_attr(t, recv, s) for t in st.targets) for st in _top_level(fn))

    def any_reset(fn, recv, s) -> bool:
        return any(isinstance(st, ast.Assign) and _is_none(st.value) and any(
            _is_attr(t, recv, s) for t in st.targets) for st in ast.walk(fn))

    resetters: dict[str, set[str]] = {s: set() for s in ok_slots}
    changed = True
    while changed:
        changed = False
        for name, impls in methods.items():
            for s in ok_slots:
                if name in resetters[s]:
                    continue
                good = True
                for _c, m in impls:
                    if not m.args.args:
                        good = False
                        break
                    me = m.args.args[0].arg
                    if direct_reset(m, me, s):
                        continue
                    called = False
                    for st in _top_level(m):
                        for x in ast.walk(st) if isinstance(
                                st, (ast.Expr, ast.Assign, ast.Return)) else ():
                            if isinstance(x, ast.Call) and isinstance(
                                    x.func, ast.Attribute) and \
                                    x.func.attr in resetters[s] and (
                                    _is_attr(x.func, me, x.func.attr) or (
                                        isinstance(x.func.value, ast.Call)
                                        and isinstance(x.func.value.func,
                                                       ast.Name)
                                        and x.func.value.func.id == "super")):
                                called = True
                    if not called:
                        good = False
                        break
                if good:
                    resetters[s].add(name)
                    changed = True
    # ---- obligations -------------------------------------------------------
    for rel, tree in trees.items():
        for fn in ast.walk(tree):
            if not isinstance(fn, ast.FunctionDef) or fn.name in (
                    "__init__", "__setstate__", "__new__"):
                continue
            muts = _mutations(fn, container_slots)
            if not muts:
                continue
            owner = None
            for c in graph:
                if fn in classes[c].body:
                    owner = c
            fresh = _fresh_receivers(fn, class_names)
            me = fn.args.args[0].arg if (owner and fn.args.args) else None
            for recv in sorted({m_[0] for m_ in muts}):
                if recv in fresh:
                    continue
                if recv != me and owner is None:
                    # module level helper working on a graph it was given
                    pass
                tag = f"{owner + '.' if owner else ''}{fn.name}"
                first = [m_[2] for m_ in muts if m_[0] == recv][0]
                for s in sorted(ok_slots):
                    reaction_memo = any("Reaction" in c
                                        for c, _m, _n in fills[s])
                    slot_names = sorted({
                        m_[1] for m_ in muts
                        if m_[0] == recv and m_[1] in deps[s]
                        and _identity_relevant(fn, m_[1], m_[3], m_[4],
                                               reaction_memo)})
                    if not slot_names:
                        continue
                    if owner and any(id(fn) == id(m)
                                     for _c, m, _n in fills[s]):
                        continue
                    if fn.name == "relabel_atoms" and all(
                            _hash_valued(n_, s) for _c, _m, n_ in fills[s]):
                        # a memoised *hash* is invariant under renaming (that
                        # is property C03 itself), a reset is not required
                        continue
                    rep.checked.append(f"{tag}[{recv}] resets {s}")
                    if direct_reset(fn, recv, s):
                        continue
                    if recv == me and fn.name in resetters[s]:
                        continue
                    # every modification itself happens inside a resetting
                    # self / super call?  (then muts would not list it)
                    if any_reset(fn, recv, s):
                        rep.unrecognised.append((
                            f"{rel}:{first.lineno}",
                            f"{tag}: `{recv}.{s}` is reset only on some "
                            f"paths although `{recv}.{slot_names[0]}` is "
                            "modified"))
                        continue
                    rep.violations.append((
                        f"{rel}:{first.lineno}", tag, s,
                        f"{tag} modifies {', '.join(recv + '.' + t for t in slot_names)} "
                        f"but never resets the memoised `{recv}.{s}`: the "
                        "value computed before the edit is handed out "
                        "afterwards (equality / hash of the edited graph "
                        "are those of the old one)"))
    # ---- elimination --------------------------------------------------------
    for s in sorted(ok_slots):
        local = f"{s.lstrip('_')}__memo"
        for c, m, n in fills[s]:
            rep.fills.append(f"{c}.{m.name}")
            me = m.args.args[0].arg
            # unwrap the guard
            for holder in ast.walk(m):
                for f_ in ("body", "orelse", "finalbody"):
                    lst = getattr(holder, f_, None)
                    if isinstance(lst, list) and any(x is n for x in lst):
                        i = [k for k, x in enumerate(lst) if x is n][0]
                        lst[i:i + 1] = n.body
            for x in ast.walk(m):
                for f_, v in ast.iter_fields(x):
                    if isinstance(v, ast.Attribute) and _is_attr(v, me, s):
                        setattr(x, f_, ast.copy_location(
                            ast.Name(local, v.ctx), v))
                    elif isinstance(v, list):
                        for k, y in enumerate(v):
                            if isinstance(y, ast.Attribute) and _is_attr(
                                    y, me, s):
                                v[k] = ast.copy_location(
                                    ast.Name(local, y.ctx), y)
        for rel, tree in trees.items():
            for holder in ast.walk(tree):
                for f_ in ("body", "orelse", "finalbody"):
                    lst = getattr(holder, f_, None)
                    if not isinstance(lst, list):
                        continue
                    new = []
                    for st in lst:
                        if isinstance(st, ast.Assign) and _is_none(st.value) \
                                and all(isinstance(t, ast.Attribute)
                                        and t.attr == s for t in st.targets):
                            continue
                        if isinstance(st, ast.AnnAssign) and isinstance(
                                st.target, ast.Name) and st.target.id == s \
                                and isinstance(holder, ast.ClassDef):
                            continue
                        new.append(st)
                    if len(new) != len(lst):
                        if not new:
                            new = [ast.copy_location(ast.Pass(), lst[0])]
                        lst[:] = new
            for cd in ast.walk(tree):
                if isinstance(cd, ast.ClassDef):
                    for st in cd.body:
                        if isinstance(st, ast.Assign) and any(
                                isinstance(t, ast.Name)
                                and t.id == "__slots__" for t in st.targets) \
                                and isinstance(st.value, (ast.Tuple, ast.List)):
                            st.value.elts = [
                                e for e in st.value.elts
                                if not (isinstance(e, ast.Constant)
                                        and e.value == s)]
        for c in graph:
            if s in _slots_of(classes[c]) or True:
                pass
        rep.slots.append(s)
    for tree in trees.values():
        ast.fix_missing_locations(tree)
    return rep


def report(prog, res) -> None:
    """R-MEMO-INVALIDATE obligations of the loaded program (computed at load
    time, before the memo slots were eliminated)."""
    res.rule("R-MEMO-INVALIDATE", "a memoised slot of a graph class (filled "
             "under `if self.<slot> is None`) is reset unconditionally by "
             "every function that modifies a container of a graph that may "
             "already exist; the other rules read the class with the memo "
             "eliminated")
    rep = prog.memo_report
    for where, msg in rep.unrecognised:
        res.unrecognised("R-MEMO-INVALIDATE", "memo discipline", where, msg)
    bad = {(tag, s) for _w, tag, s, _m in rep.violations}
    for where, tag, s, msg in rep.violations:
        res.bad("R-MEMO-INVALIDATE", f"{tag} resets {s}", where, msg,
                instance=f"{tag} resets {s}")
    n = 0
    for c in rep.checked:
        if not any(c.startswith(f"{tag}[") and c.endswith(f" {s}")
                   for tag, s in bad):
            res.ok("R-MEMO-INVALIDATE", c)
            n += 1
    if not rep.slots and not rep.unrecognised:
        res.ok("R-MEMO-INVALIDATE", "graph classes keep no memoised slot",
               note="nothing to invalidate")
