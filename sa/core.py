"""E0 -- program model of /repo/src/stereomolgraph built from source text only.

Nothing in here (or in any rule) imports or executes ``stereomolgraph``.
"""
from __future__ import annotations

import ast
import copy
import hashlib
import os
from dataclasses import dataclass, field
from pathlib import Path

REPO = Path(os.environ.get("VERIF_REPO", "/repo"))
PKG_REL = "src/stereomolgraph"


class AnalysisError(Exception):
    """An anchor vanished or an obligation could not be evaluated (exit 2)."""


# --------------------------------------------------------------------------
# small ast helpers
# --------------------------------------------------------------------------

def unparse(node: ast.AST | None) -> str:
    if node is None:
        return "<none>"
    try:
        return ast.unparse(node)
    except Exception:  # pragma: no cover
        return ast.dump(node)


def index_perm(e: ast.AST) -> tuple[str, tuple] | None:
    """(base text, index tuple) of a re-ordering expression in any of its
    spellings: ``[B[i] for i in (1, 0, 2)]``, ``tuple(...)`` around it, a
    generator, or the explicit ``(B[1], B[0], B[2])``."""
    while isinstance(e, ast.Call) and call_name(e) in ("tuple", "list") and \
            len(e.args) == 1 and not e.keywords:
        e = e.args[0]
    if isinstance(e, (ast.ListComp, ast.GeneratorExp)) and len(
            e.generators) == 1 and not e.generators[0].ifs:
        g = e.generators[0]
        if isinstance(g.target, ast.Name) and isinstance(
                e.elt, ast.Subscript) and isinstance(
                e.elt.slice, ast.Name) and e.elt.slice.id == g.target.id:
            try:
                idx = tuple(ast.literal_eval(g.iter))
            except Exception:
                return None
            return unparse(e.elt.value), idx
    if isinstance(e, (ast.Tuple, ast.List)) and e.elts and all(
            isinstance(x, ast.Subscript) and isinstance(
                x.slice, ast.Constant) and isinstance(x.slice.value, int)
            for x in e.elts):
        bases = {unparse(x.value) for x in e.elts}
        if len(bases) == 1:
            return bases.pop(), tuple(x.slice.value for x in e.elts)
    return None


def alpha_norm(e: ast.AST, maxlen: int = 600) -> str:
    """norm() of e with comprehension / lambda variables renamed by position
    (two expressions that differ only in the names of bound variables read
    the same)."""
    e = clone(e)
    table: dict[str, str] = {}
    for c in ast.walk(e):
        if isinstance(c, ast.comprehension):
            for n in ast.walk(c.target):
                if isinstance(n, ast.Name):
                    table.setdefault(n.id, f"_v{len(table)}")
        elif isinstance(c, ast.Lambda):
            for a in c.args.args:
                table.setdefault(a.arg, f"_v{len(table)}")
    for n in ast.walk(e):
        if isinstance(n, ast.Name) and n.id in table:
            n.id = table[n.id]
        elif isinstance(n, ast.arg) and n.arg in table:
            n.arg = table[n.arg]
    return norm(e, maxlen)


def utext(node: ast.AST) -> str:
    """ast.unparse without the suffixes of names introduced by the inliner
    (multi-line; for whole-function text searches)."""
    import re
    return re.sub(r"__inl_[a-z]+", "", ast.unparse(node))


def norm(node: ast.AST | None, maxlen: int = 160) -> str:
    """Normalised one-line text of a node: used in construct keys so that a
    finding is keyed by *what the code says*, never by its line number."""
    s = " ".join(unparse(node).split())
    if "__inl_" in s:       # names introduced by sa/normalise.py's inliner
        import re
        s = re.sub(r"__inl_[a-z]+", "", s)
    return s if len(s) <= maxlen else s[: maxlen - 3] + "..."


def set_parents(tree: ast.AST) -> None:
    for parent in ast.walk(tree):
        for child in ast.iter_child_nodes(parent):
            child._parent = parent  # type: ignore[attr-defined]


def parent(node: ast.AST) -> ast.AST | None:
    return getattr(node, "_parent", None)


def ancestors(node: ast.AST):
    p = parent(node)
    while p is not None:
        yield p
        p = parent(p)


def dotted(node: ast.AST) -> str | None:
    """``a.b.c`` for Name/Attribute chains, else None."""
    if isinstance(node, ast.Name):
        return node.id
    if isinstance(node, ast.Attribute):
        base = dotted(node.value)
        return None if base is None else f"{base}.{node.attr}"
    return None


def call_name(node: ast.AST) -> str | None:
    """Dotted name of the callee of a Call node (None otherwise)."""
    if isinstance(node, ast.Call):
        return dotted(node.func)
    return None


def names_in(node: ast.AST) -> set[str]:
    return {n.id for n in ast.walk(node) if isinstance(n, ast.Name)}


def attrs_in(node: ast.AST) -> set[str]:
    return {n.attr for n in ast.walk(node) if isinstance(n, ast.Attribute)}


def const(node: ast.AST):
    """literal_eval that also looks through MappingProxyType(...) / tuple()."""
    if isinstance(node, ast.Call) and call_name(node) in (
        "MappingProxyType", "types.MappingProxyType", "dict", "tuple",
        "frozenset",
    ) and len(node.args) == 1 and not node.keywords:
        return const(node.args[0])
    return ast.literal_eval(node)


# --------------------------------------------------------------------------
# modules / classes / functions
# --------------------------------------------------------------------------

@dataclass
class Module:
    name: str           # e.g. "graphs.mg"
    relpath: str        # e.g. "src/stereomolgraph/graphs/mg.py"
    src: str
    tree: ast.Module

    def loc(self, node: ast.AST) -> str:
        return f"{self.relpath}:{getattr(node, 'lineno', 0)}"


@dataclass
class FuncInfo:
    qual: str                       # "graphs.mg:MolGraph.add_bond"
    module: Module
    node: ast.FunctionDef
    cls: "ClassInfo | None" = None

    @property
    def name(self) -> str:
        return self.node.name

    @property
    def short(self) -> str:
        return self.qual.split(":", 1)[1]

    def loc(self, node: ast.AST | None = None) -> str:
        return self.module.loc(node if node is not None else self.node)

    def params(self) -> list[str]:
        a = self.node.args
        return [x.arg for x in a.posonlyargs + a.args + a.kwonlyargs]

    def is_classmethod(self) -> bool:
        return any(dotted(d) == "classmethod" for d in self.node.decorator_list)

    def is_staticmethod(self) -> bool:
        return any(dotted(d) == "staticmethod" for d in self.node.decorator_list)

    def is_property(self) -> bool:
        return any(dotted(d) == "property" for d in self.node.decorator_list)


@dataclass
class ClassInfo:
    name: str
    module: Module
    node: ast.ClassDef
    bases: list[str]
    methods: dict[str, FuncInfo] = field(default_factory=dict)
    assigns: dict[str, ast.AST] = field(default_factory=dict)   # class-level
    annotations: dict[str, ast.AST] = field(default_factory=dict)

    @property
    def slots(self) -> tuple[str, ...] | None:
        node = self.assigns.get("__slots__")
        if node is None:
            return None
        try:
            val = const(node)
        except Exception:
            return None
        if isinstance(val, str):
            return (val,)
        return tuple(val)


BASELINE_LOCALS = {"algorithms.isomorphism:_wrap_all.<local>wrapper"}


class Program:
    """All modules of the package, parsed; class table with C3 MRO."""

    def __init__(self, root: Path | str | None = None,
                 overrides: dict[str, str] | None = None,
                 normalise: bool = True):
        self.root = Path(root) if root is not None else REPO
        self.overrides = overrides or {}
        self.modules: dict[str, Module] = {}
        self.classes: dict[str, ClassInfo] = {}
        self.functions: dict[str, FuncInfo] = {}
        self._load()
        self.norm_report: dict = {}
        if normalise and os.environ.get("VERIF_NO_NORMALISE") != "1":
            from .normalise import normalise_program
            self.norm_report = normalise_program(
                self, unroll_loops=os.environ.get("VERIF_NO_UNROLL") != "1",
                canonical=os.environ.get("VERIF_NO_CANON") != "1")

    # -- loading ----------------------------------------------------------
    def _load(self) -> None:
        pkg = self.root / PKG_REL
        if not pkg.is_dir():
            raise AnalysisError(f"package directory {pkg} not found")
        paths = sorted(pkg.rglob("*.py"))
        if not paths:
            raise AnalysisError(f"no python sources under {pkg}")
        parsed = []
        for path in paths:
            rel = str(path.relative_to(self.root))
            src = self.overrides.get(rel)
            if src is None:
                src = path.read_text(encoding="utf-8")
            try:
                tree = ast.parse(src, filename=rel)
            except SyntaxError as e:
                raise AnalysisError(f"{rel} does not parse: {e}") from e
            parsed.append((rel, src, tree))
        # memoised derived state of the graph classes is checked and then
        # eliminated before anything is indexed (sa/memo.py)
        from .memo import eliminate, MemoReport
        if os.environ.get("VERIF_NO_MEMO") == "1":
            self.memo_report = MemoReport()
        else:
            self.memo_report = eliminate({rel: t for rel, _s, t in parsed})
        for rel, src, tree in parsed:
            set_parents(tree)
            name = rel[len(PKG_REL) + 1: -3].replace("/", ".")
            if name.endswith("__init__"):
                name = name[: -len("__init__")].rstrip(".") or "__init__"
            mod = Module(name, rel, src, tree)
            self.modules[name] = mod
            self._index(mod)

    def _index(self, mod: Module) -> None:
        for node in mod.tree.body:
            self._index_stmt(mod, node)

    def _index_stmt(self, mod: Module, node: ast.AST) -> None:
        if isinstance(node, ast.FunctionDef):
            q = f"{mod.name}:{node.name}"
            self.functions[q] = FuncInfo(q, mod, node)
            self.functions[q].span = (node.lineno, node.end_lineno or
                                      node.lineno)
        elif isinstance(node, ast.ClassDef):
            bases = []
            for b in node.bases:
                bb = b.value if isinstance(b, ast.Subscript) else b
                d = dotted(bb)
                if d:
                    bases.append(d.split(".")[-1])
            ci = ClassInfo(node.name, mod, node, bases)
            for st in node.body:
                if isinstance(st, ast.FunctionDef):
                    q = f"{mod.name}:{node.name}.{st.name}"
                    fi = FuncInfo(q, mod, st, ci)
                    fi.span = (st.lineno, st.end_lineno or st.lineno)
                    # property setters etc. would overwrite: keep the first
                    ci.methods.setdefault(st.name, fi)
                    self.functions.setdefault(q, fi)
                elif isinstance(st, ast.Assign):
                    for t in st.targets:
                        if isinstance(t, ast.Name):
                            ci.assigns[t.id] = st.value
                elif isinstance(st, ast.AnnAssign) and isinstance(
                        st.target, ast.Name):
                    ci.annotations[st.target.id] = st.annotation
                    if st.value is not None:
                        ci.assigns[st.target.id] = st.value
            self.classes[node.name] = ci
        elif isinstance(node, (ast.If, ast.Try)):
            # module-level conditionals (TYPE_CHECKING, version switches)
            for sub in ast.iter_child_nodes(node):
                if isinstance(sub, (ast.FunctionDef, ast.ClassDef)):
                    self._index_stmt(mod, sub)

    # -- lookups ----------------------------------------------------------
    def module(self, name: str) -> Module:
        try:
            return self.modules[name]
        except KeyError:
            raise AnalysisError(f"module {name} vanished") from None

    def fn(self, qual: str) -> FuncInfo:
        try:
            return self.functions[qual]
        except KeyError:
            raise AnalysisError(f"anchor function {qual} vanished") from None

    def has_fn(self, qual: str) -> bool:
        return qual in self.functions

    def cls(self, name: str) -> ClassInfo:
        try:
            return self.classes[name]
        except KeyError:
            raise AnalysisError(f"anchor class {name} vanished") from None

    def module_assign(self, module: str, name: str) -> ast.AST:
        """Value node of the last module-level assignment ``name = ...``."""
        mod = self.module(module)
        found = None
        for node in ast.walk(mod.tree):
            if isinstance(node, ast.Assign) and parent(node) is mod.tree:
                for t in node.targets:
                    if isinstance(t, ast.Name) and t.id == name:
                        found = node.value
            elif (isinstance(node, ast.AnnAssign) and parent(node) is mod.tree
                  and isinstance(node.target, ast.Name)
                  and node.target.id == name and node.value is not None):
                found = node.value
        if found is None:
            raise AnalysisError(f"module-level table {module}.{name} vanished")
        return found

    # -- class hierarchy ----------------------------------------------------
    def mro(self, name: str) -> list[str]:
        """C3 linearisation restricted to in-package classes."""
        def lin(c: str) -> list[str]:
            ci = self.classes.get(c)
            if ci is None:
                return []
            bases = [b for b in ci.bases if b in self.classes]
            seqs = [lin(b) for b in bases] + [list(bases)]
            res = [c]
            seqs = [s for s in seqs if s]
            while seqs:
                for s in seqs:
                    head = s[0]
                    if not any(head in t[1:] for t in seqs):
                        break
                else:
                    raise AnalysisError(f"inconsistent MRO for {c}")
                res.append(head)
                seqs = [[x for x in s if x != head] for s in seqs]
                seqs = [s for s in seqs if s]
            return res
        return lin(name)

    def subclasses(self, name: str) -> list[str]:
        return [c for c in self.classes if c != name and name in self.mro(c)]

    def resolve_method(self, cls: str, meth: str,
                       after: str | None = None) -> FuncInfo | None:
        """Method lookup through ``cls``'s MRO; with ``after`` the lookup
        starts behind that class (``super()`` semantics)."""
        mro = self.mro(cls)
        if after is not None:
            if after not in mro:
                return None
            mro = mro[mro.index(after) + 1:]
        for c in mro:
            fi = self.classes[c].methods.get(meth)
            if fi is not None:
                return fi
        return None

    def all_slots(self, cls: str) -> list[str]:
        out: list[str] = []
        for c in reversed(self.mro(cls)):
            for s in self.classes[c].slots or ():
                if s not in out:
                    out.append(s)
        return out

    def slot_annotation(self, cls: str, slot: str) -> ast.AST | None:
        for c in self.mro(cls):
            ann = self.classes[c].annotations.get(slot)
            if ann is not None:
                return ann
        return None

    def digest(self) -> str:
        h = hashlib.sha256()
        for name in sorted(self.modules):
            h.update(name.encode())
            h.update(self.modules[name].src.encode())
        return h.hexdigest()[:16]

    def bind_call(self, caller: "FuncInfo", call: ast.Call
                  ) -> tuple["FuncInfo | None", dict[str, ast.AST]]:
        """Callee (module level function named by a plain name) and the
        parameter -> argument expression binding of a call, positional and
        keyword arguments alike; (None, {}) when not resolvable."""
        f = call.func
        if not isinstance(f, ast.Name):
            return None, {}
        target = self.functions.get(f"{caller.module.name}:{f.id}")
        if target is None:
            hits = [x for q, x in self.functions.items()
                    if x.cls is None and x.name == f.id]
            target = hits[0] if len(hits) == 1 else None
        if target is None:
            return None, {}
        a = target.node.args
        params = [x.arg for x in a.posonlyargs + a.args]
        out: dict[str, ast.AST] = {}
        for p_, x in zip(params, call.args):
            if isinstance(x, ast.Starred):
                return target, {}
            out[p_] = x
        for k in call.keywords:
            if k.arg is None:
                return target, {}
            out[k.arg] = k.value
        return target, out

    # -- what the rules cannot see through ----------------------------------
    def function_at(self, relpath: str, line: int) -> "FuncInfo | None":
        """Innermost function whose ORIGINAL source span contains the line."""
        best = None
        for fi in self.functions.values():
            if fi.module.relpath != relpath:
                continue
            lo, hi = getattr(fi, "span", (0, -1))
            if lo <= line <= hi and (best is None or lo >= best.span[0]):
                best = fi
        return best

    def opaque_context(self, fi: "FuncInfo",
                       line: int | None = None) -> list[str]:
        """Reasons why shape rules may misjudge fi: it still calls package
        helpers that are outside the rule inventory and could not be inlined
        (generators, closures, *args, non-tail returns), calls through a
        loop variable, or reads a module / class level table that is not in
        the inventory and is not a literal."""
        new_funcs = set(self.norm_report.get("new_functions", []))
        new_names = set(self.norm_report.get("new_names", []))
        # constructs no shape rule sees through, whatever the inventory says:
        # a call through a table of callables, a call of a function defined
        # inside fi that the normal form could not inline
        local = []
        inner = {n.name for n in ast.walk(fi.node)
                 if n is not fi.node and isinstance(n, ast.FunctionDef)}
        for n in ast.walk(fi.node):
            if isinstance(n, ast.Call):
                f = n.func
                if isinstance(f, ast.Subscript):
                    b = f.value
                    bname = b.id if isinstance(b, ast.Name) else (
                        b.attr if isinstance(b, ast.Attribute) else "")
                    # registries of classes (STEREO_CLASSES[name](..),
                    # {"MolGraph": MolGraph, ..}[name]()) and generic aliases
                    # (ChangeDict[AtomStereo]()) are constructor calls
                    registry = isinstance(b, ast.Dict) and b.values and all(
                        isinstance(v, ast.Name) and v.id in self.classes
                        for v in b.values)
                    if isinstance(b, ast.Name):
                        defs = [a.value for a in ast.walk(fi.node)
                                if isinstance(a, ast.Assign) and any(
                                    isinstance(t, ast.Name) and t.id == b.id
                                    for t in a.targets)]
                        local_table = bool(defs) and all(
                            isinstance(d, ast.Dict) and not all(
                                isinstance(v, ast.Name)
                                and v.id in self.classes for v in d.values)
                            for d in defs)
                    else:
                        local_table = isinstance(b, ast.Dict) and not registry
                    if local_table:
                        local.append("calls through a table of callables "
                                     f"(`{norm(f, 50)}(..)`)")
        # instances of classes outside the inventory that are called
        from .normalise import baseline
        known_cls = {q.split(":")[1].split(".")[0] for q in baseline()
                     if ":" in q and "." in q.split(":")[1]
                     and not q.split(":")[1].startswith("=")}
        known_cls |= {q.split(":=")[1].split(".")[0] for q in baseline()
                      if ":=" in q and "." in q.split(":=")[1]}
        new_cls = {c for c in self.classes if c not in known_cls}
        if new_cls:
            held: dict[str, str] = {}
            for n in ast.walk(fi.node):
                if isinstance(n, ast.Assign) and isinstance(
                        n.value, ast.Call) and isinstance(
                        n.value.func, ast.Name) and n.value.func.id in new_cls:
                    for t in n.targets:
                        if isinstance(t, ast.Name):
                            held[t.id] = n.value.func.id
            for n in ast.walk(fi.node):
                if isinstance(n, ast.Call):
                    f = n.func
                    base = f.value if isinstance(f, ast.Attribute) else f
                    if isinstance(base, ast.Name) and base.id in held:
                        local.append(f"uses an instance of the class "
                                     f"{held[base.id]} (outside the rule "
                                     "inventory)")
        if not new_funcs and not new_names:
            return sorted(set(local))
        short_new = {q.split(":")[1].split(".")[-1]: q for q in new_funcs}
        out = []
        loopvars = set()
        aliases: dict[str, str] = {}
        for n in ast.walk(fi.node):
            if isinstance(n, (ast.For, ast.comprehension)):
                for x in ast.walk(n.target):
                    if isinstance(x, ast.Name):
                        loopvars.add(x.id)
            elif isinstance(n, ast.Assign):
                # callables handed around in tuples: (table, setter) = ...
                for t in n.targets:
                    if isinstance(t, (ast.Tuple, ast.List)):
                        for x in ast.walk(t):
                            if isinstance(x, ast.Name):
                                loopvars.add(x.id)
                # local alias of a helper: renamed = self._renamed
                v = n.value
                vname = v.id if isinstance(v, ast.Name) else (
                    v.attr if isinstance(v, ast.Attribute) else None)
                if vname in short_new:
                    for t in n.targets:
                        if isinstance(t, ast.Name):
                            aliases[t.id] = short_new[vname]
        for n in ast.walk(fi.node):
            if isinstance(n, ast.Call):
                f = n.func
                name = f.id if isinstance(f, ast.Name) else (
                    f.attr if isinstance(f, ast.Attribute) else None)
                if name in short_new:
                    out.append(f"calls {short_new[name]} (not inlinable)")
                elif isinstance(f, ast.Name) and f.id in aliases:
                    out.append(f"calls {aliases[f.id]} (not inlinable) "
                               f"through the local `{f.id}`")
                elif isinstance(f, ast.Name) and (
                        f.id in loopvars or "__inl_" in f.id):
                    # a callable handed around as a value blurs the loop /
                    # statement it is used in, not the rest of the function
                    if line is not None:
                        reg = n
                        for a_ in ancestors(n):
                            if a_ is fi.node:
                                break
                            if isinstance(a_, (ast.For, ast.While)):
                                reg = a_
                        lo = getattr(reg, "lineno", None)
                        hi = getattr(reg, "end_lineno", lo)
                        if lo is not None and not (lo <= line <= (hi or lo)):
                            continue
                    out.append(f"calls through the local `{f.id}` (a "
                               "callable handed around as a value)")
            elif isinstance(n, ast.Name) and isinstance(n.ctx, ast.Load):
                for q in new_names:
                    if q.split(":=")[1].split(".")[-1] == n.id:
                        out.append(f"reads the table {q}")
            elif isinstance(n, ast.Attribute) and isinstance(n.ctx, ast.Load):
                for q in new_names:
                    if "." in q.split(":=")[1] and \
                            q.split(":=")[1].split(".")[-1] == n.attr:
                        out.append(f"reads the table {q}")
        return sorted(set(out) | set(local))

    def class_constant(self, K: str, name: str, _depth: int = 0):
        """AST of the class level value `name` as seen from class K (first
        definition along the MRO), with `Other.attr` references and
        MappingProxyType / staticmethod wrappers resolved; None when there is
        none or it is not a plain expression."""
        if _depth > 6 or K not in self.classes:
            return None
        for c in self.mro(K):
            ci = self.classes.get(c)
            if ci is None or name not in ci.assigns:
                continue
            v = clone(ci.assigns[name])
            prog = self

            class R(ast.NodeTransformer):
                ok = True

                def visit_Call(self, n):
                    self.generic_visit(n)
                    cn = call_name(n) or ""
                    if cn.split(".")[-1] in ("MappingProxyType",
                                             "staticmethod") and \
                            len(n.args) == 1 and not n.keywords:
                        return n.args[0]
                    return n

                def visit_Attribute(self, n):
                    if isinstance(n.value, ast.Name) and \
                            n.value.id in prog.classes:
                        r = prog.class_constant(n.value.id, n.attr,
                                                _depth + 1)
                        if r is None:
                            self.ok = False
                            return n
                        return r
                    self.generic_visit(n)
                    return n

                def visit_Dict(self, n):
                    self.generic_visit(n)
                    keys, vals = [], []
                    for k, v_ in zip(n.keys, n.values):
                        if k is None and isinstance(v_, ast.Dict):
                            keys += v_.keys          # {**{..}, ..}
                            vals += v_.values
                        else:
                            keys.append(k)
                            vals.append(v_)
                    n.keys, n.values = keys, vals
                    return n
            r = R()
            v = r.visit(v)
            return v if r.ok else None
        return None

    def specialise(self, fi: "FuncInfo", K: str) -> "FuncInfo":
        """fi as it behaves on an instance of class K: `self.<name>` for a
        class level name that is outside the rule inventory (configuration
        through class attributes) is replaced by the value K sees, `f(..,
        **{literal})` spreads into keywords."""
        from .normalise import baseline
        if fi.cls is None or not fi.params():
            return fi
        me = fi.params()[0]
        # __eq__ compares two objects of one class (the class guard comes
        # first): `other` sees the same class level configuration
        recv = {me}
        if fi.name == "__eq__" and len(fi.params()) > 1:
            recv.add(fi.params()[1])
        keep = baseline()
        hits = {}
        for n in ast.walk(fi.node):
            if isinstance(n, ast.Attribute) and isinstance(
                    n.value, ast.Name) and n.value.id in recv and isinstance(
                    n.ctx, ast.Load):
                owner = None
                for c in self.mro(K):
                    ci = self.classes.get(c)
                    if ci is not None and n.attr in ci.assigns:
                        owner = ci
                        break
                if owner is None:
                    continue
                if f"{owner.module.name}:={owner.name}.{n.attr}" in keep:
                    continue
                v = self.class_constant(K, n.attr)
                if v is not None:
                    hits[id(n)] = v
        fi = self._devirtualise(fi, K, recv, keep)
        if not hits and not getattr(fi, "_devirt", False):
            return fi
        hits = {}
        for n in ast.walk(fi.node):
            if isinstance(n, ast.Attribute) and isinstance(
                    n.value, ast.Name) and n.value.id in recv and isinstance(
                    n.ctx, ast.Load):
                owner = None
                for c in self.mro(K):
                    ci = self.classes.get(c)
                    if ci is not None and n.attr in ci.assigns:
                        owner = ci
                        break
                if owner is None or \
                        f"{owner.module.name}:={owner.name}.{n.attr}" in keep:
                    continue
                v = self.class_constant(K, n.attr)
                if v is not None:
                    hits[id(n)] = v
        fn = clone(fi.node)
        # clone() keeps structure: walk both trees in parallel
        pairs = list(zip(ast.walk(fi.node), ast.walk(fn)))

        class S(ast.NodeTransformer):
            def __init__(self, table):
                self.table = table

            def visit_Attribute(self, n):
                if id(n) in self.table:
                    return clone(self.table[id(n)])
                self.generic_visit(n)
                return n

            def visit_Call(self, n):
                self.generic_visit(n)
                kws = []
                for k in n.keywords:
                    if k.arg is None and isinstance(k.value, ast.Dict) and \
                            all(isinstance(x, ast.Constant) and isinstance(
                                x.value, str) for x in k.value.keys):
                        for kk, vv in zip(k.value.keys, k.value.values):
                            kws.append(ast.keyword(arg=kk.value, value=vv))
                    else:
                        kws.append(k)
                n.keywords = kws
                return n
        table = {id(b): hits[id(a)] for a, b in pairs if id(a) in hits}
        fn = S(table).visit(fn)
        ast.fix_missing_locations(fn)
        set_parents(fn)
        out = FuncInfo(fi.qual, fi.module, fn, fi.cls)
        try:
            from .normalise import canonicalise
            mfuncs = {f.name for f in self.functions.values()
                      if f.module is fi.module and f.cls is None}
            # imported module functions count as function names too
            for st in ast.walk(fi.module.tree):
                if isinstance(st, ast.ImportFrom):
                    mfuncs |= {a.asname or a.name for a in st.names}
            u, _ch = canonicalise(fn, me, set(), {"*"}, mfuncs)
            out = FuncInfo(fi.qual, fi.module, u, fi.cls)
        except Exception:
            pass
        return out

    def _devirtualise(self, fi: "FuncInfo", K: str, recv: set, keep: set):
        """Calls `self.hook()` of hook methods outside the inventory whose
        body is one return expression are replaced by that expression as
        class K executes it: the method found along K's MRO, `super().hook()`
        inside it continued after the defining class, `Cls.hook(self)` taken
        from Cls.  {**{..}, k: v} literals are merged."""
        prog = self

        def body_expr(m):
            b = [st for st in m.node.body if not (
                isinstance(st, ast.Expr) and isinstance(
                    st.value, ast.Constant))]
            if len(b) == 1 and isinstance(b[0], ast.Return) and \
                    b[0].value is not None and len(m.params()) == 1:
                return b[0].value
            return None

        def expand(call, who, cur_cls, depth):
            """expression for a hook call, or None"""
            if depth > 8:
                return None
            f = call.func
            if call.args or call.keywords:
                # Cls.hook(self)
                if isinstance(f, ast.Attribute) and isinstance(
                        f.value, ast.Name) and f.value.id in prog.classes \
                        and len(call.args) == 1 and not call.keywords and \
                        isinstance(call.args[0], ast.Name):
                    m = prog.resolve_method(f.value.id, f.attr)
                    who2 = call.args[0].id
                else:
                    return None
            elif isinstance(f, ast.Attribute) and isinstance(
                    f.value, ast.Name) and f.value.id == who:
                m = prog.resolve_method(K, f.attr)
                who2 = who
            elif isinstance(f, ast.Attribute) and isinstance(
                    f.value, ast.Call) and call_name(f.value) == "super" \
                    and cur_cls is not None:
                m = prog.resolve_method(K, f.attr, after=cur_cls)
                who2 = who
            else:
                return None
            if m is None or m.qual in keep or m.cls is None:
                return None
            e = body_expr(m)
            if e is None:
                return None
            me = m.params()[0]
            e = clone(e)

            class T(ast.NodeTransformer):
                def visit_Call(self, n):
                    r = expand(n, me, m.cls.name, depth + 1)
                    if r is not None:
                        return r
                    self.generic_visit(n)
                    return n

                def visit_Name(self, n):
                    if n.id == me and me != who2:
                        return ast.copy_location(
                            ast.Name(who2, n.ctx), n)
                    return n

                def visit_Dict(self, n):
                    self.generic_visit(n)
                    keys, vals = [], []
                    for k, v_ in zip(n.keys, n.values):
                        if k is None and isinstance(v_, ast.Dict):
                            for kk, vv in zip(v_.keys, v_.values):
                                if kk is not None and any(
                                        x is not None and norm(x) == norm(kk)
                                        for x in keys):
                                    i = [norm(x) if x is not None else None
                                         for x in keys].index(norm(kk))
                                    vals[i] = vv
                                else:
                                    keys.append(kk)
                                    vals.append(vv)
                        elif k is not None and any(
                                x is not None and norm(x) == norm(k)
                                for x in keys):
                            i = [norm(x) if x is not None else None
                                 for x in keys].index(norm(k))
                            vals[i] = v_
                        else:
                            keys.append(k)
                            vals.append(v_)
                    n.keys, n.values = keys, vals
                    return n
            return T().visit(e)

        changed = [False]

        class Top(ast.NodeTransformer):
            def visit_Call(self, n):
                f = n.func
                if isinstance(f, ast.Attribute) and isinstance(
                        f.value, ast.Name) and f.value.id in recv and \
                        not n.args and not n.keywords:
                    r = expand(n, f.value.id, None, 0)
                    if r is not None:
                        changed[0] = True
                        return ast.copy_location(r, n)
                self.generic_visit(n)
                return n
        fn = Top().visit(clone(fi.node))
        if not changed[0]:
            return fi
        ast.fix_missing_locations(fn)
        set_parents(fn)
        out = FuncInfo(fi.qual, fi.module, fn, fi.cls)
        out._devirt = True
        return out

    def inlined_away(self, qual: str) -> bool:
        """qual is a function outside the rule inventory that the normal form
        has inlined into every one of its callers (no call by that name is
        left anywhere): module sweeping rules look at it there, not on its
        own."""
        if qual not in self.norm_report.get("new_functions", []):
            return False
        if not any(h == qual for _c, h in self.norm_report.get("inlined", [])):
            return False
        name = qual.split(":")[1].split(".")[-1]
        for fi in self.functions.values():
            if fi.qual == qual:
                continue
            for n in ast.walk(fi.node):
                if isinstance(n, ast.Call):
                    f = n.func
                    if (isinstance(f, ast.Name) and f.id == name) or (
                            isinstance(f, ast.Attribute) and f.attr == name):
                        return False
        return True

    def signature_of(self, name: str) -> tuple[str, ...] | None:
        """Positional parameter names (without self / cls) of the package
        callable `name`, when all definitions of that name agree."""
        if not hasattr(self, "_sigs"):
            table: dict[str, set] = {}
            for fi in self.functions.values():
                a = fi.node.args
                if a.vararg or a.posonlyargs:
                    params = None
                else:
                    params = tuple(x.arg for x in a.args)
                    if fi.cls is not None and not fi.is_staticmethod():
                        params = params[1:]
                    params = params + tuple(x.arg for x in a.kwonlyargs)
                table.setdefault(fi.name, set()).add(params)
            self._sigs = {k: next(iter(v)) for k, v in table.items()
                          if len(v) == 1 and next(iter(v)) is not None}
        return self._sigs.get(name)

    def bound_args(self, call: ast.Call) -> dict[str, ast.AST] | None:
        """parameter -> argument expression of a call to a package function
        or method (by its unique name), however the arguments are passed;
        None when the callee's signature is not known."""
        f = call.func
        name = f.id if isinstance(f, ast.Name) else (
            f.attr if isinstance(f, ast.Attribute) else None)
        sig = self.signature_of(name) if name else None
        if sig is None or any(isinstance(a, ast.Starred) for a in call.args) \
                or any(k.arg is None for k in call.keywords):
            return None
        if len(call.args) > len(sig):
            return None
        out = dict(zip(sig, call.args))
        for k in call.keywords:
            out[k.arg] = k.value
        return out

    def stats(self) -> dict:
        return {
            "modules": len(self.modules),
            "functions": len(self.functions),
            "classes": len(self.classes),
            "source_digest": self.digest(),
            "helpers_inlined": [f"{h} into {c}" for c, h in
                                self.norm_report.get("inlined", [])],
            "functions_not_in_rule_inventory":
                self.norm_report.get("new_functions", []),
        }


GRAPH_CLASSES = ("MolGraph", "StereoMolGraph", "CondensedReactionGraph",
                 "StereoCondensedReactionGraph")
SHORT = {"MolGraph": "MG", "StereoMolGraph": "SMG",
         "CondensedReactionGraph": "CRG",
         "StereoCondensedReactionGraph": "SCRG"}
DESCRIPTOR_CLASSES = ("Tetrahedral", "SquarePlanar", "TrigonalBipyramidal",
                      "Octahedral", "PlanarBond", "AtropBond")


# --------------------------------------------------------------------------
# local def-use (flow-insensitive), used by the dependency rules
# --------------------------------------------------------------------------

def _targets(t: ast.AST):
    if isinstance(t, ast.Name):
        yield t.id
    elif isinstance(t, (ast.Tuple, ast.List)):
        for e in t.elts:
            yield from _targets(e)
    elif isinstance(t, ast.Starred):
        yield from _targets(t.value)


class DefUse:
    """name -> list of expressions that may define it inside one function
    (assignments, augmented assignments, for/with/comprehension targets,
    walrus, in-place ``x[...] = e`` / ``x.m(e)`` treated as updates of x)."""

    def __init__(self, func: ast.FunctionDef | ast.Lambda):
        self.func = func
        self.defs: dict[str, list[ast.AST]] = {}
        for node in ast.walk(func):
            if isinstance(node, ast.Assign):
                for t in node.targets:
                    self._bind(t, node.value)
            elif isinstance(node, ast.AnnAssign) and node.value is not None:
                self._bind(node.target, node.value)
            elif isinstance(node, ast.AugAssign):
                self._bind(node.target, node.value)
            elif isinstance(node, (ast.For, ast.comprehension)):
                self._bind(node.target, node.iter)
            elif isinstance(node, ast.NamedExpr):
                self._bind(node.target, node.value)
            elif isinstance(node, ast.withitem) and node.optional_vars:
                self._bind(node.optional_vars, node.context_expr)
            elif isinstance(node, ast.Call) and isinstance(
                    node.func, ast.Attribute):
                # x.append(e), x.update(e), np.copyto(x, e) ...
                base = node.func.value
                root = self._root(base)
                if root and node.func.attr in MUTATING_METHODS:
                    for a in list(node.args) + [k.value for k in node.keywords]:
                        self.defs.setdefault(root, []).append(a)
                for k in node.keywords:
                    if k.arg == "out":
                        r = self._root(k.value)
                        if r:
                            for a in node.args:
                                self.defs.setdefault(r, []).append(a)

    @staticmethod
    def _root(node: ast.AST) -> str | None:
        while isinstance(node, (ast.Subscript, ast.Attribute)):
            node = node.value
        return node.id if isinstance(node, ast.Name) else None

    def _bind(self, target: ast.AST, value: ast.AST) -> None:
        if isinstance(target, (ast.Subscript, ast.Attribute)):
            root = self._root(target)
            if root:
                self.defs.setdefault(root, []).append(value)
                if isinstance(target, ast.Subscript):
                    self.defs[root].append(target.slice)
            return
        for name in _targets(target):
            self.defs.setdefault(name, []).append(value)

    def deps(self, expr: ast.AST, stop: set[str] | None = None) -> set[str]:
        """Transitive set of names the expression may depend on."""
        seen: set[str] = set()
        work = [expr]
        while work:
            e = work.pop()
            for n in ast.walk(e):
                if isinstance(n, ast.Name) and n.id not in seen:
                    seen.add(n.id)
                    if stop and n.id in stop:
                        continue
                    work.extend(self.defs.get(n.id, ()))
        return seen

    def dep_nodes(self, expr: ast.AST) -> list[ast.AST]:
        """All expression nodes in the transitive definition closure."""
        seen: set[str] = set()
        out = [expr]
        work = [expr]
        while work:
            e = work.pop()
            for n in ast.walk(e):
                if isinstance(n, ast.Name) and n.id not in seen:
                    seen.add(n.id)
                    for d in self.defs.get(n.id, ()):
                        out.append(d)
                        work.append(d)
        return out


MUTATING_METHODS = {
    "append", "extend", "insert", "add", "update", "setdefault", "pop",
    "popitem", "remove", "discard", "clear", "sort", "reverse", "fill",
    "intersection_update", "difference_update",
    "symmetric_difference_update", "rotate", "appendleft",
}


def clone(node):
    """Deep copy of an AST that does not follow the ``_parent`` back links
    (copy.deepcopy would copy the whole module through them)."""
    if isinstance(node, list):
        return [clone(x) for x in node]
    if not isinstance(node, ast.AST):
        return node
    new = node.__class__()
    for f in node._fields:
        if hasattr(node, f):
            setattr(new, f, clone(getattr(node, f)))
    for a in ("lineno", "col_offset", "end_lineno", "end_col_offset"):
        if hasattr(node, a):
            setattr(new, a, getattr(node, a))
    return new


class _Rename(ast.NodeTransformer):
    def __init__(self, table):
        self.table = table

    def visit_Name(self, node):
        if node.id in self.table and isinstance(node.ctx, ast.Load):
            return clone(self.table[node.id])
        return node


def unroll_literal_loops(func: ast.FunctionDef) -> ast.FunctionDef:
    """Clone of func in which every ``for a, b in ((x1, y1), (x2, y2))`` over a
    literal tuple/list (and ``a, b = (f(n) for n in (..))``) is replaced by one
    copy per row with the targets substituted (so indirections through such
    tables disappear)."""
    from .normalise import unroll
    new, changed = unroll(func)
    if not changed:
        ast.fix_missing_locations(new)
        set_parents(new)
    return new


# --------------------------------------------------------------------------
# reaching definitions for structured code (approximation used by the
# identifier-kind rules): definitions that textually precede the use, are not
# in a sibling branch of an `if`, and are not shadowed by a later definition
# that dominates the use.
# --------------------------------------------------------------------------

def _branch_of(if_node: ast.If, node: ast.AST) -> str | None:
    for fld in ("body", "orelse"):
        for st in getattr(if_node, fld):
            if st is node or any(x is node for x in ast.walk(st)):
                return fld
    if any(x is node for x in ast.walk(if_node.test)):
        return "test"
    return None


def _name_defs(func: ast.AST, name: str):
    """(statement-or-comprehension node, value expr, kind) defining name."""
    out = []
    for node in ast.walk(func):
        if isinstance(node, ast.Assign):
            for t in node.targets:
                if isinstance(t, ast.Name) and t.id == name:
                    out.append((node, node.value, "assign"))
                elif isinstance(t, (ast.Tuple, ast.List)) and any(
                        isinstance(x, ast.Name) and x.id == name
                        for x in ast.walk(t)):
                    out.append((node, node.value, "unpack"))
        elif isinstance(node, ast.AnnAssign) and node.value is not None and \
                isinstance(node.target, ast.Name) and node.target.id == name:
            out.append((node, node.value, "assign"))
        elif isinstance(node, ast.NamedExpr) and node.target.id == name:
            out.append((node, node.value, "assign"))
        elif isinstance(node, ast.For) and any(
                isinstance(x, ast.Name) and x.id == name
                for x in ast.walk(node.target)):
            out.append((node, node.iter, "iter"))
        elif isinstance(node, ast.comprehension) and any(
                isinstance(x, ast.Name) and x.id == name
                for x in ast.walk(node.target)):
            out.append((node, node.iter, "iter"))
    return out


def reaching_defs(func: ast.AST, use: ast.Name):
    """[(value expr, kind)] of the definitions of use.id that may reach it."""
    cands = []
    use_anc = [use] + list(ancestors(use))
    for stmt, value, kind in _name_defs(func, use.id):
        if isinstance(stmt, ast.comprehension):
            comp = parent(stmt)
            if comp in use_anc:
                cands.append((stmt, value, kind, True))
            continue
        if isinstance(stmt, ast.For):
            if stmt in use_anc and not any(x is use for x in ast.walk(stmt.iter)):
                cands.append((stmt, value, kind, True))
            elif getattr(stmt, "lineno", 0) < getattr(use, "lineno", 0):
                cands.append((stmt, value, kind, False))
            continue
        if getattr(stmt, "lineno", 0) > getattr(use, "lineno", 0):
            continue
        if stmt in use_anc and kind != "assign":
            continue
        if any(x is use for x in ast.walk(stmt)) and not isinstance(
                stmt, ast.NamedExpr):
            # `x = f(x)`: the use on the right sees earlier definitions
            continue
        ok = True
        for a in ancestors(stmt):
            if isinstance(a, ast.If) and a in use_anc:
                if _branch_of(a, stmt) != _branch_of(a, use):
                    ok = False
                    break
        if not ok:
            continue
        # does this definition dominate the use (its block encloses the use)?
        blk = parent(stmt)
        dominating = blk in use_anc
        cands.append((stmt, value, kind, dominating))
    if not cands:
        return []
    # innermost loop/comprehension binding wins
    binders = [c for c in cands if c[2] == "iter" and c[3]]
    if binders:
        inner = min(binders, key=lambda c: use_anc.index(
            parent(c[0]) if isinstance(c[0], ast.comprehension) else c[0]))
        return [(inner[1], inner[2])]
    doms = [c for c in cands if c[3]]
    if doms:
        last = max(doms, key=lambda c: c[0].lineno)
        cands = [c for c in cands if c[0].lineno >= last[0].lineno]
    return [(c[1], c[2]) for c in cands]
