"""Analyses of algorithms/isomorphism.py shared by C01, C02 and C05.

A1 side kinds  every atom-valued expression / container is of side 1 (first
               graph) or side 2 (second graph); containers of one side are
               only indexed / tested / updated with atoms of the same side.
A9 mirror      statements handling side 1 have an alpha-equivalent partner for
               side 2 (full-graph matching treats both graphs symmetrically).
"""
from __future__ import annotations

import ast
from .core import utext
import re

from .core import (AnalysisError, FuncInfo, Program, ancestors, call_name,
                   norm, parent)
from .report import Result

MOD = "algorithms.isomorphism"
FULL_GRAPH_FUNCS = ("_sanity_check_and_init", "vf2pp_all_isomorphisms",
                    "_graph_feasibility", "_stereo_feasibility",
                    "_stereo_change_feasibility", "_matching_order",
                    "_find_candidates", "_update_state", "_revert_state",
                    "_bond_change_feasibility")

# kinds ---------------------------------------------------------------------
# ("atom", s) ("set", s) ("map", key_side|None, value_kind) ("stereo", s)
# ("stereos", s)  None = unknown / not an atom thing


def field_kind(name: str):
    m = re.fullmatch(r"g([12])_nbrhd", name)
    if m:
        s = int(m.group(1))
        return ("map", s, ("set", s))
    m = re.fullmatch(r"g([12])_labels", name)
    if m:
        return ("map", int(m.group(1)), None)
    m = re.fullmatch(r"nodes_of_g([12])Labels", name)
    if m:
        return ("map", None, ("set", int(m.group(1))))
    m = re.fullmatch(r"g([12])_degree", name)
    if m:
        return ("map", int(m.group(1)), None)
    m = re.fullmatch(r"g([12])_nodes_of_degree", name)
    if m:
        return ("map", None, ("set", int(m.group(1))))
    m = re.fullmatch(r"g([12])_stereo", name)
    if m:
        s = int(m.group(1))
        return ("map", s, ("stereos", s))
    m = re.fullmatch(r"g([12])_stereo_changes", name)
    if m:
        s = int(m.group(1))
        return ("map", s, ("map", None, ("stereos", s)))
    m = re.fullmatch(r"g([12])_bond_changes", name)
    if m:
        return ("bondmap", int(m.group(1)))
    if name == "mapping":
        return ("map", 1, ("atom", 2))
    if name == "inverted_mapping":
        return ("map", 2, ("atom", 1))
    m = re.fullmatch(r"(frontier|external)([12])", name)
    if m:
        return ("set", int(m.group(2)))
    return None


def name_side(name: str) -> int | None:
    """Side digit carried by an identifier (g1_x, frontier2, new_atom1 ...)."""
    if name in ("u", "matching_atom"):
        return 1
    if name in ("v", "candidate"):
        return 2
    if name == "mapping":
        return 1
    if name == "inverted_mapping":
        return 2
    digits = set(re.findall(r"(?<![0-9])([12])(?![0-9])", name))
    if len(digits) == 1:
        return int(digits.pop())
    return None


class SideKinds:
    def __init__(self, prog: Program, fi: FuncInfo, fields: dict[str, list[str]]):
        self.prog = prog
        self.fi = fi
        self.fields = fields            # class -> ordered field names
        self.env: dict[str, object] = {}
        self.unpack_problems: list[tuple[ast.AST, str]] = []
        self.seed_params()
        for _ in range(5):
            self.propagate()

    # -- seeds ----------------------------------------------------------------
    def seed_params(self):
        params = self.fi.params()
        name = self.fi.name
        for p in params:
            k = field_kind(p)
            if k:
                self.env[p] = k
        # positional roles of the (u, v, state, params) protocol
        if name in ("_graph_feasibility", "_stereo_feasibility",
                    "_stereo_change_feasibility", "_update_state",
                    "_revert_state", "_bond_change_feasibility") and len(
                    params) >= 2:
            self.env[params[0]] = ("atom", 1)
            self.env[params[1]] = ("atom", 2)
        elif name in ("_find_candidates",) and params:
            self.env[params[0]] = ("atom", 1)
        for p in params:
            if p == "state":
                self.env[p] = ("record", "_State")
            elif p == "params":
                self.env[p] = ("record", "_Parameters")
            elif re.fullmatch(r"g[12]", p):
                self.env[p] = ("graph", int(p[1]))

    # -- expression kinds ----------------------------------------------------
    def kind(self, e: ast.AST):
        if isinstance(e, ast.Name):
            if e.id in self.env:
                return self.env[e.id]
            return None
        if isinstance(e, ast.Attribute):
            base = self.kind(e.value)
            if isinstance(base, tuple) and base[0] == "record":
                return field_kind(e.attr)
            if isinstance(base, tuple) and base[0] == "graph":
                s = base[1]
                if e.attr in ("atoms",):
                    return ("set", s)
                if e.attr in ("neighbors",):
                    return ("map", s, ("set", s))
                if e.attr in ("stereo", "atom_stereo", "bond_stereo"):
                    return ("map", None, ("stereo", s))
                if e.attr in ("atom_stereo_changes", "bond_stereo_changes"):
                    return ("map", None, ("map", None, ("stereo", s)))
                return None
            if isinstance(base, tuple) and base[0] == "stereo" and e.attr == "atoms":
                return ("set", base[1])
            return None
        if isinstance(e, ast.Subscript):
            base = self.kind(e.value)
            if isinstance(base, tuple):
                if base[0] == "map":
                    return base[2]
                if base[0] in ("set", "stereos", "list"):
                    if isinstance(e.slice, ast.Slice):
                        return base
                    if base[0] == "set":
                        return ("atom", base[1])
                    if base[0] == "stereos":
                        return ("stereo", base[1])
                if base[0] == "pairs":
                    return base
            return None
        if isinstance(e, ast.Call):
            cn = call_name(e)
            if isinstance(e.func, ast.Attribute):
                recv = self.kind(e.func.value)
                meth = e.func.attr
                if isinstance(recv, tuple):
                    if recv[0] == "map":
                        if meth in ("get", "pop", "setdefault"):
                            return recv[2]
                        if meth == "keys":
                            return ("set", recv[1]) if recv[1] else None
                        if meth == "values":
                            return ("vals", recv[2])
                        if meth == "items":
                            return ("items", recv[1], recv[2])
                        if meth == "copy":
                            return recv
                    if recv[0] == "set":
                        if meth in ("pop",):
                            return ("atom", recv[1])
                        if meth in ("copy", "union", "intersection",
                                    "difference"):
                            return recv
                    if recv[0] == "graph" and meth == "bonded_to":
                        return ("set", recv[1])
            if cn in ("set", "list", "tuple", "sorted", "frozenset", "iter",
                      "reversed") and len(e.args) == 1:
                k = self.kind(e.args[0])
                if isinstance(k, tuple) and k[0] == "map" and k[1]:
                    return ("set", k[1])
                return k
            if cn == "len":
                return None
            # calls of the module's own helpers
            if cn in ("_matching_order",):
                return ("set", 1)
            if cn in ("find_candidates", "_find_candidates",
                      "_find_subgraph_candidates"):
                return ("set", 2)
            return None
        if isinstance(e, (ast.SetComp, ast.ListComp, ast.GeneratorExp)):
            sub = dict(self.env)
            for g in e.generators:
                self.bind(g.target, self.elem(self.kind_in(g.iter, sub)), sub)
            k = self.kind_in(e.elt, sub)
            if isinstance(k, tuple) and k[0] == "atom":
                return ("set", k[1])
            return None
        if isinstance(e, ast.DictComp):
            sub = dict(self.env)
            for g in e.generators:
                self.bind(g.target, self.elem(self.kind_in(g.iter, sub)), sub)
            kk = self.kind_in(e.key, sub)
            vk = self.kind_in(e.value, sub)
            return ("map", kk[1] if isinstance(kk, tuple) and kk[0] == "atom"
                    else None, vk)
        if isinstance(e, ast.IfExp):
            return self.kind(e.body) or self.kind(e.orelse)
        if isinstance(e, ast.NamedExpr):
            return self.kind(e.value)
        return None

    def kind_in(self, e, env):
        saved = self.env
        self.env = env
        try:
            return self.kind(e)
        finally:
            self.env = saved

    @staticmethod
    def elem(k):
        if not isinstance(k, tuple):
            return None
        if k[0] == "set":
            return ("atom", k[1])
        if k[0] == "map":
            return ("atom", k[1]) if k[1] else None
        if k[0] == "stereos":
            return ("stereo", k[1])
        if k[0] == "vals":
            return k[1]
        if k[0] == "items":
            return ("pair", ("atom", k[1]) if k[1] else None, k[2])
        return None

    def bind(self, target, k, env):
        if isinstance(target, ast.Name):
            if k is not None:
                env[target.id] = k
            return
        if isinstance(target, (ast.Tuple, ast.List)):
            if isinstance(k, tuple) and k[0] == "pair" and len(target.elts) == 2:
                self.bind(target.elts[0], k[1], env)
                self.bind(target.elts[1], k[2], env)
            elif isinstance(k, tuple) and k[0] == "stack":
                self.bind(target.elts[0], ("atom", 1), env)
                if len(target.elts) > 1:
                    self.bind(target.elts[1], ("set", 2), env)

    # -- propagation ---------------------------------------------------------
    def propagate(self):
        for node in ast.walk(self.fi.node):
            if isinstance(node, ast.Assign):
                for t in node.targets:
                    self.assign(t, node.value, node)
            elif isinstance(node, ast.AnnAssign) and node.value is not None:
                self.assign(node.target, node.value, node)
            elif isinstance(node, ast.NamedExpr):
                self.assign(node.target, node.value, node)
            elif isinstance(node, ast.For):
                self.bind(node.target, self.elem(self.kind(node.iter)), self.env)

    def record_fields(self, e: ast.AST):
        k = self.kind(e)
        if isinstance(k, tuple) and k[0] == "record":
            return self.fields.get(k[1])
        return None

    def assign(self, target, value, node):
        # positional unpacking of the parameter / state records
        if isinstance(target, (ast.Tuple, ast.List)):
            fields = self.record_fields(value)
            if fields is not None:
                elts = target.elts
                star = [i for i, t in enumerate(elts)
                        if isinstance(t, ast.Starred)]
                if len(star) <= 1:
                    n = len(elts)
                    for i, t in enumerate(elts):
                        if isinstance(t, ast.Starred):
                            continue
                        if star and i > star[0]:
                            f = fields[len(fields) - (n - i)]
                        else:
                            f = fields[i] if i < len(fields) else None
                        if f and isinstance(t, ast.Name) and t.id != "_":
                            fk = field_kind(f)
                            if fk:
                                self.env[t.id] = fk
                            ns, fs = name_side(t.id), name_side(f)
                            if ns and fs and ns != fs and t.id != f:
                                self.unpack_problems.append(
                                    (node, f"local `{t.id}` receives field "
                                           f"`{f}` of the other graph"))
                return
            if isinstance(value, ast.Tuple) and len(value.elts) == len(target.elts):
                for t, v in zip(target.elts, value.elts):
                    self.assign(t, v, node)
                return
            # stack entries (atom of g1, candidate set of g2)
            if isinstance(value, ast.Subscript) and norm(value.value) == "stack":
                self.bind(target, ("stack",), self.env)
                return
            k = self.kind(value)
            if isinstance(k, tuple) and k[0] == "pair":
                self.bind(target, k, self.env)
            return
        if isinstance(target, ast.Name):
            k = self.kind(value)
            if k is None:
                # seeds by naming convention for locals of the main loop
                if isinstance(value, ast.Subscript) and norm(
                        value.value) == "node_order":
                    k = ("atom", 1)
                elif isinstance(value, ast.IfExp) and "candidates.pop()" in norm(value):
                    k = ("atom", 2)
            if k is not None:
                self.env[target.id] = k


# ---------------------------------------------------------------------------

def record_fields(prog: Program) -> dict[str, list[str]]:
    out = {}
    for cname in ("_Parameters", "_State"):
        ci = prog.cls(cname)
        out[cname] = [st.target.id for st in ci.node.body
                      if isinstance(st, ast.AnnAssign)
                      and isinstance(st.target, ast.Name)]
        if len(out[cname]) < 6:
            raise AnalysisError(f"{cname}: fields not recognised")
    return out


def check_side(prog: Program, res: Result) -> None:
    res.rule("R-SIDE", "in the full-graph VF2++ functions a container of "
             "graph 2 (g2_*, frontier2, external2, inverted_mapping keys) is "
             "only indexed / tested / updated with atoms of graph 2, and "
             "symmetrically for graph 1; `mapping` is keyed by graph-1 atoms "
             "and holds graph-2 atoms")
    res.rule("R-UNPACK", "locals unpacked positionally from the _Parameters / "
             "_State records receive the field of the side their name says")
    fields = record_fields(prog)
    n_sites = 0
    for fname in FULL_GRAPH_FUNCS:
        fi = prog.fn(f"{MOD}:{fname}")
        sk = SideKinds(prog, fi, fields)
        for node, msg in sk.unpack_problems:
            res.bad("R-UNPACK", f"{fi.short}: {norm(node, 90)}", fi.loc(node),
                    f"{fi.short}: {msg} in `{norm(node, 90)}`")
        if not sk.unpack_problems:
            res.ok("R-UNPACK", fi.short, fi.loc())

        def env_at(node):
            """environment including comprehension-local bindings."""
            env = dict(sk.env)
            chain = [a for a in ancestors(node)]
            inner = node
            path = list(reversed(chain))          # outermost first
            for i, a in enumerate(path):
                below = path[i + 1] if i + 1 < len(path) else node
                if isinstance(a, (ast.ListComp, ast.SetComp, ast.GeneratorExp,
                                  ast.DictComp)):
                    for g in a.generators:
                        sk.bind(g.target, sk.elem(sk.kind_in(g.iter, env)), env)
                elif isinstance(a, ast.For) and below is not a.iter and \
                        below is not a.target:
                    for nm in ast.walk(a.target):
                        if isinstance(nm, ast.Name):
                            env.pop(nm.id, None)
                    sk.bind(a.target, sk.elem(sk.kind_in(a.iter, env)), env)
            return env

        def site(container: ast.AST, key: ast.AST, node: ast.AST, what: str):
            nonlocal n_sites
            env = env_at(node)
            ck = sk.kind_in(container, env)
            kk = sk.kind_in(key, env)
            if not isinstance(ck, tuple):
                return
            if ck[0] == "bondmap":
                # key must be frozenset((a, b)) / Bond((a, b)) of this side
                n_sites += 1
                inst = f"{fi.short}: {norm(node, 70)}"
                members = []
                if isinstance(key, ast.Call) and call_name(key) in (
                        "frozenset", "Bond") and len(key.args) == 1 and \
                        isinstance(key.args[0], (ast.Tuple, ast.Set, ast.List)):
                    members = key.args[0].elts
                sides = [sk.kind_in(m, env) for m in members]
                wrong = [norm(m) for m, k2 in zip(members, sides)
                         if isinstance(k2, tuple) and k2[0] == "atom"
                         and k2[1] != ck[1]]
                if wrong:
                    res.bad("R-SIDE", f"{fi.short}: {norm(node, 90)}",
                            fi.loc(node), f"{fi.short}: bond table of graph "
                            f"{ck[1]} looked up with {wrong} of the other "
                            f"graph in `{norm(node, 90)}`", instance=inst)
                else:
                    res.ok("R-SIDE", inst, fi.loc(node))
                return
            want = None
            if ck[0] == "map":
                want = ck[1]
            elif ck[0] == "set":
                want = ck[1]
            if want is None:
                return
            n_sites += 1
            inst = f"{fi.short}: {norm(node, 70)}"
            if isinstance(kk, tuple) and kk[0] == "atom" and kk[1] != want:
                res.bad("R-SIDE", f"{fi.short}: {norm(node, 90)}",
                        fi.loc(node),
                        f"{fi.short}: `{norm(container)}` belongs to graph "
                        f"{want} but is {what} with `{norm(key)}`, an atom of "
                        f"graph {kk[1]}, in `{norm(node, 90)}`", instance=inst)
            else:
                res.ok("R-SIDE", inst, fi.loc(node),
                       "same side" if isinstance(kk, tuple) else
                       "key side unknown")

        for node in ast.walk(fi.node):
            if isinstance(node, ast.Subscript) and not isinstance(
                    node.slice, ast.Slice):
                site(node.value, node.slice, node, "indexed")
            elif isinstance(node, ast.Compare) and len(node.ops) == 1 and \
                    isinstance(node.ops[0], (ast.In, ast.NotIn)):
                site(node.comparators[0], node.left, node, "tested")
            elif isinstance(node, ast.Call) and isinstance(
                    node.func, ast.Attribute) and node.func.attr in (
                    "add", "discard", "remove", "get", "pop") and node.args:
                site(node.func.value, node.args[0], node, "updated")
            elif isinstance(node, ast.Call) and isinstance(
                    node.func, ast.Attribute) and node.func.attr in (
                    "intersection_update", "difference_update", "update",
                    "__ior__") and node.args:
                # set-with-set operations: both sides must agree
                env = env_at(node)
                ck = sk.kind_in(node.func.value, env)
                for a in node.args:
                    ak = sk.kind_in(a, env)
                    if isinstance(ck, tuple) and ck[0] == "set" and isinstance(
                            ak, tuple) and ak[0] in ("set", "map") and ak[1] \
                            and ak[1] != ck[1]:
                        n_sites += 1
                        res.bad("R-SIDE", f"{fi.short}: {norm(node, 90)}",
                                fi.loc(node),
                                f"{fi.short}: set of graph {ck[1]} combined "
                                f"with `{norm(a)}` of graph {ak[1]}")
            elif isinstance(node, ast.AugAssign) and isinstance(
                    node.op, (ast.BitOr, ast.Sub, ast.BitAnd)):
                env = env_at(node)
                ck = sk.kind_in(node.target, env)
                ak = sk.kind_in(node.value, env)
                if isinstance(ck, tuple) and ck[0] == "set" and isinstance(
                        ak, tuple) and ak[0] == "set":
                    n_sites += 1
                    inst = f"{fi.short}: {norm(node, 70)}"
                    if ak[1] != ck[1]:
                        res.bad("R-SIDE", f"{fi.short}: {norm(node, 90)}",
                                fi.loc(node), f"{fi.short}: `{norm(node)}` "
                                "mixes the two graphs", instance=inst)
                    else:
                        res.ok("R-SIDE", inst, fi.loc(node))
            elif isinstance(node, ast.Assign) and len(node.targets) == 1 and \
                    isinstance(node.targets[0], ast.Subscript):
                t = node.targets[0]
                env = env_at(node)
                ck = sk.kind_in(t.value, env)
                vk = sk.kind_in(node.value, env)
                if isinstance(ck, tuple) and ck[0] == "map" and isinstance(
                        ck[2], tuple) and ck[2][0] == "atom" and isinstance(
                        vk, tuple) and vk[0] == "atom":
                    n_sites += 1
                    inst = f"{fi.short}: {norm(node, 70)} (stored value)"
                    if vk[1] != ck[2][1]:
                        res.bad("R-SIDE", f"{fi.short}: {norm(node, 90)} value",
                                fi.loc(node), f"{fi.short}: `{norm(node)}` "
                                f"stores an atom of graph {vk[1]} where graph "
                                f"{ck[2][1]} is expected", instance=inst)
                    else:
                        res.ok("R-SIDE", inst, fi.loc(node))
    res.need("R-SIDE", n_sites, 70, "index / membership / update sites")


# ---------------------------------------------------------------------------
# A9 mirrored sides
# ---------------------------------------------------------------------------

_SWAP_WORDS = {"mapping": "inverted_mapping", "inverted_mapping": "mapping",
               "u": "v", "v": "u"}


def swap_sides(text: str) -> str:
    def repl(m):
        w = m.group(0)
        if w in _SWAP_WORDS:
            return _SWAP_WORDS[w]
        if re.search(r"[12]", w) and not w[0].isdigit():
            return re.sub(r"(?<![0-9])([12])(?![0-9])",
                          lambda d: "2" if d.group(1) == "1" else "1", w)
        return w
    return re.sub(r"[A-Za-z_][A-Za-z_0-9]*", repl, text)


def _tv(test: ast.AST, env: dict[str, bool]):
    """Three-valued evaluation of a guard under known flags (None = open)."""
    if isinstance(test, ast.Name):
        return env.get(test.id)
    if isinstance(test, ast.Constant):
        return bool(test.value)
    if isinstance(test, ast.UnaryOp) and isinstance(test.op, ast.Not):
        v = _tv(test.operand, env)
        return None if v is None else not v
    if isinstance(test, ast.BoolOp):
        vals = [_tv(v, env) for v in test.values]
        if isinstance(test.op, ast.And):
            if any(v is False for v in vals):
                return False
            return True if all(v is True for v in vals) else None
        if any(v is True for v in vals):
            return True
        return False if all(v is False for v in vals) else None
    if isinstance(test, ast.Compare) and len(test.ops) == 1 and isinstance(
            test.left, ast.Name) and test.left.id in env and isinstance(
            test.comparators[0], ast.Constant) and isinstance(
            test.comparators[0].value, bool):
        same = env[test.left.id] == test.comparators[0].value
        if isinstance(test.ops[0], (ast.Is, ast.Eq)):
            return same
        if isinstance(test.ops[0], (ast.IsNot, ast.NotEq)):
            return not same
    return None


def guards_of(node: ast.AST) -> list[tuple[ast.AST, bool]]:
    """(test, polarity) of every enclosing ``if``: polarity False when the
    node sits in the else branch."""
    out = []
    prev = node
    for a in ancestors(node):
        if isinstance(a, ast.If) and not any(prev is x for x in [a.test]):
            in_body = any(prev is b for b in a.body)
            in_else = any(prev is b for b in a.orelse)
            if in_body or in_else:
                out.append((a.test, in_body))
        if isinstance(a, ast.FunctionDef):
            break
        prev = a
    return out


def full_mode_reachable(node: ast.AST) -> bool:
    """False when node only runs in subgraph mode (subgraph=True)."""
    for test, pol in guards_of(node):
        v = _tv(test, {"subgraph": False})
        if v is not None and v != pol:
            return False
    return True


def full_mode_guards(node: ast.AST) -> list[ast.AST]:
    """Guard tests that still matter when subgraph=False, as positive
    conditions (else-branch guards negated), mode-only guards dropped."""
    out = []
    for test, pol in guards_of(node):
        if _tv(test, {"subgraph": False}) is not None:
            continue
        # drop conjuncts that are decided by the mode flag
        if isinstance(test, ast.BoolOp) and isinstance(test.op, ast.And) and pol:
            keep = [v for v in test.values
                    if _tv(v, {"subgraph": False}) is None]
            test = keep[0] if len(keep) == 1 else ast.BoolOp(ast.And(), keep)
        out.append(test if pol else ast.UnaryOp(ast.Not(), test))
    return out


def leaf_texts(fi: FuncInfo, skip_subgraph: bool) -> list[tuple[str, ast.AST]]:
    out = []

    def in_subgraph_branch(node):
        prev = node
        for a in ancestors(node):
            if isinstance(a, ast.If):
                t = norm(a.test)
                if "subgraph" in t:
                    if t.startswith("not subgraph") and prev in a.body:
                        pass
                    else:
                        return True
            if isinstance(a, ast.FunctionDef):
                break
            prev = a
        return False

    for node in ast.walk(fi.node):
        if node is fi.node:
            continue
        txt = None
        if isinstance(node, (ast.Assign, ast.AugAssign, ast.AnnAssign)):
            txt = norm(node, 400)
        elif isinstance(node, ast.Expr) and isinstance(node.value, ast.Call):
            txt = norm(node, 400)
        elif isinstance(node, ast.For):
            txt = f"for {norm(node.target)} in {norm(node.iter, 300)}"
        elif isinstance(node, ast.If):
            txt = f"if {norm(node.test, 300)}"
        elif isinstance(node, ast.Return) and node.value is not None:
            txt = norm(node, 300)
        if txt is None:
            continue
        if skip_subgraph and not full_mode_reachable(node):
            continue
        out.append((txt, node))
    return out


def check_mirror(prog: Program, res: Result) -> None:
    res.rule("A9-MIRROR", "in _update_state, _revert_state, "
             "_graph_feasibility and the full-graph part of "
             "_sanity_check_and_init every statement that mentions one side "
             "has a partner that is identical after swapping the sides "
             "(1<->2, mapping<->inverted_mapping, u<->v)")
    for fname in ("_update_state", "_revert_state", "_graph_feasibility",
                  "_sanity_check_and_init"):
        fi0 = canon_iso(prog, fname) if fname in PROTOCOL_PARAMS else \
            prog.fn(f"{MOD}:{fname}")
        from .core import unroll_literal_loops
        fi = FuncInfo(fi0.qual, fi0.module, unroll_literal_loops(fi0.node),
                      fi0.cls)
        from .normalise import strip_inl
        leaves = [(strip_inl(t), n)
                  for t, n in leaf_texts(fi, skip_subgraph=True)]
        texts = [t for t, _ in leaves]
        bag = {}
        for t in texts:
            bag[t] = bag.get(t, 0) + 1
        n = 0
        for t, node in leaves:
            sw = swap_sides(t)
            if sw == t:
                continue                     # side-neutral statement
            has1 = bool(re.search(r"(?<![0-9A-Za-z])\w*1\w*", t))
            # statements mentioning both sides (comparisons of the two
            # graphs, construction of the records) are their own partner
            sides = {name_side(w) for w in re.findall(
                r"[A-Za-z_][A-Za-z_0-9]*", t)} - {None}
            if len(sides) != 1:
                continue
            n += 1
            inst = f"{fi.short}: {t[:80]}"
            if bag.get(sw, 0) >= 1:
                res.ok("A9-MIRROR", inst, fi.loc(node))
            else:
                res.bad("A9-MIRROR", f"{fi.short}: {t[:110]}", fi.loc(node),
                        f"{fi.short}: `{t[:110]}` has no mirrored partner "
                        f"`{sw[:110]}` for the other graph", instance=inst)
        res.need("A9-MIRROR", n, 2, f"one-sided statements in {fname}")


# ---------------------------------------------------------------------------
# main loop: paired state, fresh yields
# ---------------------------------------------------------------------------

# -- small propositional engine for path conditions -------------------------

class PathLogic:
    """Guards of a syntactic path as a propositional formula over opaque atoms
    (normalised text of the maximal non-boolean sub-expressions); boolean
    locals that are assigned once are read through their definition."""

    def __init__(self, booldefs: dict[str, ast.AST]):
        self.booldefs = booldefs

    def atoms(self, e: ast.AST, seen=()) -> set[str]:
        if isinstance(e, ast.BoolOp):
            return set().union(*(self.atoms(v, seen) for v in e.values))
        if isinstance(e, ast.UnaryOp) and isinstance(e.op, ast.Not):
            return self.atoms(e.operand, seen)
        if isinstance(e, ast.Name) and e.id in self.booldefs and \
                e.id not in seen:
            return self.atoms(self.booldefs[e.id], seen + (e.id,))
        if isinstance(e, ast.Constant):
            return set()
        return {self.key(e)}

    @staticmethod
    def key(e: ast.AST) -> str:
        # a != b  and  a == b share one atom (negated)
        if isinstance(e, ast.Compare) and len(e.ops) == 1 and isinstance(
                e.ops[0], (ast.NotEq, ast.NotIn, ast.IsNot)):
            return norm(_negate(e), 200)
        return norm(e, 200)

    def value(self, e: ast.AST, env: dict[str, bool], seen=()) -> bool:
        if isinstance(e, ast.BoolOp):
            vals = [self.value(v, env, seen) for v in e.values]
            return all(vals) if isinstance(e.op, ast.And) else any(vals)
        if isinstance(e, ast.UnaryOp) and isinstance(e.op, ast.Not):
            return not self.value(e.operand, env, seen)
        if isinstance(e, ast.Name) and e.id in self.booldefs and \
                e.id not in seen:
            return self.value(self.booldefs[e.id], env, seen + (e.id,))
        if isinstance(e, ast.Constant):
            return bool(e.value)
        if isinstance(e, ast.Compare) and len(e.ops) == 1 and isinstance(
                e.ops[0], (ast.NotEq, ast.NotIn, ast.IsNot)):
            return not env[self.key(e)]
        return env[self.key(e)]

    def models(self, guards: list[tuple[ast.AST, bool]]):
        """All assignments of the atoms that satisfy every guard."""
        import itertools
        names = sorted(set().union(*(self.atoms(g) for g, _ in guards))) \
            if guards else []
        if len(names) > 12:
            raise AnalysisError("path condition with more than 12 atoms")
        for bits in itertools.product((False, True), repeat=len(names)):
            env = dict(zip(names, bits))
            if all(self.value(g, env) == pol for g, pol in guards):
                yield env

    def satisfiable(self, guards) -> bool:
        return next(self.models(guards), None) is not None

    def implies(self, guards, atom: str, val: bool) -> bool | None:
        """guards |= (atom == val); None when the atom does not occur."""
        seen = False
        for env in self.models(guards):
            if atom not in env:
                return None
            seen = True
            if env[atom] != val:
                return False
        return True if seen else None


def _loop_event(st: ast.AST):
    """Event tuple of one statement of the search loop (canonical names)."""
    if isinstance(st, ast.Assign) and len(st.targets) == 1:
        t = st.targets[0]
        if isinstance(t, ast.Subscript) and norm(t.value) == "mapping":
            return ("MAP", norm(t.slice), norm(st.value))
        if isinstance(t, ast.Subscript) and norm(t.value) == "inverted_mapping":
            return ("INV", norm(t.slice), norm(st.value))
        v = st.value
        if isinstance(v, ast.Call) and call_name(v) == "mapping.pop" and v.args:
            return ("MAPPOP", norm(v.args[0]), norm(t))
        if isinstance(v, ast.Call) and call_name(v) == "inverted_mapping.pop" \
                and v.args:
            return ("INVPOP", norm(v.args[0]), norm(t))
    if isinstance(st, ast.Delete) and len(st.targets) == 1 and isinstance(
            st.targets[0], ast.Subscript):
        t = st.targets[0]
        if norm(t.value) == "mapping":
            return ("MAPPOP", norm(t.slice), None)
        if norm(t.value) == "inverted_mapping":
            return ("INVPOP", norm(t.slice), None)
    if isinstance(st, ast.Expr):
        v = st.value
        if isinstance(v, (ast.Yield, ast.YieldFrom)):
            return ("YIELD", norm(v.value) if v.value is not None else "")
        if isinstance(v, ast.Call):
            cn = call_name(v)
            args = [norm(a_) for a_ in v.args]
            if cn == "mapping.pop" and v.args:
                return ("MAPPOP", args[0], None)
            if cn == "inverted_mapping.pop" and v.args:
                return ("INVPOP", args[0], None)
            if cn == "_update_state":
                return ("UPDATE",) + tuple(args[:2])
            if cn == "_revert_state":
                return ("REVERT",) + tuple(args[:2])
            if cn == "stack.append":
                return ("PUSH",)
            if cn == "stack.pop":
                return ("STACKPOP",)
    if isinstance(st, ast.Continue):
        return ("CONTINUE",)
    if isinstance(st, (ast.Break, ast.Return)):
        return ("EXIT",)
    return None


def _loop_paths(stmts, events=(), guards=()):
    """(events, guards, ended) for every syntactic path through stmts."""
    if not stmts:
        yield events, guards, False
        return
    st, rest = stmts[0], stmts[1:]
    if isinstance(st, ast.If):
        for branch, pol in ((st.body, True), (st.orelse, False)):
            for ev, gd, done in _loop_paths(list(branch), events,
                                            guards + ((st.test, pol),)):
                if done:
                    yield ev, gd, True
                else:
                    yield from _loop_paths(rest, ev, gd)
        return
    ev = _loop_event(st)
    if ev and ev[0] in ("CONTINUE", "EXIT"):
        yield events + (ev,), guards, True
        return
    yield from _loop_paths(rest, events + ((ev,) if ev else ()), guards)


def _show(ev) -> str:
    out = []
    for e in ev:
        if e[0] in ("MAP", "INV"):
            out.append(f"{e[0]}[{e[1]}]={e[2]}")
        elif e[0] in ("MAPPOP", "INVPOP"):
            out.append(f"{e[0]}({e[1]})" + (f"->{e[2]}" if e[2] else ""))
        elif e[0] in ("UPDATE", "REVERT"):
            out.append(f"{e[0]}({', '.join(e[1:])})")
        else:
            out.append(e[0])
    return " > ".join(out)


def canon_search_function(prog: Program, fi: FuncInfo) -> FuncInfo:
    """vf2pp_all_isomorphisms with `state.mapping` / `state.inverted_mapping`
    and their plain local aliases written as bare names."""
    from .core import clone, set_parents
    fn = clone(fi.node)
    fields = record_fields(prog)["_State"]
    # the state record: third argument of the state update calls
    state_names = {norm(c.args[2]) for c in ast.walk(fn)
                   if isinstance(c, ast.Call) and call_name(c) in (
                       "_update_state", "_revert_state", "update_state",
                       "revert_state") and len(c.args) >= 3
                   and isinstance(c.args[2], ast.Name)}
    state_name = state_names.pop() if len(state_names) == 1 else "state"

    class T(ast.NodeTransformer):
        def visit_Attribute(self, node):
            self.generic_visit(node)
            if isinstance(node.value, ast.Name) and \
                    node.value.id == state_name and node.attr in fields:
                return ast.copy_location(ast.Name(node.attr, node.ctx), node)
            return node

    fn = T().visit(fn)

    def strip(stmts):
        out = []
        for st in stmts:
            for f in ("body", "orelse", "finalbody"):
                sub = getattr(st, f, None)
                if isinstance(sub, list) and sub and isinstance(
                        sub[0], ast.stmt):
                    setattr(st, f, strip(sub) or [ast.Pass()])
            if isinstance(st, ast.Assign) and len(st.targets) == 1 and \
                    isinstance(st.targets[0], ast.Name) and isinstance(
                    st.value, ast.Name) and st.targets[0].id == st.value.id:
                continue        # mapping = mapping  (was: = state.mapping)
            out.append(st)
        return out

    fn.body = strip(fn.body)
    # plain aliases `m = mapping` (bound once) are read as the field itself
    stores: dict[str, int] = {}
    for n in ast.walk(fn):
        if isinstance(n, ast.Name) and isinstance(n.ctx, ast.Store):
            stores[n.id] = stores.get(n.id, 0) + 1
    table = {}
    for n in ast.walk(fn):
        if isinstance(n, ast.Assign) and len(n.targets) == 1 and isinstance(
                n.targets[0], ast.Name) and isinstance(n.value, ast.Name) and \
                n.value.id in fields and stores.get(n.targets[0].id) == 1 and \
                n.targets[0].id not in fields:
            table[n.targets[0].id] = n.value.id
    # the combined predicate and the stack under their role names
    for n in ast.walk(fn):
        if isinstance(n, ast.Assign) and len(n.targets) == 1 and isinstance(
                n.targets[0], ast.Name) and isinstance(
                n.value, ast.Call) and call_name(n.value) == "_wrap_all" and \
                stores.get(n.targets[0].id) == 1:
            table[n.targets[0].id] = "feasibility"
        if isinstance(n, ast.While) and isinstance(n.test, ast.Name) and \
                stores.get(n.test.id, 0) <= 1:
            table[n.test.id] = "stack"
    for n in ast.walk(fn):
        if isinstance(n, ast.Name) and n.id in table:
            n.id = table[n.id]
    fn.body = strip(fn.body)
    ast.fix_missing_locations(fn)
    set_parents(fn)
    return FuncInfo(fi.qual, fi.module, fn, fi.cls)


def check_main_loop(prog: Program, res: Result) -> None:
    res.rule("R-PAIRED-STATE", "in the search loop every mutation of "
             "`mapping` is immediately paired with the mirrored mutation of "
             "`inverted_mapping`, and from the insertion of a candidate pair "
             "every feasible path to the loop head takes exactly one of: undo "
             "the pair (only when feasibility() is false) / yield and undo "
             "the pair / update_state and push the next level (both only when "
             "feasibility() holds for the inserted pair); backtracking pops "
             "the stack, undoes the previous pair and reverts the state")
    res.rule("R-YIELD-FRESH", "the yielded mapping is a fresh copy of the "
             "search state, never the live dictionary")
    fi0 = prog.fn(f"{MOD}:vf2pp_all_isomorphisms")
    # `mapping` / `inverted_mapping` may only be the record's dictionaries
    fi = canon_search_function(prog, fi0)
    for nm in ("mapping", "inverted_mapping"):
        defs = [n for n in ast.walk(fi.node) if isinstance(n, ast.Assign)
                and any(norm(t) == nm for t in n.targets)]
        odd = [d for d in defs if norm(d.value) != nm]
        inst = f"{fi0.short}: {nm} aliases state.{nm}"
        if odd:
            res.bad("R-PAIRED-STATE", f"{fi0.short}: alias {nm}",
                    fi0.loc(odd[0]),
                    f"`{nm}` is bound to `{norm(odd[0].value, 60)}`, not to "
                    f"the `state.{nm}` the feasibility functions read",
                    instance=inst)
        else:
            res.ok("R-PAIRED-STATE", inst, fi0.loc())
    fi = canon_search_function(prog, fi0)
    loops = [n for n in ast.walk(fi.node) if isinstance(n, ast.While)]
    if not loops:
        raise AnalysisError("vf2pp_all_isomorphisms: search loop vanished")
    loop = loops[0]
    # boolean locals of the loop body that are assigned once
    stores: dict[str, list[ast.AST]] = {}
    for n in ast.walk(loop):
        if isinstance(n, ast.Assign) and len(n.targets) == 1 and isinstance(
                n.targets[0], ast.Name):
            stores.setdefault(n.targets[0].id, []).append(n.value)
    booldefs = {k: v[0] for k, v in stores.items() if len(v) == 1 and (
        isinstance(v[0], (ast.BoolOp, ast.Compare)) or (
            isinstance(v[0], ast.UnaryOp) and isinstance(v[0].op, ast.Not))
        or (isinstance(v[0], ast.Call) and call_name(v[0]) in (
            "feasibility",)))}
    logic = PathLogic(booldefs)
    FEAS = None
    feas_args = None
    for n in ast.walk(loop):
        if isinstance(n, ast.Call) and call_name(n) == "feasibility":
            FEAS = logic.key(n)
            feas_args = [norm(a_) for a_ in n.args[:2]]
    if FEAS is None:
        res.unrecognised("R-PAIRED-STATE",
                         f"{fi.short}: yield and descent are guarded by "
                         "feasibility()", fi.loc(loop),
                         "no call feasibility(u, v, state, params) in the loop")
    n_paths = 0
    for ev, guards, _ in _loop_paths(list(loop.body)):
        guards = list(guards)
        try:
            if not logic.satisfiable(guards):
                continue
        except AnalysisError as e:
            res.unrecognised("R-PAIRED-STATE", f"{fi.short}: path condition",
                             fi.loc(loop), str(e))
            continue
        n_paths += 1
        gtxt = " ; ".join(("" if pol else "not ") + norm(g, 50)
                          for g, pol in guards)
        inst = f"{fi.short} path: " + _show(ev)[:140]
        ok, why = _path_verdict(ev, guards, logic, FEAS, feas_args)
        if ok:
            res.ok("R-PAIRED-STATE", inst, fi.loc(loop))
        else:
            res.bad("R-PAIRED-STATE", f"{fi.short} path " + _show(ev)[:160],
                    fi.loc(loop), f"{fi.short}: loop path [{gtxt[:160]}] "
                    f"performs {_show(ev)}: {why}", instance=inst)
    if n_paths < 4:
        res.unrecognised("R-PAIRED-STATE", f"{fi.short}: loop paths",
                         fi.loc(loop), f"only {n_paths} feasible paths found")
    # two empty graphs: the matching order is empty; its first element may
    # only be read after an emptiness guard (the empty mapping is the one
    # isomorphism of the empty graph)
    res.rule("R-EMPTY-ORDER", "vf2pp_all_isomorphisms reads node_order[0] only "
             "after a guard that handles an empty matching order (two graphs "
             "without atoms have exactly one isomorphism, the empty mapping)")
    orders = [n.targets[0].id if isinstance(n, ast.Assign) else n.target.id
              for n in ast.walk(fi.node)
              if isinstance(n, (ast.Assign, ast.AnnAssign))
              and isinstance(n.value, ast.Call)
              and call_name(n.value) == "_matching_order"
              and isinstance(n.targets[0] if isinstance(n, ast.Assign)
                             else n.target, ast.Name)]
    if len(orders) != 1:
        res.unrecognised("R-EMPTY-ORDER", f"{fi.short}: matching order",
                         fi.loc(), "call of _matching_order(params)")
    else:
        O = orders[0]
        firsts = [n for n in ast.walk(fi.node) if isinstance(n, ast.Subscript)
                  and norm(n.value) == O and norm(n.slice) == "0"]
        guard = None
        for st in fi.node.body:
            if isinstance(st, ast.If) and norm(st.test) in (
                    f"not {O}", f"len({O}) == 0", f"{O} == []",
                    f"termination_length == 0", f"len(g1) == 0",
                    f"not g1.atoms", f"g1.n_atoms == 0") and st.body and \
                    isinstance(st.body[-1], ast.Return):
                guard = st
        inst = f"{fi.short}: {O}[0] is read under an emptiness guard"
        if not firsts:
            res.ok("R-EMPTY-ORDER", inst, fi.loc(), "never indexed with 0")
        elif guard is not None and all(guard.lineno < f.lineno for f in firsts):
            yields = [y for y in ast.walk(guard) if isinstance(y, ast.Yield)]
            if yields:
                res.ok("R-EMPTY-ORDER", inst, fi.loc(guard))
            else:
                res.bad("R-EMPTY-ORDER", f"{fi.short}: empty graphs yield nothing",
                        fi.loc(guard), f"{inst}: the guard returns without "
                        "yielding the empty mapping, so the empty graph has "
                        "no automorphism", instance=inst)
        else:
            res.bad("R-EMPTY-ORDER", f"{fi.short}: {O}[0] unguarded",
                    fi.loc(firsts[0]), f"{inst}: `{norm(firsts[0])}` raises "
                    "IndexError for two graphs without atoms (reachable "
                    "through vf2pp_all_isomorphisms(G(), G()) and "
                    "topological_symmetry_number(G()))", instance=inst)
    # yields
    ys = [n for n in ast.walk(fi.node) if isinstance(n, ast.Yield)]
    if not ys:
        raise AnalysisError("vf2pp_all_isomorphisms: no yield")
    for y in ys:
        t = norm(y.value)
        inst = f"{fi.short}: yield {t}"
        if t in ("{}", "dict()"):
            res.ok("R-YIELD-FRESH", inst, fi.loc(y))
            continue
        if t in ("mapping.copy()", "dict(mapping)", "{**mapping}",
                 "dict(mapping.items())", "copy(mapping)",
                 "copy.copy(mapping)"):
            res.ok("R-YIELD-FRESH", inst, fi.loc(y))
        elif t in ("mapping", "inverted_mapping"):
            res.bad("R-YIELD-FRESH", inst, fi.loc(y),
                    f"{fi.short} yields the live search state `{t}`; the "
                    "caller's mapping changes while the search continues")
        else:
            res.error(f"R-YIELD-FRESH: unrecognised yield `{t}`")


def _path_verdict(ev, guards, logic: PathLogic, FEAS, feas_args):
    kinds = [e[0] for e in ev]
    # backtracking paths
    if kinds and kinds[0] == "STACKPOP":
        if kinds == ["STACKPOP", "CONTINUE"] or kinds == ["STACKPOP"]:
            return True, ""
        if kinds in (["STACKPOP", "MAPPOP", "INVPOP", "REVERT", "CONTINUE"],
                     ["STACKPOP", "MAPPOP", "INVPOP", "REVERT"]):
            mp, ip, rv = ev[1], ev[2], ev[3]
            if mp[2] and ip[1] == mp[2] and rv[1:] == (mp[1], mp[2]):
                return True, ""
        return False, ("backtracking must pop the stack, undo the previous "
                       "pair in both dictionaries and revert the state with "
                       "that pair")
    if len(ev) < 2 or kinds[0] != "MAP" or kinds[1] != "INV":
        if not any(k in ("MAP", "INV", "MAPPOP", "INVPOP", "YIELD", "UPDATE",
                         "PUSH") for k in kinds):
            return True, ""           # path that does not touch the state
        return False, ("the candidate pair must be inserted into mapping and "
                       "inverted_mapping back to back")
    a, b = ev[0][1], ev[0][2]
    if (ev[1][1], ev[1][2]) != (b, a):
        return False, "inverted_mapping does not receive the mirrored pair"
    tail = [e for e in ev[2:] if e[0] != "CONTINUE"]
    tk = [e[0] for e in tail]

    def undo_ok(x, y):
        return x[0] == "MAPPOP" and x[1] == a and y[0] == "INVPOP" and \
            y[1] == b

    def entails(val):
        if FEAS is None:
            return None
        return logic.implies(guards, FEAS, val)

    if feas_args is not None and feas_args != [a, b]:
        return False, (f"feasibility is asked about ({', '.join(feas_args)}) "
                       f"but the inserted pair is ({a}, {b})")
    if tk == ["MAPPOP", "INVPOP"] and undo_ok(*tail):
        if entails(False) is False:
            return False, ("a pair for which feasibility() may hold is "
                           "dropped without yielding or descending: valid "
                           "mappings are lost")
        return True, ""
    if tk == ["YIELD", "MAPPOP", "INVPOP"] and undo_ok(*tail[1:]):
        if entails(True) is False:
            return False, ("a mapping is yielded on a path that does not "
                           "require feasibility() to hold")
        return True, ""
    if tk == ["UPDATE", "PUSH"]:
        if tail[0][1:] != (a, b):
            return False, (f"update_state is called with "
                           f"({', '.join(tail[0][1:])}), not the inserted "
                           f"pair ({a}, {b})")
        if entails(True) is False:
            return False, ("the search descends below a pair on a path that "
                           "does not require feasibility() to hold")
        return True, ""
    return False, ("after inserting the pair the path must either undo it in "
                   "both dictionaries, yield and undo it, or update_state and "
                   "push the next level")


# ---------------------------------------------------------------------------
# candidates
# ---------------------------------------------------------------------------

def check_candidates(prog: Program, res: Result) -> None:
    res.rule("R-CAND-FRESH", "_find_candidates returns a freshly built set "
             "on every path (the main loop pops from it destructively)")
    res.rule("R-CAND-SOUND", "candidates = intersection of the g2 neighbour "
             "sets of the images of ALL covered neighbours (seed [0], loop "
             "over [1:]), intersected with the label class and the degree "
             "class of u, minus the atoms already used; label / degree / "
             "neighbour sets are only intersected, used atoms only "
             "subtracted")
    fi = canon_iso(prog, "_find_candidates")
    rets = [n for n in ast.walk(fi.node) if isinstance(n, ast.Return)]
    if len(rets) < 1:
        raise AnalysisError("_find_candidates: no return")
    def freshness(e, depth=0):
        """'fresh' | 'alias' | 'unknown' for the set an expression denotes."""
        if depth > 8:
            return "unknown"
        if isinstance(e, ast.Constant) and e.value is None:
            return "fresh"                      # no set at all on this arm
        if isinstance(e, (ast.SetComp, ast.BinOp, ast.Set)):
            return "fresh"
        if isinstance(e, ast.Call):
            cn = call_name(e) or ""
            if cn in ("set", "frozenset") and len(e.args) <= 1:
                return "fresh"
            if isinstance(e.func, ast.Attribute) and e.func.attr in (
                    "copy", "intersection", "difference", "union",
                    "symmetric_difference"):
                return "fresh"
            return "unknown"
        if isinstance(e, ast.IfExp):
            ks = {freshness(e.body, depth + 1), freshness(e.orelse, depth + 1)}
            return "alias" if "alias" in ks else (
                "unknown" if "unknown" in ks else "fresh")
        if isinstance(e, (ast.Subscript, ast.Attribute)):
            return "alias"                      # an element of a table
        if isinstance(e, ast.Name):
            if e.id in fi.params():
                return "alias"
            defs = [n for n in ast.walk(fi.node) if isinstance(n, ast.Assign)
                    and any(norm(t) == e.id for t in n.targets)]
            if not defs:
                return "unknown"
            ks = {freshness(d.value, depth + 1) for d in defs}
            return "alias" if "alias" in ks else (
                "unknown" if "unknown" in ks else "fresh")
        return "unknown"
    for r in rets:
        v = r.value
        inst = f"{fi.short}: return {norm(v)}"
        k = freshness(v)
        if k == "fresh":
            res.ok("R-CAND-FRESH", inst, fi.loc(r))
        elif k == "unknown":
            res.unrecognised("R-CAND-FRESH", inst, fi.loc(r),
                             f"where the returned set `{norm(v)}` is built "
                             "is not followed")
        else:
            res.bad("R-CAND-FRESH", inst, fi.loc(r),
                    f"{fi.short} returns `{norm(v)}` which may alias a "
                    "parameter table or a neighbour set of the graph; the "
                    "search loop pops candidates from it")
    # sound filters ----------------------------------------------------------
    src = fi.node
    u = fi.params()[0]
    label_cls = f"nodes_of_g2Labels[g1_labels[{u}]]"
    # resolve local names of the unpacked tables
    fields = record_fields(prog)
    sk = SideKinds(prog, fi, fields)
    calls = [n for n in ast.walk(src) if isinstance(n, ast.Call)
             and isinstance(n.func, ast.Attribute)
             and isinstance(n.func.value, ast.Name)]
    cand_vars = {norm(r.value) for r in rets if isinstance(r.value, ast.Name)}
    bad = False
    n_inter = n_diff = 0
    for c in calls:
        if c.func.value.id not in cand_vars:
            continue
        m = c.func.attr
        args = [norm(a) for a in c.args]
        inst = f"{fi.short}: {norm(c, 100)}"
        if m in ("update", "union", "add", "symmetric_difference_update"):
            res.bad("R-CAND-SOUND", inst, fi.loc(c),
                    f"{fi.short}: `{norm(c, 100)}` enlarges the candidate set")
            bad = True
        elif m == "difference_update":
            n_diff += 1
            if args != ["inverted_mapping"]:
                res.bad("R-CAND-SOUND", inst, fi.loc(c),
                        f"{fi.short}: only the atoms already used "
                        "(inverted_mapping) may be subtracted, found "
                        f"`{norm(c, 100)}`")
                bad = True
            else:
                res.ok("R-CAND-SOUND", inst, fi.loc(c))
        elif m == "intersection_update":
            n_inter += 1
            for a_node, a in zip(c.args, args):
                k = sk.kind(a_node)
                if a == "inverted_mapping" or (isinstance(k, tuple) and k[0] in (
                        "set", "map") and k[1] == 1):
                    res.bad("R-CAND-SOUND", inst, fi.loc(c),
                            f"{fi.short}: `{norm(c, 100)}` intersects the "
                            "candidates with a graph-1 / used-atom set")
                    bad = True
            if not bad:
                res.ok("R-CAND-SOUND", inst, fi.loc(c))
    # structure of the branches: evaluated per syntactic path on the canonical
    # form (record fields under their own names, however they were read)
    _check_candidate_paths(res, fi)


def canon_records(prog: Program, fi: FuncInfo,
                  fields: dict[str, list[str]] | None = None) -> FuncInfo:
    """Clone of fi in which every way of reading a field of the _Parameters /
    _State records -- positional unpacking (with ``*_``), attribute access,
    alias assignment -- is replaced by a bare name equal to the field name."""
    from .core import clone, set_parents
    fields = fields or record_fields(prog)
    fn = clone(fi.node)
    recs: dict[str, list[str]] = {}
    a = fn.args
    for arg in a.posonlyargs + a.args + a.kwonlyargs:
        ann = norm(arg.annotation) if arg.annotation is not None else ""
        for cname, fl in fields.items():
            if ann.strip("'\"") == cname or (not ann and arg.arg == {
                    "_Parameters": "params", "_State": "state"}[cname]):
                recs[arg.arg] = fl
    rename: dict[str, str] = {}

    def field_of(e):
        if isinstance(e, ast.Attribute) and isinstance(e.value, ast.Name) and \
                e.value.id in recs and e.attr in recs[e.value.id]:
            return e.attr
        return None

    def strip(stmts):
        out = []
        for st in stmts:
            for f in ("body", "orelse", "finalbody"):
                sub = getattr(st, f, None)
                if isinstance(sub, list) and sub and isinstance(
                        sub[0], ast.stmt):
                    setattr(st, f, strip(sub) or [ast.Pass()])
            if isinstance(st, ast.Assign) and len(st.targets) == 1:
                t, v = st.targets[0], st.value
                if isinstance(t, (ast.Tuple, ast.List)) and isinstance(
                        v, ast.Name) and v.id in recs:
                    fl = recs[v.id]
                    elts = t.elts
                    star = [i for i, e in enumerate(elts)
                            if isinstance(e, ast.Starred)]
                    pos = {}
                    if not star:
                        pos = dict(enumerate(range(len(elts))))
                    elif len(star) == 1:
                        k = star[0]
                        for i in range(k):
                            pos[i] = i
                        for j in range(1, len(elts) - k):
                            pos[len(elts) - j] = len(fl) - j
                    ok = True
                    for i, fidx in pos.items():
                        e = elts[i]
                        if isinstance(e, ast.Name) and 0 <= fidx < len(fl):
                            if e.id != "_":
                                rename[e.id] = fl[fidx]
                        else:
                            ok = False
                    if ok and pos:
                        continue
                f1 = field_of(v)
                if isinstance(t, ast.Name) and f1:
                    rename[t.id] = f1
                    continue
                if isinstance(t, ast.Tuple) and isinstance(v, ast.Tuple) and \
                        len(t.elts) == len(v.elts) and all(
                        isinstance(x, ast.Name) for x in t.elts) and all(
                        field_of(x) for x in v.elts):
                    for x, y in zip(t.elts, v.elts):
                        rename[x.id] = field_of(y)
                    continue
            out.append(st)
        return out

    fn.body = strip(fn.body)

    class T(ast.NodeTransformer):
        def visit_Attribute(self, node):
            f1 = field_of(node)
            if f1:
                return ast.copy_location(ast.Name(f1, node.ctx), node)
            self.generic_visit(node)
            return node

        def visit_Name(self, node):
            if node.id in rename:
                return ast.copy_location(
                    ast.Name(rename[node.id], node.ctx), node)
            return node

    fn = T().visit(fn)
    ast.fix_missing_locations(fn)
    set_parents(fn)
    return FuncInfo(fi.qual, fi.module, fn, fi.cls)


BOOL_CALLS = {"all", "any", "isinstance", "issubclass", "callable", "bool",
              "hasattr"}
BOOL_METHODS = {"issubset", "issuperset", "isdisjoint", "startswith",
                "endswith", "has_atom", "has_bond"}


def _boolish(e: ast.AST) -> bool:
    """e evaluates to a bool by construction."""
    if isinstance(e, ast.Compare):
        return True
    if isinstance(e, ast.UnaryOp) and isinstance(e.op, ast.Not):
        return True
    if isinstance(e, ast.BoolOp):
        return all(_boolish(v) for v in e.values)
    if isinstance(e, ast.Call):
        cn = call_name(e) or ""
        if cn in BOOL_CALLS:
            return True
        if isinstance(e.func, ast.Attribute) and e.func.attr in BOOL_METHODS:
            return True
    return False


def _negate(e: ast.AST) -> ast.AST:
    neg = {ast.Eq: ast.NotEq, ast.NotEq: ast.Eq, ast.In: ast.NotIn,
           ast.NotIn: ast.In, ast.Is: ast.IsNot, ast.IsNot: ast.Is,
           ast.Lt: ast.GtE, ast.GtE: ast.Lt, ast.Gt: ast.LtE, ast.LtE: ast.Gt}
    if isinstance(e, ast.UnaryOp) and isinstance(e.op, ast.Not):
        return e.operand
    if isinstance(e, ast.Compare) and len(e.ops) == 1 and type(e.ops[0]) in (
            ast.Eq, ast.NotEq, ast.In, ast.NotIn, ast.Is, ast.IsNot):
        return ast.copy_location(ast.Compare(
            e.left, [neg[type(e.ops[0])]()], e.comparators), e)
    return ast.copy_location(ast.UnaryOp(ast.Not(), e), e)


def _is_bool_const(e, val=None) -> bool:
    return isinstance(e, ast.Constant) and isinstance(e.value, bool) and (
        val is None or e.value is val)


def explicit_bool_returns(fn: ast.FunctionDef) -> None:
    """In place: ``return <boolean expression>`` -> ``if c: return True`` /
    ``return False``; a tail ``if c: return False`` / ``return True`` is
    turned round so that the test is the acceptance condition."""

    def walk(stmts):
        out = []
        for st in stmts:
            for f in ("body", "orelse", "finalbody"):
                sub = getattr(st, f, None)
                if isinstance(sub, list) and sub and isinstance(
                        sub[0], ast.stmt):
                    setattr(st, f, walk(sub))
            for h in getattr(st, "handlers", []) or []:
                h.body = walk(h.body)
            if isinstance(st, ast.Return) and st.value is not None and \
                    _boolish(st.value):
                t = ast.copy_location(ast.If(
                    test=st.value,
                    body=[ast.copy_location(ast.Return(ast.Constant(True)),
                                            st)],
                    orelse=[]), st)
                out.append(t)
                out.append(ast.copy_location(
                    ast.Return(ast.Constant(False)), st))
                continue
            # if c: return K1 else: return K2  ->  if c: return K1; return K2
            if isinstance(st, ast.If) and len(st.body) == 1 and len(
                    st.orelse) == 1 and all(
                    isinstance(x, ast.Return) and _is_bool_const(x.value)
                    for x in (st.body[0], st.orelse[0])):
                tail = st.orelse[0]
                st.orelse = []
                out.append(st)
                out.append(tail)
                continue
            out.append(st)
        # polarity of a tail pair
        if len(out) >= 2:
            a, b = out[-2], out[-1]
            if isinstance(a, ast.If) and not a.orelse and len(a.body) == 1 \
                    and isinstance(a.body[0], ast.Return) and _is_bool_const(
                    a.body[0].value, False) and isinstance(b, ast.Return) \
                    and _is_bool_const(b.value, True):
                a.test = _negate(a.test)
                a.body[0].value = ast.Constant(True)
                b.value = ast.Constant(False)
        return out

    fn.body = walk(fn.body)
    ast.fix_missing_locations(fn)
    from .core import set_parents
    set_parents(fn)


def canon_predicate(prog: Program, fi: FuncInfo,
                    fields: dict[str, list[str]] | None = None) -> FuncInfo:
    """canon_records + explicit boolean returns."""
    c = canon_records(prog, fi, fields)
    explicit_bool_returns(c.node)
    return c


def rename_locals(fi: FuncInfo, table: dict[str, str]) -> FuncInfo:
    """Clone of fi with local names replaced (role based canonical names, so
    that the text patterns of a rule do not depend on what a maintainer
    called a variable)."""
    from .core import clone, set_parents
    table = {k: v for k, v in table.items() if k and k != v}
    if not table:
        return fi
    fn = clone(fi.node)
    for n in ast.walk(fn):
        if isinstance(n, ast.Name) and n.id in table:
            n.id = table[n.id]
        elif isinstance(n, ast.arg) and n.arg in table:
            n.arg = table[n.arg]
    set_parents(fn)
    return FuncInfo(fi.qual, fi.module, fn, fi.cls)


PROTOCOL_PARAMS = {
    "_update_state": ("new_atom1", "new_atom2", "state", "params"),
    "_revert_state": ("last_atom1", "last_atom2", "state", "params"),
    "_graph_feasibility": ("u", "v", "state", "params"),
    "_stereo_feasibility": ("u", "v", "state", "params"),
    "_stereo_change_feasibility": ("u", "v", "state", "params"),
    "_bond_change_feasibility": ("u", "v", "state", "params"),
    "_find_candidates": ("u", "state", "params"),
}


def canon_iso(prog: Program, fname: str, predicate: bool = False) -> FuncInfo:
    """The VF2++ helper `fname` with its parameters under the protocol names
    and every read of the state / parameter records under the field name."""
    fi = prog.fn(f"{MOD}:{fname}")
    want = PROTOCOL_PARAMS.get(fname)
    if want and len(fi.params()) == len(want):
        used = {n.id for n in ast.walk(fi.node) if isinstance(n, ast.Name)}
        table = {p: w for p, w in zip(fi.params(), want)
                 if p != w and w not in used}
        fi = rename_locals(fi, table)
    fi = canon_records(prog, fi)
    if predicate:
        explicit_bool_returns(fi.node)
    return fi


def find_locals(fi: FuncInfo, pred) -> list[str]:
    """Locals with an assignment whose value satisfies pred(value node)."""
    out = []
    for n in ast.walk(fi.node):
        tgt = val = None
        if isinstance(n, ast.Assign) and len(n.targets) == 1 and isinstance(
                n.targets[0], ast.Name):
            tgt, val = n.targets[0].id, n.value
        elif isinstance(n, ast.AnnAssign) and isinstance(
                n.target, ast.Name) and n.value is not None:
            tgt, val = n.target.id, n.value
        if tgt and pred(val) and tgt not in out:
            out.append(tgt)
    return out


def _iterates_over(value: ast.AST, pattern: str) -> bool:
    """value is a comprehension whose first generator iterates over an
    expression matching the regular expression (on normalised text)."""
    if isinstance(value, (ast.ListComp, ast.SetComp, ast.GeneratorExp,
                          ast.DictComp)):
        return re.fullmatch(pattern, norm(value.generators[0].iter, 200)) \
            is not None
    if isinstance(value, ast.Call) and call_name(value) in (
            "list", "set", "tuple", "frozenset", "sorted") and value.args:
        return _iterates_over(value.args[0], pattern)
    return False


def canon_comp_vars(fi: FuncInfo) -> FuncInfo:
    """Comprehension variables renamed by position (c0, c1, ...) per
    comprehension, so `for s in xs` and `for d in xs` read the same."""
    from .core import clone, set_parents
    fn = clone(fi.node)
    for comp in ast.walk(fn):
        if not isinstance(comp, (ast.ListComp, ast.SetComp, ast.GeneratorExp,
                                 ast.DictComp)):
            continue
        names = []
        for g in comp.generators:
            for n in ast.walk(g.target):
                if isinstance(n, ast.Name) and n.id not in names:
                    names.append(n.id)
        table = {n: f"c{i}" for i, n in enumerate(names)
                 if not re.fullmatch(r"c\d", n)}
        if not table:
            continue
        for n in ast.walk(comp):
            if isinstance(n, ast.Name) and n.id in table:
                n.id = table[n.id]
    set_parents(fn)
    return FuncInfo(fi.qual, fi.module, fn, fi.cls)


def _alpha(e: ast.AST) -> str:
    """Text of e with comprehension variables renamed canonically."""
    from .core import clone
    e = clone(e)
    table = {}
    for c in ast.walk(e):
        if isinstance(c, ast.comprehension):
            for n in ast.walk(c.target):
                if isinstance(n, ast.Name):
                    table.setdefault(n.id, f"_v{len(table)}")
    for n in ast.walk(e):
        if isinstance(n, ast.Name) and n.id in table:
            n.id = table[n.id]
    return re.sub(r"\s", "", utext(e))


def _check_candidate_paths(res: Result, fi: FuncInfo) -> None:
    fn = fi.node
    u = fi.params()[0]
    rets = [n for n in ast.walk(fn) if isinstance(n, ast.Return)]
    cand_vars = {r.value.id for r in rets if isinstance(r.value, ast.Name)}
    LABEL = f"nodes_of_g2Labels[g1_labels[{u}]]"
    DEGREE = f"g2_nodes_of_degree[g1_degree[{u}]]"
    # locals defined once by a pure expression are read through
    single: dict[str, ast.AST] = {}
    counts: dict[str, int] = {}
    for n in ast.walk(fn):
        if isinstance(n, ast.Name) and isinstance(n.ctx, ast.Store):
            counts[n.id] = counts.get(n.id, 0) + 1
    for n in ast.walk(fn):
        if isinstance(n, ast.Assign) and len(n.targets) == 1 and isinstance(
                n.targets[0], ast.Name) and counts.get(
                n.targets[0].id) == 1 and isinstance(
                n.value, (ast.Subscript, ast.Name, ast.ListComp, ast.SetComp)):
            single[n.targets[0].id] = n.value

    # names bound by unpacking the covered neighbours: `a, *b = covered`
    derived: dict[str, str] = {}
    for n in ast.walk(fn):
        if isinstance(n, ast.Assign) and len(n.targets) == 1 and isinstance(
                n.targets[0], ast.Tuple) and len(n.targets[0].elts) == 2:
            a0, b0 = n.targets[0].elts
            if isinstance(a0, ast.Name) and isinstance(b0, ast.Starred) and \
                    isinstance(b0.value, ast.Name) and counts.get(
                    a0.id) == 1 and counts.get(b0.value.id) == 1:
                derived[a0.id] = ("unpack-first", n.value)
                derived[b0.value.id] = ("unpack-rest", n.value)

    def covered_kind(e) -> str | None:
        """'all' | 'first' | 'rest' when e denotes the covered neighbours of
        u / the first of them / the others."""
        if isinstance(e, ast.Name) and e.id in derived:
            which, src = derived[e.id]
            base = covered_kind(src)
            if base in ("all", "H:all"):
                pre = "H:" if base.startswith("H:") else ""
                return pre + which.split("-")[1]
            return None
        if isinstance(e, ast.Name) and e.id in single:
            return covered_kind(single[e.id])
        if isinstance(e, (ast.ListComp, ast.SetComp, ast.GeneratorExp)):
            t = _alpha(e)
            # the neighbourhoods (in g2) of the images of the covered
            # neighbours, as a list: kinds carry the prefix "H:"
            if isinstance(e, ast.ListComp) and t == \
                    f"[g2_nbrhd[mapping[_v0]]for_v0ing1_nbrhd[{u}]" \
                    "if_v0inmapping]":
                return "H:all"
            if t in (f"[_v0for_v0ing1_nbrhd[{u}]if_v0inmapping]",
                     f"{{_v0for_v0ing1_nbrhd[{u}]if_v0inmapping}}",
                     f"(_v0for_v0ing1_nbrhd[{u}]if_v0inmapping)"):
                return "all"
            if f"g1_nbrhd[{u}]" in t:
                return "deviant"
            return None
        if isinstance(e, ast.Call) and call_name(e) in ("min", "max", "next") \
                and e.args:
            a0 = e.args[0]
            if isinstance(a0, ast.Call) and call_name(a0) == "iter" and a0.args:
                a0 = a0.args[0]
            if covered_kind(a0) == "all":
                return "some"
        if isinstance(e, ast.Subscript):
            base = covered_kind(e.value)
            pre = "H:" if base and base.startswith("H:") else ""
            if base in ("all", "H:all"):
                sl = norm(e.slice)
                if sl == "0":
                    return pre + "first"
                if sl == "1:":
                    return pre + "rest"
                if not isinstance(e.slice, ast.Slice):
                    return pre + "some"           # one unspecified element
                return pre + "deviant-slice"
            if base in ("rest", "H:rest", "first", "H:first", "some",
                        "H:some"):
                # a part of a part
                return pre + "deviant-slice"
            return base if base and "deviant" in base else None
        return None

    def classify(e, loopvars) -> str:
        t = re.sub(r"\s", "", norm(e, 400))
        if t == LABEL:
            return "LABEL"
        if t == DEGREE:
            return "DEGREE"
        if t == "external2":
            return "EXT"
        if t == "inverted_mapping":
            return "USED"
        if isinstance(e, ast.Name) and str(loopvars.get(e.id, "")
                                           ).startswith("H:"):
            return "NBR:" + loopvars[e.id][2:]
        hk = covered_kind(e)
        if hk and hk.startswith("H:") and hk != "H:all" and \
                "rest" not in hk:
            return "NBR:" + hk[2:]
        if isinstance(e, ast.Name) and e.id in single:
            return classify(single[e.id], loopvars)
        m = re.fullmatch(r"g2_nbrhd\[mapping\[(.+)\]\]", t)
        if m and isinstance(e, ast.Subscript) and isinstance(
                e.slice, ast.Subscript):
            x = e.slice.slice
            if isinstance(x, ast.Name) and x.id in loopvars:
                return "NBR:" + loopvars[x.id]
            k = covered_kind(x)
            if k:
                return "NBR:" + k
        return "?" + t[:60]

    # path enumeration ------------------------------------------------------
    def walk(stmts, events, guards, loopvars):
        """yields (events, guards) for every path that reaches a return."""
        if not stmts:
            yield None
            return
        st, rest = stmts[0], stmts[1:]
        if isinstance(st, ast.Return):
            yield (list(events), list(guards), st)
            return
        if isinstance(st, ast.If):
            t = norm(st.test)
            for branch, pol in ((st.body, True), (st.orelse, False)):
                ev, gd = list(events), guards + [(t, pol)]
                fell = False
                for r in walk(list(branch), ev, gd, loopvars):
                    if r is None:
                        fell = True
                    else:
                        yield r
                if fell or not branch:
                    yield from walk(rest, ev, gd, loopvars)
            return
        if isinstance(st, ast.For):
            lv = dict(loopvars)
            if isinstance(st.target, ast.Name):
                lv[st.target.id] = covered_kind(st.iter) or (
                    "?" + norm(st.iter, 40))
            n_ev = len(events)
            for b in st.body:
                record(b, events, lv, in_loop=True)
            if any(e[0] == "inter" for e in events[n_ev:]):
                _early_exits(st)
            yield from walk(rest, events, guards, loopvars)
            return
        record(st, events, loopvars, in_loop=False)
        yield from walk(rest, events, guards, loopvars)

    def _early_exits(loop):
        """A loop that intersects the candidates per covered neighbour may
        be left early only once the candidates are empty (an intersection of
        the empty set stays empty); leaving it with candidates left skips
        the adjacency test against the remaining covered neighbours."""
        EMPTY = set()
        for c in cand_vars:
            EMPTY |= {f"not {c}", f"len({c}) == 0", f"len({c}) < 1",
                      f"{c} == set()", f"0 == len({c})"}
        def visit(stmts, tests):
            for s in stmts:
                if isinstance(s, (ast.Break, ast.Continue, ast.Return)):
                    inst = (f"{fi.short}: early exit of the loop over "
                            f"`{norm(loop.iter, 40)}`")
                    if tests and tests[-1] in EMPTY:
                        res.ok("R-CAND-SOUND", inst, fi.loc(s))
                    elif tests and re.fullmatch(
                            r"len\((\w+)\) (< ([2-9]|\d\d+)|<= ([1-9]\d*)|"
                            r"== ([1-9]\d*))", tests[-1]) and re.match(
                            r"len\((\w+)\)", tests[-1]).group(1) in cand_vars:
                        res.bad("R-CAND-SOUND", inst, fi.loc(s),
                                f"{fi.short}: the loop that intersects the "
                                "candidates with the neighbour sets of the "
                                f"covered neighbours' images is left when "
                                f"`{tests[-1]}`: the remaining candidates are "
                                "not tested for adjacency to the images of "
                                "the other covered neighbours")
                    else:
                        res.unrecognised(
                            "R-CAND-SOUND", inst, fi.loc(s),
                            "early exit of the intersection loop under "
                            f"`{tests[-1] if tests else 'no guard'}`")
                elif isinstance(s, ast.If):
                    visit(s.body, tests + [norm(s.test, 80)])
                    visit(s.orelse, tests + ["<else>"])
                elif isinstance(s, (ast.For, ast.While)):
                    continue        # exits of an inner loop stay inside it
                elif isinstance(s, (ast.With, ast.Try)):
                    visit(s.body, tests + ["<block>"])
        visit(loop.body, [])

    def record(st, events, loopvars, in_loop):
        if isinstance(st, ast.Assign) and len(st.targets) == 1 and isinstance(
                st.targets[0], ast.Name) and st.targets[0].id in cand_vars:
            v = st.value
            # loop variables that were re-bound by a plain assignment
            if isinstance(v, ast.Call) and call_name(v) in ("set", "frozenset") \
                    and len(v.args) == 1:
                events.append(("seed", classify(v.args[0], loopvars), st))
            elif isinstance(v, ast.Call) and isinstance(
                    v.func, ast.Attribute) and v.func.attr == "copy":
                events.append(("seed", classify(v.func.value, loopvars), st))
            elif isinstance(v, ast.BinOp) and isinstance(v.op, ast.BitAnd):
                events.append(("seed", classify(v.left, loopvars), st))
                events.append(("inter", classify(v.right, loopvars), st))
            else:
                events.append(("seed", "?" + norm(v, 60), st))
            return
        if isinstance(st, ast.Assign) and len(st.targets) == 1 and isinstance(
                st.targets[0], ast.Name):
            k = covered_kind(st.value)
            if k in ("first", "rest", "all", "some") and \
                    st.targets[0].id not in single:
                loopvars[st.targets[0].id] = k
            return
        if isinstance(st, ast.AugAssign) and isinstance(
                st.target, ast.Name) and st.target.id in cand_vars:
            kind = {ast.BitAnd: "inter", ast.Sub: "diff"}.get(type(st.op))
            events.append((kind or "other", classify(st.value, loopvars), st))
            return
        if isinstance(st, ast.Expr) and isinstance(st.value, ast.Call) and \
                isinstance(st.value.func, ast.Attribute) and isinstance(
                st.value.func.value, ast.Name) and \
                st.value.func.value.id in cand_vars:
            kind = {"intersection_update": "inter",
                    "difference_update": "diff"}.get(st.value.func.attr,
                                                     "other")
            for arg in st.value.args:
                events.append((kind, classify(arg, loopvars), st))
            return
        if isinstance(st, (ast.If, ast.For, ast.While)):
            for sub in ast.walk(st):
                if sub is not st and isinstance(sub, ast.stmt):
                    record(sub, events, loopvars, in_loop)

    n_paths = 0
    lv0: dict[str, str] = {}
    for r in walk(list(fn.body), [], [], lv0):
        if r is None:
            continue
        events, guards, ret = r
        if not (isinstance(ret.value, ast.Name) and ret.value.id in cand_vars):
            continue
        n_paths += 1
        kinds = [(k, c) for k, c, _ in events]
        applied = {c for k, c in kinds if k in ("seed", "inter")}
        removed = {c for k, c in kinds if k == "diff"}
        unknown = [c for k, c in kinds if c.startswith("?") or k == "other"]
        # which branch of "any neighbour of u mapped yet?"
        none_covered = None
        for t, pol in guards:
            tt = t
            for name, val in single.items():
                if covered_kind(val) in ("all", "H:all"):
                    tt = re.sub(rf"\b{name}\b", "COVERED", tt)
            if tt in ("not COVERED", "len(COVERED) == 0"):
                none_covered = pol
            elif tt in ("COVERED", "len(COVERED) > 0", "len(COVERED) != 0"):
                none_covered = not pol
        gtxt = " and ".join(("" if pol else "not ") + f"({t})"
                            for t, pol in guards) or "always"
        base = f"{fi.short} [{gtxt}]"

        def settle(ok, what, why):
            inst = f"{base}: {what}"
            if ok:
                res.ok("R-CAND-SOUND", inst, fi.loc(ret))
            elif unknown:
                res.unrecognised("R-CAND-SOUND", inst, fi.loc(ret),
                                 f"{why}; the path also applies "
                                 f"{unknown} which this rule cannot read")
            else:
                res.bad("R-CAND-SOUND", inst, fi.loc(ret),
                        f"{base}: {why}", instance=inst)

        settle("LABEL" in applied, "label class of u applied",
               f"the label class {LABEL} is not applied on this path")
        settle("DEGREE" in applied, "degree class of u applied",
               f"the degree class {DEGREE} is not applied on this path")
        settle("USED" in removed, "used atoms subtracted",
               "inverted_mapping is not subtracted on this path")
        if none_covered is True:
            continue
        nbr = {c.split(":", 1)[1] for c in applied if c.startswith("NBR:")}
        full = "all" in nbr or {"first", "rest"} <= nbr
        deviant = any(x.startswith("deviant") for x in nbr) or any(
            c.startswith("NBR:?") for c in applied)
        if none_covered is None and not nbr:
            res.unrecognised("R-CAND-SOUND", f"{base}: covered neighbours",
                             fi.loc(ret), "branch on the covered neighbours "
                             "of u not recognised")
            continue
        inst = f"{base}: all covered neighbours constrain the candidates"
        if full and not deviant:
            res.ok("R-CAND-SOUND", inst, fi.loc(ret))
        elif unknown and not deviant:
            res.unrecognised("R-CAND-SOUND", inst, fi.loc(ret),
                             f"neighbour constraints {sorted(nbr)} plus "
                             f"unread {unknown}")
        else:
            res.bad("R-CAND-SOUND", inst, fi.loc(ret),
                    f"{base}: the candidate set is not the intersection of "
                    "g2_nbrhd[mapping[n]] over ALL covered neighbours n of u "
                    f"(found constraints for: {sorted(nbr) or 'none'})",
                    instance=inst)
    res.need("R-CAND-SOUND", n_paths, 2, "return paths of _find_candidates")


# ---------------------------------------------------------------------------
# stereo feasibility
# ---------------------------------------------------------------------------

def check_feasibility(prog: Program, res: Result) -> None:
    res.rule("R-NULL-FEAS", "the stereo feasibility predicates treat the "
             "None placeholder as mapped to itself: the `all atoms mapped` "
             "filters admit None and the mapped tuple keeps None, otherwise "
             "descriptors with lone pairs are skipped on both sides")
    res.rule("R-STEREO-FEAS", "_stereo_feasibility compares the descriptors "
             "of u mapped through `mapping` with the descriptors of v (same "
             "count, each mapped descriptor found among v's); "
             "_stereo_change_feasibility compares the (role, descriptor) "
             "sets; both are registered for exactly the flags stereo / "
             "stereo_change and combined with all()")
    for fname in ("_stereo_feasibility", "_stereo_change_feasibility"):
        fi = canon_iso(prog, fname, predicate=True)
        # membership filters over stereo.atoms
        n_f = 0
        for node in ast.walk(fi.node):
            if isinstance(node, (ast.ListComp, ast.GeneratorExp, ast.SetComp)) \
                    and len(node.generators) == 1 and norm(
                    node.generators[0].iter).endswith(".atoms"):
                var = norm(node.generators[0].target)
                elt = node.elt
                et = norm(elt)
                if isinstance(elt, ast.Compare) or " in " in et:
                    n_f += 1
                    inst = f"{fi.short}: filter `{et}`"
                    if f"{var} is None" in et or any(
                            "is not None" in norm(c)
                            for c in node.generators[0].ifs):
                        res.ok("R-NULL-FEAS", inst, fi.loc(node))
                    else:
                        res.bad("R-NULL-FEAS", inst, fi.loc(node),
                                f"{fi.short}: `{et} for {var} in "
                                f"{norm(node.generators[0].iter)}` is False "
                                "for the None placeholder, so descriptors "
                                "containing a lone pair are never compared")
                elif isinstance(elt, ast.Subscript) and norm(
                        elt.value).endswith("mapping"):
                    n_f += 1
                    inst = f"{fi.short}: mapped tuple `{et}`"
                    res.bad("R-NULL-FEAS", inst, fi.loc(node),
                            f"{fi.short}: `{et}` raises / fails for the None "
                            "placeholder; use a None-preserving lookup")
                elif "mapping" in et:
                    n_f += 1
                    inst = f"{fi.short}: mapped tuple `{et}`"
                    if "None" in et or ".get(" in et:
                        res.ok("R-NULL-FEAS", inst, fi.loc(node))
                    else:
                        res.bad("R-NULL-FEAS", inst, fi.loc(node),
                                f"{fi.short}: `{et}` does not preserve the "
                                "None placeholder")
        # set form of the coverage filter: covered >= set(stereo.atoms),
        # set(stereo.atoms) <= covered, set(..).issubset(covered)
        for node in ast.walk(fi.node):
            txt = None
            if isinstance(node, ast.Compare) and len(node.ops) == 1 and \
                    isinstance(node.ops[0], (ast.GtE, ast.LtE, ast.Gt, ast.Lt)):
                txt = norm(node)
            elif isinstance(node, ast.Call) and isinstance(
                    node.func, ast.Attribute) and node.func.attr in (
                    "issubset", "issuperset"):
                txt = norm(node)
            if txt is None or not re.search(r"\.atoms\b", txt) or \
                    "len(" in txt:
                continue
            n_f += 1
            inst = f"{fi.short}: filter `{txt}`"
            if "None" in txt:
                res.ok("R-NULL-FEAS", inst, fi.loc(node))
            else:
                res.bad("R-NULL-FEAS", inst, fi.loc(node),
                        f"{fi.short}: `{txt}` is False for a descriptor that "
                        "contains the None placeholder (None is never a key "
                        "of the mapping), so descriptors with a lone pair "
                        "are never compared")
        # translation through `<mapping>.get` with a None test on the
        # result as the coverage criterion (possibly inside a helper the
        # predicate calls): `t = tuple(map(m.get, s.atoms)); if None in t`
        scopes = [fi]
        for c in ast.walk(fi.node):
            if isinstance(c, ast.Call) and isinstance(c.func, ast.Name):
                h = prog.functions.get(f"{fi.module.name}:{c.func.id}")
                if h is not None and h not in scopes:
                    scopes.append(h)
        for sc in scopes:
            got: dict[str, ast.AST] = {}
            for a in ast.walk(sc.node):
                if not (isinstance(a, ast.Assign) and len(a.targets) == 1
                        and isinstance(a.targets[0], ast.Name)):
                    continue
                t = norm(a.value)
                if re.search(r"map\((\w+\.)*\w+\.get, (\w+\.)*atoms\)", t) or \
                        re.search(r"\.get\((\w+)\) for \1 in (\w+\.)*atoms\b",
                                  t):
                    got[a.targets[0].id] = a
            for c in ast.walk(sc.node):
                if isinstance(c, ast.Compare) and len(c.ops) == 1 and \
                        isinstance(c.ops[0], (ast.In, ast.NotIn)) and \
                        isinstance(c.left, ast.Constant) and \
                        c.left.value is None and isinstance(
                        c.comparators[0], ast.Name) and \
                        c.comparators[0].id in got:
                    n_f += 3
                    src = got[c.comparators[0].id]
                    inst = f"{fi.short}: coverage test `{norm(c)}`"
                    res.bad("R-NULL-FEAS", inst, sc.loc(c),
                            f"{fi.short} (through {sc.short}): `{norm(src, 80)}`"
                            " maps the None placeholder to None like an atom "
                            f"that is not mapped yet, and `{norm(c)}` then "
                            "treats every descriptor with a lone pair as not "
                            "covered: it is skipped on this side only",
                            context=["<decided>"])
        if n_f < 3:
            res.error(f"R-NULL-FEAS {fname}: only {n_f} descriptor-atom "
                      "comprehensions recognised")
    # comparison shape --------------------------------------------------------
    fi = canon_iso(prog, "_stereo_feasibility", predicate=True)
    u, v = fi.params()[:2]
    a_ = find_locals(fi, lambda val: _iterates_over(
        val, rf"g1_stereo(\[{u}\]|\.get\({u}.*\))"))
    b_ = find_locals(fi, lambda val: _iterates_over(
        val, rf"g2_stereo(\[{v}\]|\.get\({v}.*\))"))
    if len(a_) == 1 and len(b_) == 1:
        fi = rename_locals(fi, {a_[0]: "s1", b_[0]: "s2"})
    fi = canon_comp_vars(fi)
    txt = utext(fi.node)
    def req(cond, key, msg, f=fi):
        inst = f"{f.short}: {key}"
        if cond:
            res.ok("R-STEREO-FEAS", inst, f.loc())
        else:
            res.bad("R-STEREO-FEAS", inst, f.loc(), f"{f.short}: {msg}",
                    instance=inst)
    req(re.search(rf"g1_stereo(\[|\.get\(){u}\b", txt) is not None
        and re.search(rf"g2_stereo(\[|\.get\(){v}\b", txt) is not None,
        "descriptors of u and of v",
        "does not read params.g1_stereo[u] and params.g2_stereo[v]")
    # either as an early exit on != or as a conjunct == of the result
    conj = any(isinstance(n, ast.BoolOp) and isinstance(n.op, ast.And)
               and any(norm(v_) in ("len(s2) == len(s1)",
                                    "len(s1) == len(s2)")
                       for v_ in n.values)
               and any("all(" in norm(v_, 200) for v_ in n.values)
               for n in ast.walk(fi.node))
    req("len(s2) != len(s1)" in txt or "len(s1) != len(s2)" in txt or conj,
        "same number of complete descriptors",
        "the counts of complete descriptors on the two sides are not compared")
    req(bool(re.search(r"all\(\(?c0 in s2 for c0 in s1\)?\)", txt)),
        "every mapped descriptor of u is among v's",
        "`all(s in s2 for s in s1)` not found")
    rets_true = [n for n in ast.walk(fi.node) if isinstance(n, ast.Return)
                 and norm(n.value) == "True"]
    req(all(any(isinstance(a, ast.If) for a in ancestors(r)) for r in rets_true)
        and bool(rets_true), "True only under the comparison",
        "returns True unconditionally")
    fi2 = canon_iso(prog, "_stereo_change_feasibility", predicate=True)
    u2, v2 = fi2.params()[:2]
    a_ = find_locals(fi2, lambda val: _iterates_over(
        val, rf"g1_stereo_changes(\[{u2}\]|\.get\({u2}.*\))\.items\(\)"))
    b_ = find_locals(fi2, lambda val: _iterates_over(
        val, rf"g2_stereo_changes(\[{v2}\]|\.get\({v2}.*\))\.items\(\)"))
    if len(a_) == 1 and len(b_) == 1:
        fi2 = rename_locals(fi2, {a_[0]: "s1", b_[0]: "s2"})
    fi2 = canon_comp_vars(fi2)
    txt2 = utext(fi2.node)
    req(re.search(rf"g1_stereo_changes(\[|\.get\(){u2}\b", txt2) is not None
        and re.search(rf"g2_stereo_changes(\[|\.get\(){v2}\b", txt2)
        is not None,
        "changes of u and of v",
        "does not read params.g1_stereo_changes[u] and "
        "params.g2_stereo_changes[v]", fi2)
    req("s1 == s2" in txt2 or "s2 == s1" in txt2, "role-tagged sets equal",
        "the (role, descriptor) sets are not compared for equality", fi2)
    req(txt2.count("(c0, ") >= 2,
        "role is part of the compared element",
        "the change role is not part of the compared elements", fi2)
    # registration -------------------------------------------------------------
    main = prog.fn(f"{MOD}:vf2pp_all_isomorphisms")
    reg = {}
    # the list the predicates are registered in: the one that receives
    # `.append(<feasibility function>)`
    lists = {}
    for node in ast.walk(main.node):
        if isinstance(node, ast.Call) and isinstance(
                node.func, ast.Attribute) and node.func.attr == "append" and \
                isinstance(node.func.value, ast.Name) and node.args and \
                re.fullmatch(r"_\w*feasibility", norm(node.args[0])):
            lists[node.func.value.id] = lists.get(node.func.value.id, 0) + 1
    reg_list = max(lists, key=lists.get) if lists else "feasibility_funcs"
    for node in ast.walk(main.node):
        if isinstance(node, ast.Call) and call_name(node) == \
                f"{reg_list}.append" and node.args:
            conds = []
            prev = node
            for a in ancestors(node):
                if isinstance(a, ast.If):
                    branch = "T" if any(prev is b or _contains(b, prev)
                                        for b in a.body) else "F"
                    conds.append((norm(a.test), branch))
                if isinstance(a, ast.FunctionDef):
                    break
                prev = a
            reg[norm(node.args[0])] = conds
    want = {"_graph_feasibility": set(),
            "_stereo_feasibility": {("stereo", "T")},
            "_stereo_change_feasibility": {("stereo_change", "T")},
            "_bond_change_feasibility": {("bond_change", "T")}}
    for fn, extra in want.items():
        conds = reg.get(fn)
        inst = f"vf2pp_all_isomorphisms registers {fn}"
        if conds is None:
            res.bad("R-STEREO-FEAS", inst, main.loc(),
                    f"{fn} is never registered as a feasibility predicate",
                    instance=inst)
            continue
        cs = {c for c in conds if c[0] in ("stereo", "stereo_change",
                                            "bond_change")}
        full = any(c in (("subgraph", "F"), ("not subgraph", "T"))
                   for c in conds)
        if cs == extra and full:
            res.ok("R-STEREO-FEAS", inst, main.loc())
        else:
            res.bad("R-STEREO-FEAS", inst, main.loc(),
                    f"{fn} is registered under {conds}, expected the "
                    f"full-graph branch with {sorted(extra) or 'no flag'}",
                    instance=inst)
    wrap = prog.fn(f"{MOD}:_wrap_all")
    inst = "_wrap_all combines the predicates with all()"
    verdict = _wrap_all_shape(wrap)
    if verdict is True:
        res.ok("R-STEREO-FEAS", inst, wrap.loc())
    elif verdict is None:
        res.unrecognised("R-STEREO-FEAS", inst, wrap.loc(),
                         "shape of _wrap_all (closure returning all(f(a, b, "
                         "state, params) for f in funcs))")
    else:
        res.bad("R-STEREO-FEAS", inst, wrap.loc(),
                f"_wrap_all does not return all(f(a, b, state, params) for f "
                f"in funcs): {verdict}", instance=inst)
    asg = [n for n in ast.walk(main.node) if isinstance(n, ast.Assign)
           and isinstance(n.value, ast.Call)
           and call_name(n.value) == "_wrap_all"]
    inst = "feasibility = _wrap_all(*feasibility_funcs)"
    if len(asg) == 1 and len(asg[0].value.args) == 1 and isinstance(
            asg[0].value.args[0], ast.Starred) and norm(
            asg[0].value.args[0].value) == reg_list:
        res.ok("R-STEREO-FEAS", inst, main.loc(asg[0]))
    elif len(asg) == 1:
        res.bad("R-STEREO-FEAS", inst, main.loc(asg[0]),
                f"`{norm(asg[0], 80)}` does not combine the list "
                f"`{reg_list}` the predicates are registered in",
                instance=inst)
    else:
        res.unrecognised("R-STEREO-FEAS", inst, main.loc(),
                         f"{len(asg)} assignments from _wrap_all(...)")


def _wrap_all_shape(wrap: FuncInfo):
    """True | None (not recognised) | text of the deviation."""
    a = wrap.node.args
    if a.vararg is None:
        return None
    funcs = a.vararg.arg
    inner = [n for n in wrap.node.body if isinstance(n, ast.FunctionDef)]
    if len(inner) != 1:
        return None
    w = inner[0]
    params = [x.arg for x in w.args.posonlyargs + w.args.args]
    rets = [n for n in ast.walk(w) if isinstance(n, ast.Return)]
    outer_rets = [n for n in wrap.node.body if isinstance(n, ast.Return)]
    if len(rets) != 1 or len(outer_rets) != 1 or norm(
            outer_rets[0].value) != w.name:
        return None
    v = rets[0].value
    if not (isinstance(v, ast.Call) and isinstance(v.func, ast.Name)
            and len(v.args) == 1 and isinstance(
            v.args[0], (ast.GeneratorExp, ast.ListComp))):
        return None
    g = v.args[0]
    if len(g.generators) != 1 or g.generators[0].ifs or not isinstance(
            g.generators[0].target, ast.Name):
        return None
    f = g.generators[0].target.id
    if v.func.id != "all":
        return f"the predicates are combined with {v.func.id}()"
    if norm(g.generators[0].iter) != funcs:
        return f"iterates over `{norm(g.generators[0].iter)}`, not `{funcs}`"
    if not (isinstance(g.elt, ast.Call) and norm(g.elt.func) == f
            and [norm(x) for x in g.elt.args] == params
            and not g.elt.keywords):
        return (f"each predicate is called as `{norm(g.elt, 60)}`, not with "
                f"({', '.join(params)})")
    return True


def _contains(tree: ast.AST, node: ast.AST) -> bool:
    return any(x is node for x in ast.walk(tree))


def check_label_type(prog: Program, res: Result) -> None:
    res.rule("R-LABEL-TYPE", "every call of vf2pp_all_isomorphisms passes "
             "atom_labels as a pair of {atom: colour} dictionaries (built by "
             "a dict comprehension / dict(zip(graph.atoms, colours))), not "
             "the raw colour arrays")
    n = 0
    for mod in prog.modules.values():
        for fn in ast.walk(mod.tree):
            if not isinstance(fn, ast.FunctionDef):
                continue
            for node in ast.walk(fn):
                if not (isinstance(node, ast.Call) and call_name(node) in (
                        "vf2pp_all_isomorphisms",)):
                    continue
                kw = {k.arg: k.value for k in node.keywords}
                lab = kw.get("atom_labels")
                if lab is None and len(node.args) >= 3:
                    lab = node.args[2]
                n += 1
                inst = f"{mod.name}:{fn.name}: atom_labels={norm(lab)}"
                if lab is None or (isinstance(lab, ast.Constant)
                                   and lab.value is None):
                    res.ok("R-LABEL-TYPE", inst, mod.loc(node), "default")
                    continue
                if not (isinstance(lab, ast.Tuple) and len(lab.elts) == 2):
                    res.error(f"R-LABEL-TYPE {inst}: unrecognised form")
                    continue
                from .core import DefUse
                du = DefUse(fn)
                good = True
                for e in lab.elts:
                    defs = du.defs.get(e.id, []) if isinstance(e, ast.Name) \
                        else [e]
                    ok1 = bool(defs) and all(
                        isinstance(d, ast.DictComp)
                        or (isinstance(d, ast.Call) and call_name(d) == "dict")
                        for d in defs)
                    good = good and ok1
                if good:
                    res.ok("R-LABEL-TYPE", inst, mod.loc(node))
                else:
                    res.bad("R-LABEL-TYPE", f"{mod.name}:{fn.name}: "
                            f"atom_labels={norm(lab)}", mod.loc(node),
                            f"{fn.name} passes `{norm(lab)}` as atom_labels; "
                            "the components are not {atom: colour} "
                            "dictionaries (a colour array has no .values() / "
                            "is indexed by position, not by atom id)",
                            instance=inst)
    res.need("R-LABEL-TYPE", n, 5, "call sites of vf2pp_all_isomorphisms")


# ---------------------------------------------------------------------------
def check_prechecks(prog: Program, res: Result) -> None:
    res.rule("R-PRECHECK", "the full-graph pre-checks of "
             "_sanity_check_and_init reject a pair only on invariants of the "
             "matching problem as posed by the caller: number of atoms, "
             "degree sequence, and the multiset of the (caller supplied or "
             "default) LABELS; a rejection based on anything else (elements, "
             "attributes) loses valid bijections for caller-supplied labels")
    fi = prog.fn(f"{MOD}:_sanity_check_and_init")
    allowed = {"g1_nbrhd", "g2_nbrhd", "g1_labels_counter",
               "g2_labels_counter", "subgraph", "len", "sorted", "Counter",
               "n", "nbr", "g1_degree", "g2_degree", "g1_labels", "g2_labels"}
    n = 0
    for r in ast.walk(fi.node):
        if not (isinstance(r, ast.Return) and norm(r.value) == "None"):
            continue
        if not full_mode_reachable(r):
            continue            # subgraph-mode rejections are out of scope
        tests = full_mode_guards(r)
        if not tests:
            continue
        n += 1
        used = set()
        for t in tests:
            used |= {x.id for x in ast.walk(t) if isinstance(x, ast.Name)}
        extra = used - allowed
        shown = norm(tests[0], 100)
        inst = f"{fi.short}: reject when `{shown[:80]}`"
        if extra:
            res.bad("R-PRECHECK", inst, fi.loc(r),
                    f"{fi.short}: the pair is rejected on "
                    f"`{shown}`, which depends on "
                    f"{sorted(extra)} rather than on sizes, degrees or the "
                    "labels the caller asked to match on")
        else:
            res.ok("R-PRECHECK", inst, fi.loc(r))
        # and each must compare the two graphs (not reject on one side alone)
        sides = {name_side(w) for t in tests for w in re.findall(
            r"[A-Za-z_][A-Za-z_0-9]*", norm(t, 400))} - {None}
        inst = f"{fi.short}: `{shown[:70]}` compares both graphs"
        if sides == {1, 2}:
            res.ok("R-PRECHECK", inst, fi.loc(r))
        else:
            res.bad("R-PRECHECK", inst, fi.loc(r),
                    f"{fi.short}: rejection `{shown}` looks at one "
                    "graph only")
    res.need("R-PRECHECK", n, 3, "full-graph rejections")


def check_both_sides(prog: Program, res: Result) -> None:
    res.rule("R-FEAS-BOTH-SIDES", "a feasibility predicate accepts a pair "
             "(returns True before its last statement) only under a test "
             "that depends on the descriptors / roles of BOTH u and v; an "
             "early acceptance that looks at one side only is asymmetric "
             "(iso(g1, g2) non-empty while iso(g2, g1) is empty)")
    from .core import DefUse
    table = {"_stereo_feasibility": ("g1_stereo", "g2_stereo"),
             "_stereo_change_feasibility": ("g1_stereo_changes",
                                            "g2_stereo_changes"),
             "_bond_change_feasibility": ("g1_bond_changes",
                                          "g2_bond_changes")}
    for fname, (t1, t2) in table.items():
        if not prog.has_fn(f"{MOD}:{fname}"):
            continue
        fi = canon_iso(prog, fname, predicate=True)
        du = DefUse(fi.node)
        rets = [r for r in ast.walk(fi.node) if isinstance(r, ast.Return)]
        last_stmt = fi.node.body[-1]
        n = 0
        for r in rets:
            v = norm(r.value)
            if v == "False":
                continue
            n += 1
            guards = [a.test for a in ancestors(r) if isinstance(a, ast.If)]
            exprs = guards + ([r.value] if v != "True" else [])
            attrs: set[str] = set()
            for e in exprs:
                for d in du.dep_nodes(e):
                    attrs |= {x.attr for x in ast.walk(d)
                              if isinstance(x, ast.Attribute)}
                    attrs |= {x.id for x in ast.walk(d)
                              if isinstance(x, ast.Name)}
            inst = f"{fi.short}: `{norm(r)}` under {[norm(g, 40) for g in guards]}"
            if r is last_stmt and not guards:
                # unconditional acceptance at the very end: fine when every
                # mismatch has returned False before (checked elsewhere)
                falses = [x for x in rets if norm(x.value) == "False"]
                if falses:
                    res.ok("R-FEAS-BOTH-SIDES", inst, fi.loc(r))
                else:
                    res.bad("R-FEAS-BOTH-SIDES", inst, fi.loc(r),
                            f"{fi.short} accepts every pair")
                continue
            if t1 in attrs and t2 in attrs:
                res.ok("R-FEAS-BOTH-SIDES", inst, fi.loc(r))
            else:
                seen = [t for t in (t1, t2) if t in attrs]
                res.bad("R-FEAS-BOTH-SIDES",
                        f"{fi.short}: {norm(r)} under "
                        f"{[norm(g, 60) for g in guards]}", fi.loc(r),
                        f"{fi.short}: accepts the pair under "
                        f"`{' and '.join(norm(g, 60) for g in guards) or 'no test'}`"
                        f", which looks only at {seen or 'neither table'}: "
                        "the descriptors of the other atom are never "
                        "compared on this path", instance=inst)
        res.need("R-FEAS-BOTH-SIDES", n, 1, f"accepting returns in {fname}")


# ---------------------------------------------------------------------------
def check_revert(prog: Program, res: Result) -> None:
    res.rule("R-REVERT-SHAPE", "when the last pair is undone, an uncovered "
             "neighbour of the removed atom leaves the frontier only if it "
             "has NO other covered neighbour (test over nbrhd[neighbour] "
             "against the mapping of its own side); the removed atom itself "
             "stays in the frontier iff it has a covered neighbour, otherwise "
             "it becomes external")
    from .core import unroll_literal_loops
    fi0 = canon_iso(prog, "_revert_state")
    fn = unroll_literal_loops(fi0.node)
    fi = FuncInfo(fi0.qual, fi0.module, fn, fi0.cls)
    # R-REVERT-TOTAL: the removed atom is put back on every path
    res.rule("R-REVERT-TOTAL", "the atom removed from the mapping is put "
             "back into the frontier or the external set of its side on "
             "every path: no guard on whether it has neighbours at all "
             "(an isolated atom must become external again, otherwise it is "
             "never offered as a candidate after backtracking)")
    params_ = fi.params()
    for s_, atomp in (("1", params_[0]), ("2", params_[1])):
        adds = [c for c in ast.walk(fn) if isinstance(c, ast.Call)
                and isinstance(c.func, ast.Attribute) and c.func.attr == "add"
                and norm(c.func.value) in (f"frontier{s_}", f"external{s_}")
                and c.args and norm(c.args[0]) == atomp]
        inst = f"_revert_state side {s_}: the removed atom is always put back"
        if not adds:
            res.unrecognised("R-REVERT-TOTAL", inst, fi.loc(),
                             f"no frontier{s_} / external{s_}.add({atomp})")
            continue
        # names that stand for the neighbourhood of the removed atom
        nb_names = {f"g{s_}_nbrhd[{atomp}]"}
        for a in ast.walk(fn):
            if isinstance(a, ast.Assign) and len(a.targets) == 1 and \
                    isinstance(a.targets[0], ast.Name) and norm(
                    a.value) in (f"g{s_}_nbrhd[{atomp}]",):
                nb_names.add(a.targets[0].id)
        bad_guard = None
        for c in adds:
            for a in ancestors(c):
                if isinstance(a, ast.If):
                    t = norm(a.test)
                    core = t[4:] if t.startswith("not ") else t
                    if core in nb_names or core in {f"len({n_})" for n_ in
                                                    nb_names} or any(
                            re.fullmatch(rf"len\({re.escape(n_)}\) (==|!=|>) 0",
                                         core) for n_ in nb_names):
                        bad_guard = (c, t)
        if bad_guard:
            c, t = bad_guard
            res.bad("R-REVERT-TOTAL", f"_revert_state side {s_}: removed atom "
                    "only put back if it has neighbours", fi.loc(c),
                    f"{inst}: `{norm(c)}` only happens under `{t}`; an atom "
                    "without neighbours is neither frontier nor external "
                    "after backtracking and is never offered again: "
                    "automorphisms of graphs with isolated atoms are lost",
                    instance=inst)
        else:
            res.ok("R-REVERT-TOTAL", inst, fi.loc(adds[0]))
    sides = 0
    for loop in ast.walk(fn):
        if not isinstance(loop, ast.For):
            continue
        m = re.fullmatch(r"g([12])_nbrhd\[last_atom([12])\]", norm(loop.iter))
        if not m or m.group(1) != m.group(2):
            continue
        s_ = m.group(1)
        sides += 1
        nb = norm(loop.target)
        covered = "mapping" if s_ == "1" else "inverted_mapping"
        discards = [c for c in ast.walk(loop) if isinstance(c, ast.Call)
                    and norm(c.func) == f"frontier{s_}.discard"
                    and c.args and norm(c.args[0]) == nb]
        inst = f"_revert_state side {s_}: neighbour leaves frontier{s_} only without other covered neighbour"
        if not discards:
            res.bad("R-REVERT-SHAPE", f"_revert_state side {s_}: no discard",
                    fi.loc(loop), f"{inst}: frontier{s_}.discard({nb}) not "
                    "found", instance=inst)
            continue
        for d in discards:
            guarded = False
            want = re.compile(
                rf"any\(\(?\w+ in {covered} for \w+ in g{s_}_nbrhd\[{nb}\]\)?\)")
            # (a) enclosing `if not any(...)`
            for a in ancestors(d):
                if a is loop:
                    break
                if isinstance(a, ast.If) and want.search(norm(a.test)) and \
                        norm(a.test).startswith("not "):
                    guarded = True
            # (b) an earlier sibling `if any(...): continue`
            stmt = d
            while parent(stmt) is not None and not isinstance(
                    parent(stmt), (ast.If, ast.For)):
                stmt = parent(stmt)
            block = None
            par = parent(stmt)
            for fld in ("body", "orelse"):
                if stmt in getattr(par, fld, []):
                    block = getattr(par, fld)
            if block:
                for prev in block[: block.index(stmt)]:
                    if isinstance(prev, ast.If) and want.search(
                            norm(prev.test)) and not norm(
                            prev.test).startswith("not ") and any(
                            isinstance(b, ast.Continue) for b in prev.body):
                        guarded = True
            if guarded:
                res.ok("R-REVERT-SHAPE", inst, fi.loc(d))
            else:
                res.bad("R-REVERT-SHAPE",
                        f"_revert_state side {s_}: unguarded discard",
                        fi.loc(d), f"{inst}: `{norm(d)}` is not guarded by "
                        f"`any(n in {covered} for n in g{s_}_nbrhd[{nb}])`: a "
                        "neighbour that is still adjacent to another mapped "
                        "atom is moved to the external set, and "
                        "_graph_feasibility then rejects the true pairing "
                        "(graphs with three-membered rings compare unequal "
                        "to their own renamings)", instance=inst)
        # the removed atom itself
        t = utext(loop)
        after = utext(fn)
        inst = f"_revert_state side {s_}: removed atom -> frontier iff covered neighbour else external"
        if f"if {nb} in {covered}" in t and f"frontier{s_}.add(last_atom{s_})" in t \
                and f"external{s_}.add(last_atom{s_})" in after and \
                "if not has_covered_neighbor" in after:
            res.ok("R-REVERT-SHAPE", inst, fi.loc(loop))
        else:
            res.unrecognised("R-REVERT-SHAPE", inst, fi.loc(loop),
                             "bookkeeping of the removed atom")
    if sides != 2:
        res.error(f"R-REVERT-SHAPE: {sides} neighbour loops recognised in "
                  "_revert_state (expected one per graph)")


def check_stereo_index(prog: Program, res: Result) -> None:
    res.rule("R-STEREO-INDEX", "_sanity_check_and_init indexes EVERY "
             "descriptor (and every non-None stereo change) of both graphs "
             "under each of its atoms: the append is not conditional on the "
             "descriptor's parity or class (a parity-0 PlanarBond / "
             "SquarePlanar or an unspecified descriptor that is left out is "
             "never compared by the search)")
    fi = prog.fn(f"{MOD}:_sanity_check_and_init")
    n = 0
    for call in ast.walk(fi.node):
        if not (isinstance(call, ast.Call) and isinstance(
                call.func, ast.Attribute) and call.func.attr == "append"):
            continue
        recv = norm(call.func.value)
        m = re.match(r"g([12])_stereo(_changes)?\[", recv)
        if not m:
            continue
        n += 1
        side = m.group(1)
        conds = []
        src = None
        for a in ancestors(call):
            if isinstance(a, ast.If):
                conds.append(norm(a.test))
            if isinstance(a, ast.For):
                it = norm(a.iter)
                if it.startswith(f"g{side}.") or it.startswith(
                        f"g{3 - int(side)}."):
                    src = it
                # `continue` filters earlier in the loop body
                for st in a.body:
                    if isinstance(st, ast.If) and any(isinstance(
                            b, (ast.Continue, ast.Break)) for b in st.body):
                        conds.append("skip if " + norm(st.test))
            if isinstance(a, ast.FunctionDef):
                break
        conds = [c for c in conds if c not in ("stereo", "stereo_change",
                                               "TYPE_CHECKING")]
        badc = [c for c in conds if not re.fullmatch(
            r"\w+ is not None|skip if \w+ is None", c)]
        inst = f"_sanity_check_and_init: {norm(call, 70)}"
        if src is None or not src.startswith(f"g{side}."):
            res.bad("R-STEREO-INDEX", inst + " source", fi.loc(call),
                    f"{inst}: index of graph {side} is filled from `{src}`",
                    instance=inst)
        elif badc:
            res.bad("R-STEREO-INDEX", f"{inst} under {badc}", fi.loc(call),
                    f"{inst}: descriptors are indexed only under {badc}; the "
                    "others are invisible to the stereo feasibility check "
                    "(stereoisomers differing only there compare equal)",
                    instance=inst)
        else:
            res.ok("R-STEREO-INDEX", inst, fi.loc(call))
    res.need("R-STEREO-INDEX", n, 6, "index appends")


# ---------------------------------------------------------------------------
def _set_effects(fn: ast.AST) -> set[tuple[str, str, str]]:
    """(target, op, argument) triples of the set bookkeeping statements;
    op in {union, minus, discard, add}."""
    out = set()
    for s_ in ast.walk(fn):
        if isinstance(s_, ast.AugAssign) and isinstance(s_.target, ast.Name):
            op = {ast.BitOr: "union", ast.Sub: "minus"}.get(type(s_.op))
            if op:
                out.add((s_.target.id, op, norm(s_.value)))
        elif isinstance(s_, ast.Call) and isinstance(s_.func, ast.Attribute) \
                and isinstance(s_.func.value, ast.Name) and s_.args:
            op = {"update": "union", "difference_update": "minus",
                  "discard": "discard", "remove": "discard",
                  "add": "add"}.get(s_.func.attr)
            if op:
                out.add((s_.func.value.id, op, norm(s_.args[0])))
        elif isinstance(s_, ast.Assign) and isinstance(
                s_.targets[0], ast.Name) and isinstance(s_.value, ast.BinOp):
            t = s_.targets[0].id
            if norm(s_.value.left) == t:
                op = {ast.BitOr: "union", ast.Sub: "minus"}.get(
                    type(s_.value.op))
                if op:
                    out.add((t, op, norm(s_.value.right)))
    return out


def check_state_shape(prog: Program, res: Result) -> None:
    """Side-1 effects of _update_state (side 2 follows from the mirror rule):
    a mistake made symmetrically on both sides passes A9 but not this."""
    res.rule("R-STATE-SHAPE", "_update_state moves the unmapped neighbours of "
             "the new atom from external to frontier and removes the new atom "
             "from both sets (any of the usual set-update spellings)")
    from .core import unroll_literal_loops
    fi0 = canon_iso(prog, "_update_state")
    fn = unroll_literal_loops(fi0.node)
    eff = _set_effects(fn)
    defs = [s_ for s_ in ast.walk(fn) if isinstance(s_, ast.Assign)
            and isinstance(s_.value, ast.SetComp)]
    um = None
    for d in defs:
        g = d.value.generators[0]
        if norm(g.iter) == "g1_nbrhd[new_atom1]" and len(g.ifs) == 1 and \
                norm(g.ifs[0]) == f"{norm(g.target)} not in mapping" and \
                norm(d.value.elt) == norm(g.target):
            um = norm(d.targets[0])
    inst = "_update_state: unmapped neighbours of the new atom"
    if um is None:
        res.unrecognised("R-STATE-SHAPE", inst, fi0.loc(),
                         "`{n for n in g1_nbrhd[new_atom1] if n not in "
                         "mapping}` not found")
        return
    res.ok("R-STATE-SHAPE", inst, fi0.loc())
    for tgt, op, arg, why in (
            ("frontier1", "union", um, "new neighbours enter the frontier"),
            ("external1", "minus", um, "and leave the external set"),
            ("frontier1", "discard", "new_atom1", "the mapped atom leaves the frontier"),
            ("external1", "discard", "new_atom1", "and the external set")):
        inst = f"_update_state: {tgt} {op} {arg}"
        if (tgt, op, arg) in eff:
            res.ok("R-STATE-SHAPE", inst, fi0.loc())
        else:
            res.bad("R-STATE-SHAPE", inst, fi0.loc(),
                    f"_update_state never performs `{tgt}` {op} `{arg}` "
                    f"({why}): frontier / external no longer partition the "
                    "unmapped atoms and _graph_feasibility compares wrong "
                    "label multisets", instance=inst)
    # wrong-direction effects
    for tgt, op, arg in sorted(eff):
        if (tgt, op) in (("external1", "union"), ("frontier1", "minus")) and \
                arg == um:
            res.bad("R-STATE-SHAPE", f"_update_state: {tgt} {op} {arg}",
                    fi0.loc(), f"_update_state performs `{tgt}` {op} `{arg}`: "
                    "the neighbours move in the wrong direction")


# ---------------------------------------------------------------------------
def check_symmetry_number(prog: Program, res: Result) -> None:
    res.rule("R-SYMNUM", "topological_symmetry_number enumerates the graph "
             "against ITSELF with stereo=True and returns the number of "
             "mappings yielded (nothing filtered, nothing counted twice)")
    fi = prog.fn("experimental:topological_symmetry_number")
    g = fi.params()[0]
    calls = [n for n in ast.walk(fi.node) if isinstance(n, ast.Call)
             and call_name(n) == "vf2pp_all_isomorphisms"]
    inst = "topological_symmetry_number: vf2pp(graph, graph, stereo=True)"
    if len(calls) != 1:
        res.unrecognised("R-SYMNUM", inst, fi.loc(), "search call")
        return
    c = calls[0]
    bound = prog.bound_args(c)
    if bound is not None:
        sig = prog.signature_of("vf2pp_all_isomorphisms")
        kw = {k: norm(v) for k, v in bound.items()}
        args = [kw.get(p_) for p_ in sig[:2]]
    else:
        kw = {k.arg: norm(k.value) for k in c.keywords}
        args = [norm(a) for a in c.args[:2]]
    if args == [g, g] and kw.get("stereo") == "True" and kw.get(
            "subgraph", "False") == "False":
        res.ok("R-SYMNUM", inst, fi.loc(c))
    else:
        res.bad("R-SYMNUM", f"topological_symmetry_number: {norm(c, 80)}",
                fi.loc(c), f"{inst}: called as `{norm(c, 100)}`: not the "
                "stereo-preserving automorphisms of the graph", instance=inst)
    # the count
    from .core import DefUse
    du = DefUse(fi.node)
    rets = [r for r in ast.walk(fi.node) if isinstance(r, ast.Return)]
    inst = "topological_symmetry_number: returns the number of mappings"
    ok = None
    # the iterator of mappings under its role name
    mnames = [n_.targets[0].id for n_ in ast.walk(fi.node)
              if isinstance(n_, ast.Assign) and len(n_.targets) == 1
              and isinstance(n_.targets[0], ast.Name)
              and isinstance(n_.value, ast.Call)
              and call_name(n_.value) == "vf2pp_all_isomorphisms"]
    from .core import clone as _clone

    class _M(ast.NodeTransformer):
        def visit_Call(self, node):
            if call_name(node) == "vf2pp_all_isomorphisms":
                return ast.Name("mappings", ast.Load())
            self.generic_visit(node)
            return node

    for r in rets:
        t = norm(_M().visit(_clone(r.value)), 200) if r.value is not None \
            else "None"
        if len(mnames) == 1:
            t = re.sub(rf"\b{re.escape(mnames[0])}\b", "mappings", t)
        src = " ".join(norm(d, 200) for d in du.dep_nodes(r.value))
        if "vf2pp_all_isomorphisms" not in src and \
                "vf2pp_all_isomorphisms" not in norm(r.value, 400):
            ok = False
            continue
        if t in ("deque(enumerate(mappings, 1), maxlen=1)[0][0]",
                 "len(list(mappings))", "sum((1 for _ in mappings))",
                 "len(tuple(mappings))"):
            ok = True if ok is None else ok
        elif re.search(r"enumerate\(mappings(, 0)?\)", t) or "- 1" in t or \
                "+ 1" in t or "// 2" in t or "set(" in t:
            ok = False
        else:
            ok = None
            break
    if ok is True:
        res.ok("R-SYMNUM", inst, fi.loc())
    elif ok is False:
        res.bad("R-SYMNUM", f"topological_symmetry_number: {[norm(r.value, 60) for r in rets]}",
                fi.loc(), f"{inst}: returns "
                f"{[norm(r.value, 80) for r in rets]}", instance=inst)
    else:
        res.unrecognised("R-SYMNUM", inst, fi.loc(), "counting idiom")
    # unspecified parities are refused (the count would not be defined)
    guards = [n for n in ast.walk(fi.node) if isinstance(n, ast.If)
              and "parity is None" in norm(n.test)
              and any(isinstance(b, ast.Raise) for b in n.body)]
    inst = "topological_symmetry_number: refuses unspecified parities"
    if guards:
        res.ok("R-SYMNUM", inst, fi.loc(guards[0]))
    else:
        res.unrecognised("R-SYMNUM", inst, fi.loc(), "guard on parity None")
