"""A3/A4 -- ownership and effect abstract interpreter for the graph classes.

Abstract values (depth = number of mutable container levels known fresh):

  IMM            immutable / opaque value (ints, tuples, frozensets, enums,
                 descriptors, attribute values)                 depth = inf
  DEEPV          "everything below is fresh"                    depth = inf
  Cont           container; ``fresh`` says whether this level was created by
                 the analysed operation, ``inner`` summarises all stored values
  Shared         alias of a container reachable from an *input* graph
                 (slot, level, owner)                           depth = 0
  Obj            graph object created by the analysed operation (slot -> value)
  In             an input graph object (self, a parameter, an element of an
                 iterable parameter)
  ClassRef, Tup, Items/Values views, Const, Unknown

Nothing is executed: the interpreter walks the AST of the resolved methods
(class-context sensitive, ``super()`` through the receiver's MRO) and records
write events on input graphs.
"""
from __future__ import annotations

import ast
import copy as _copy
from dataclasses import dataclass, field

from .core import (GRAPH_CLASSES, AnalysisError, FuncInfo, Program, call_name,
                   dotted, norm)

INF = 10 ** 6


class Value:
    pass


class _Imm(Value):
    def __repr__(self):
        return "Imm"

    def __deepcopy__(self, memo):
        return self


class _Deep(Value):
    def __repr__(self):
        return "DeepFresh"

    def __deepcopy__(self, memo):
        return self


IMM = _Imm()
DEEPV = _Deep()


@dataclass
class Const(Value):
    value: object


@dataclass
class Unknown(Value):
    why: str = ""


@dataclass
class Closure(Value):
    """A function defined inside the function being interpreted (def or
    lambda); called in the defining frame's environment."""
    node: object = None
    frame: object = None

    def __repr__(self):
        return f"Closure({getattr(self.node, 'name', 'lambda')})"

    def __deepcopy__(self, memo):
        return self


@dataclass
class Shared(Value):
    owner: str
    slot: str
    level: int

    def __repr__(self):
        return f"Shared({self.owner}.{self.slot}@{self.level})"


@dataclass(eq=False)
class Cont(Value):
    fresh: bool
    inner: Value
    why: str = ""          # site that determined the current inner value
    kind: str = "dict"
    autoviv: bool = False
    origin: str = ""       # site that created the container (kept by copies)
    cname: str = "dict"    # concrete class of the container
    kinds: set = field(default_factory=set)   # classes of contained containers

    def __post_init__(self):
        if not self.origin:
            self.origin = self.why

    def __repr__(self):
        return f"Cont({'fresh' if self.fresh else 'old'},{self.inner!r})"


@dataclass(eq=False)
class Obj(Value):
    cls: str
    slots: dict = field(default_factory=dict)
    why: dict = field(default_factory=dict)

    def __repr__(self):
        return f"Obj({self.cls},{self.slots})"


@dataclass
class In(Value):
    cls: str
    label: str

    def __repr__(self):
        return f"In({self.cls}:{self.label})"


@dataclass
class ClassRef(Value):
    cls: str


@dataclass
class Tup(Value):
    elts: list


@dataclass
class View(Value):
    kind: str         # items / values / keys
    base: Value


@dataclass
class IterIn(Value):
    """An iterable parameter whose elements are input graphs."""
    cls: str
    label: str


@dataclass
class ClassMap(Value):
    """A registry {name: class}; subscripting yields the class under study."""
    classes: tuple


def depth(v: Value) -> int:
    if v is IMM or v is DEEPV or isinstance(v, (Const, ClassRef, ClassMap,
                                                Closure)):
        return INF
    if isinstance(v, Unknown):
        return -1
    if isinstance(v, (Shared, In, IterIn)):
        return 0
    if isinstance(v, Cont):
        if not v.fresh:
            return 0
        d = depth(v.inner)
        if d < 0:
            return -1
        return min(INF, 1 + d)
    if isinstance(v, Tup):
        ds = [depth(e) for e in v.elts]
        if any(d < 0 for d in ds):
            return -1
        return min(ds) if ds else INF
    if isinstance(v, View):
        return depth(v.base)
    if isinstance(v, Obj):
        return INF
    return -1


def join(a: Value, b: Value) -> Value:
    """The less fresh of two values (Unknown absorbs)."""
    da, db = depth(a), depth(b)
    if da < 0:
        return a
    if db < 0:
        return b
    return a if da <= db else b


@dataclass
class Event:
    kind: str        # write | rebind | vivify
    owner: str       # label of the input graph
    slot: str
    level: int
    func: str
    where: str
    stmt: str
    path: tuple = ()
    vkind: str = ""          # class of a container value stored (if any)
    vkinds: tuple = ()       # classes of its contained containers


class Interp:
    def __init__(self, prog: Program, max_depth: int = 10):
        self.prog = prog
        self.max_depth = max_depth
        self.events: list[Event] = []
        self.unmodelled: list[str] = []
        self.stack: list[str] = []
        self._autoviv_cache: dict[tuple[str, str], bool] = {}
        self.labels: dict[str, str] = {}     # input label -> class
        self.choice: str | None = None       # class picked from a registry

    def input(self, cls: str, label: str) -> "In":
        self.labels[label] = cls
        self.labels[label + "[*]"] = cls
        return In(cls, label)

    def input_iter(self, cls: str, label: str) -> "IterIn":
        self.labels[label + "[*]"] = cls
        return IterIn(cls, label)

    # -- slot schema ------------------------------------------------------
    def slot_levels(self, cls: str, slot: str) -> int:
        ann = self.prog.slot_annotation(cls, slot)
        if ann is None:
            raise AnalysisError(f"slot {cls}.{slot} has no annotation")
        return ann_levels(ann, self.prog)

    def slot_autoviv(self, cls: str, slot: str) -> bool:
        """True iff some store ``X.<slot> = defaultdict(...)`` exists in the
        classes of cls's MRO (the container then auto-creates on lookup)."""
        key = (cls, slot)
        if key in self._autoviv_cache:
            return self._autoviv_cache[key]
        res = False
        for c in self.prog.mro(cls):
            ci = self.prog.classes[c]
            for node in ast.walk(ci.node):
                if isinstance(node, ast.Assign):
                    for t in node.targets:
                        if isinstance(t, ast.Attribute) and t.attr == slot:
                            if _creates_defaultdict(node.value):
                                res = True
        self._autoviv_cache[key] = res
        return res

    # -- public entry -----------------------------------------------------
    def call_method(self, cls: str, meth: str, self_val: Value,
                    args: list[Value] | None = None,
                    kwargs: dict[str, Value] | None = None,
                    after: str | None = None) -> Value:
        fi = self.prog.resolve_method(cls, meth, after=after)
        if fi is None:
            return Unknown(f"method {cls}.{meth} does not resolve")
        return self.exec_func(fi, cls, self_val, args or [], kwargs or {})

    # -- function execution ------------------------------------------------
    def exec_func(self, fi: FuncInfo, cls_ctx: str | None, self_val,
                  args: list[Value], kwargs: dict[str, Value]) -> Value:
        if len(self.stack) >= self.max_depth or self.stack.count(fi.qual) > 1:
            self.unmodelled.append(f"inlining bound hit at {fi.qual}")
            return Unknown(f"inlining bound at {fi.qual}")
        node = fi.node
        env: dict[str, Value] = {}
        a = node.args
        params = [x.arg for x in a.posonlyargs + a.args]
        defaults = list(a.defaults)
        dvals: dict[str, ast.AST] = {}
        for p, d in zip(params[len(params) - len(defaults):], defaults):
            dvals[p] = d
        for p, d in zip(a.kwonlyargs, a.kw_defaults):
            if d is not None:
                dvals[p.arg] = d
        pos = list(args)
        if fi.cls is not None and not fi.is_staticmethod():
            first = params[0] if params else None
            if first is not None:
                env[first] = self_val
                params = params[1:]
        for p in params:
            if pos:
                env[p] = pos.pop(0)
            elif p in kwargs:
                env[p] = kwargs[p]
            elif p in dvals:
                env[p] = self._default(dvals[p])
            else:
                env[p] = Unknown(f"missing argument {p}")
        for p in a.kwonlyargs:
            if p.arg in kwargs:
                env[p.arg] = kwargs[p.arg]
            elif p.arg in dvals:
                env[p.arg] = self._default(dvals[p.arg])
            else:
                env[p.arg] = Unknown(f"missing kw {p.arg}")
        if a.vararg:
            env[a.vararg.arg] = Tup(pos) if pos else IMM
        if a.kwarg:
            extra = [v for k, v in kwargs.items()
                     if k not in params and k not in {x.arg for x in a.kwonlyargs}]
            inner = IMM
            for v in extra:
                inner = join(inner, v)
            star = kwargs.get("**")
            if star is not None:
                inner = join(inner, star)
            env[a.kwarg.arg] = Cont(True, inner if depth(inner) < INF else DEEPV,
                                    why=f"**kwargs of {fi.short}")
        frame = Frame(self, fi, cls_ctx, env)
        self.stack.append(fi.qual)
        try:
            frame.block(node.body)
        finally:
            self.stack.pop()
        return frame.result()

    def _default(self, d: ast.AST) -> Value:
        if isinstance(d, ast.Constant):
            return Const(d.value)
        return IMM


def _creates_defaultdict(v: ast.AST) -> bool:
    if isinstance(v, ast.Call):
        f = v.func
        if isinstance(f, ast.Subscript):
            f = f.value
        d = dotted(f)
        if d and d.split(".")[-1] == "defaultdict":
            return True
    if isinstance(v, ast.IfExp):
        return _creates_defaultdict(v.body) or _creates_defaultdict(v.orelse)
    return False


def ann_levels(ann: ast.AST, prog: Program) -> int:
    """Number of mutable container levels in a slot annotation such as
    dict[AtomId, dict[str, Any]] (2), dict[int, AtomStereo] (1)."""
    if isinstance(ann, ast.Constant) and isinstance(ann.value, str):
        ann = ast.parse(ann.value, mode="eval").body
    if isinstance(ann, ast.Subscript):
        head = dotted(ann.value)
        head = head.split(".")[-1] if head else ""
        if head in ("dict", "defaultdict", "Dict", "DefaultDict",
                    "MutableMapping", "OrderedDict"):
            sl = ann.slice
            if isinstance(sl, ast.Tuple) and len(sl.elts) == 2:
                return 1 + ann_levels(sl.elts[1], prog)
            return 1
        if head in ("set", "list", "Set", "List", "deque"):
            return 1 + ann_levels(ann.slice, prog)
        ci = prog.classes.get(head)
        if ci is not None and any(b in ("dict", "defaultdict") for b in ci.bases):
            return 1      # e.g. ChangeDict[AtomStereo]: values are descriptors
        return 0
    if isinstance(ann, ast.Name):
        if ann.id in ("dict", "set", "list", "defaultdict"):
            return 1
        ci = prog.classes.get(ann.id)
        if ci is not None and any(b in ("dict", "defaultdict") for b in ci.bases):
            return 1
    return 0


class _Return(Exception):
    pass


class Frame:
    def __init__(self, interp: Interp, fi: FuncInfo, cls_ctx, env):
        self.I = interp
        self.prog = interp.prog
        self.fi = fi
        self.cls_ctx = cls_ctx
        self.env = env
        self.returns: list[Value] = []
        self.dead = False

    # -- helpers ----------------------------------------------------------
    def site(self, node: ast.AST) -> str:
        return f"{self.fi.short}: {norm(node, 110)}"

    def result(self) -> Value:
        if not self.returns:
            return Const(None)
        out = self.returns[0]
        for r in self.returns[1:]:
            out = self.join_objs(out, r)
        return out

    def join_objs(self, a: Value, b: Value) -> Value:
        if a is b:
            return a
        if isinstance(a, Obj) and isinstance(b, Obj):
            if a.cls != b.cls:
                return Unknown("join of objects of different classes")
            # in place: the caller's reference to `a` must see the merge
            for s in set(a.slots) | set(b.slots):
                va = a.slots.get(s, Unknown(f"slot {s} unassigned"))
                vb = b.slots.get(s, Unknown(f"slot {s} unassigned"))
                m = self.join_objs(va, vb)
                if m is vb and vb is not va:
                    a.why[s] = b.why.get(s, "")
                a.slots[s] = m
            return a
        if isinstance(a, Cont) and isinstance(b, Cont):
            a.fresh = a.fresh and b.fresh
            before = a.inner
            a.inner = self.join_objs(a.inner, b.inner)
            if a.inner is not before:
                a.why = b.why
            a.autoviv = a.autoviv or b.autoviv
            a.kinds |= b.kinds
            return a
        if isinstance(a, Const) and isinstance(b, Const):
            return a if a.value == b.value else IMM
        if isinstance(a, Obj) or isinstance(b, Obj):
            # object on one path, something else on the other: keep the
            # object (the other path is reported separately if it matters)
            if isinstance(a, Obj) and isinstance(b, (In,)):
                return a
            if isinstance(b, Obj) and isinstance(a, (In,)):
                return b
        return join(a, b)

    def event(self, kind, target: Value, node, level_hint=0, value=None):
        vk = value.cname if isinstance(value, Cont) else ""
        vks = tuple(sorted(value.kinds)) if isinstance(value, Cont) else ()
        if isinstance(target, Shared):
            self.I.events.append(Event(
                kind, target.owner, target.slot, target.level,
                self.fi.short, self.fi.loc(node), norm(node, 110),
                tuple(self.I.stack), vk, vks))
        elif isinstance(target, In):
            self.I.events.append(Event(
                kind, target.label, "<object>", 0, self.fi.short,
                self.fi.loc(node), norm(node, 110), tuple(self.I.stack)))

    # -- statements -------------------------------------------------------
    def block(self, stmts) -> None:
        for st in stmts:
            if self.dead:
                return
            self.stmt(st)

    def fork(self):
        other = _copy.copy(self)
        memo: dict = {}
        other.env = _copy.deepcopy(self.env, memo)
        other.returns = self.returns        # shared accumulator
        return other

    def merge(self, other: "Frame") -> None:
        if other.dead and not self.dead:
            return
        if self.dead and not other.dead:
            self.env = other.env
            self.dead = False
            return
        if self.dead and other.dead:
            return
        for k in set(self.env) | set(other.env):
            a = self.env.get(k)
            b = other.env.get(k)
            if a is None:
                self.env[k] = b
            elif b is not None:
                self.env[k] = self.join_objs(a, b)

    def stmt(self, st: ast.AST) -> None:
        if isinstance(st, ast.Return):
            v = self.ev(st.value) if st.value is not None else Const(None)
            self.returns.append(v)
            self.dead = True
        elif isinstance(st, ast.Raise):
            self.dead = True
        elif isinstance(st, ast.If):
            t = self.truth(st.test)
            if t is True:
                self.block(st.body)
            elif t is False:
                self.block(st.orelse)
            else:
                other = self.fork()
                self.block(st.body)
                other.block(st.orelse)
                self.merge(other)
        elif isinstance(st, ast.Assign):
            v = self.ev(st.value)
            for t in st.targets:
                self.assign(t, v, st)
        elif isinstance(st, ast.AnnAssign):
            if st.value is not None:
                self.assign(st.target, self.ev(st.value), st)
        elif isinstance(st, ast.AugAssign):
            v = self.ev(st.value)
            cur = self.ev(st.target)
            if isinstance(cur, (Cont, Shared)):
                self.store_into(cur, elem(v), st)
            elif isinstance(st.target, ast.Name):
                self.env[st.target.id] = join(cur, v) if depth(cur) < INF else cur
        elif isinstance(st, ast.Expr):
            self.ev(st.value)
        elif isinstance(st, (ast.For, ast.AsyncFor)):
            it = self.ev(st.iter)
            els = list(it.elts) if isinstance(it, Tup) and it.elts and len(
                it.elts) <= 6 else [elem(it)]
            for _ in range(2):
                for el in els:          # literal tuples are unrolled
                    other = self.fork()
                    other.assign(st.target, el, st)
                    other.block(st.body)
                    other.dead = False  # break/continue/return inside loop
                    self.merge(other)
            self.block(st.orelse)
        elif isinstance(st, ast.While):
            for _ in range(2):
                other = self.fork()
                other.block(st.body)
                other.dead = False
                self.merge(other)
        elif isinstance(st, ast.With):
            for item in st.items:
                v = self.ev(item.context_expr)
                if item.optional_vars is not None:
                    self.assign(item.optional_vars, v, st)
            self.block(st.body)
        elif isinstance(st, ast.Try):
            self.block(st.body)
            for h in st.handlers:
                other = self.fork()
                other.dead = False
                other.block(h.body)
                self.merge(other)
            self.block(st.orelse)
            self.block(st.finalbody)
        elif isinstance(st, ast.Delete):
            for t in st.targets:
                if isinstance(t, ast.Subscript):
                    base = self.ev(t.value)
                    self.event("write", base, st)
                elif isinstance(t, ast.Attribute):
                    base = self.ev(t.value)
                    if isinstance(base, In):
                        self.event("rebind", Shared(base.label, t.attr, 0), st)
        elif isinstance(st, ast.Assert):
            self.ev(st.test)
        elif isinstance(st, (ast.Pass, ast.Break, ast.Continue, ast.Import,
                             ast.ImportFrom, ast.Global, ast.Nonlocal)):
            if isinstance(st, (ast.Break, ast.Continue)):
                self.dead = True
        elif isinstance(st, ast.FunctionDef):
            self.env[st.name] = Closure(st, self)
        elif isinstance(st, ast.ClassDef):
            self.env[st.name] = IMM
        elif isinstance(st, ast.Match):
            for case in st.cases:
                other = self.fork()
                other.block(case.body)
                self.merge(other)
        else:
            self.I.unmodelled.append(f"statement {type(st).__name__} in "
                                     f"{self.fi.short}")

    def assign(self, target: ast.AST, v: Value, st: ast.AST) -> None:
        if isinstance(target, ast.Name):
            self.env[target.id] = v
        elif isinstance(target, (ast.Tuple, ast.List)):
            if isinstance(v, Tup) and len(v.elts) == len(target.elts) and not any(
                    isinstance(t, ast.Starred) for t in target.elts):
                for t, e in zip(target.elts, v.elts):
                    self.assign(t, e, st)
            else:
                e = elem(v)
                for t in target.elts:
                    if isinstance(t, ast.Starred):
                        t = t.value
                    self.assign(t, e, st)
        elif isinstance(target, ast.Attribute):
            base = self.ev(target.value)
            if isinstance(base, Obj):
                base.slots[target.attr] = v
                base.why[target.attr] = self.site(st)
            elif isinstance(base, In):
                self.event("rebind", Shared(base.label, target.attr, 0), st,
                           value=v)
            elif isinstance(base, Unknown):
                pass
        elif isinstance(target, ast.Subscript):
            base = self.ev(target.value)
            self.ev(target.slice)
            self.store_into(base, v, st)
            if isinstance(base, Cont):
                # strong update: X[k] = v ; X[k][...] = w  hits v
                base.last = (norm(target.slice), v)
        elif isinstance(target, ast.Starred):
            self.assign(target.value, v, st)

    def store_into(self, base: Value, v: Value, st: ast.AST) -> None:
        if isinstance(base, Cont):
            if isinstance(v, Cont):
                base.kinds.add(v.cname)
            elif isinstance(v, Unknown):
                base.kinds.add("<unknown>")
            if depth(v) < depth(base.inner):
                base.inner = v
                base.why = self.site(st)
        elif isinstance(base, (Shared, In)):
            self.event("write", base, st, value=v)
        elif isinstance(base, View):
            self.store_into(base.base, v, st)

    # -- truth ------------------------------------------------------------
    def truth(self, test: ast.AST):
        if isinstance(test, ast.BoolOp):
            vals = [self.truth(x) for x in test.values]
            if isinstance(test.op, ast.And):
                if any(v is False for v in vals):
                    return False
                if all(v is True for v in vals):
                    return True
                return None
            if any(v is True for v in vals):
                return True
            if all(v is False for v in vals):
                return False
            return None
        if isinstance(test, ast.UnaryOp) and isinstance(test.op, ast.Not):
            t = self.truth(test.operand)
            return None if t is None else (not t)
        if isinstance(test, ast.Compare) and len(test.ops) == 1:
            l = self.ev(test.left)
            r = self.ev(test.comparators[0])
            op = test.ops[0]
            if isinstance(op, (ast.Is, ast.IsNot, ast.Eq, ast.NotEq)):
                neg = isinstance(op, (ast.IsNot, ast.NotEq))
                if isinstance(l, Const) and isinstance(r, Const):
                    res = l.value == r.value
                    return (not res) if neg else res
                for x, y in ((l, r), (r, l)):
                    if isinstance(y, Const) and y.value is None and isinstance(
                            x, (In, Obj, Cont, Shared, ClassRef, IterIn)):
                        return neg
                if isinstance(op, (ast.Is, ast.IsNot)) and isinstance(
                        l, ClassRef) and isinstance(r, ClassRef):
                    res = l.cls == r.cls
                    return (not res) if neg else res
            return None
        if isinstance(test, ast.Call) and call_name(test) == "isinstance" \
                and len(test.args) == 2:
            v = self.ev(test.args[0])
            c = self.ev(test.args[1])
            cls = v.cls if isinstance(v, (In, Obj)) else None
            if cls and isinstance(c, ClassRef):
                return c.cls in self.prog.mro(cls)
            if isinstance(v, Const) and v.value is None:
                return False
            return None
        if isinstance(test, ast.NamedExpr):
            v = self.ev(test)
            return self.value_truth(v)
        v = self.ev(test)
        return self.value_truth(v)

    @staticmethod
    def value_truth(v: Value):
        if isinstance(v, Const):
            return bool(v.value)
        return None

    # -- expressions ------------------------------------------------------
    def ev(self, e: ast.AST | None) -> Value:
        if e is None:
            return Const(None)
        m = getattr(self, "ev_" + type(e).__name__, None)
        if m is None:
            self.I.unmodelled.append(f"expression {type(e).__name__} in "
                                     f"{self.fi.short}")
            return Unknown(f"expression {type(e).__name__}")
        return m(e)

    def ev_Constant(self, e):
        return Const(e.value)

    def ev_Name(self, e):
        if e.id in self.env:
            return self.env[e.id]
        if e.id in self.prog.classes:
            return ClassRef(e.id)
        # module-level registry of classes: {"MolGraph": MolGraph, ...}
        try:
            node = self.prog.module_assign(self.fi.module.name, e.id)
        except Exception:
            node = None
        if isinstance(node, ast.Dict) and node.values and all(
                isinstance(v, ast.Name) and v.id in self.prog.classes
                for v in node.values):
            return ClassMap(tuple(v.id for v in node.values))
        return IMM        # module-level constant / builtin

    def ev_JoinedStr(self, e):
        for v in e.values:
            self.ev(v)
        return IMM

    def ev_Lambda(self, e):
        return Closure(e, self)

    def ev_Tuple(self, e):
        # (*xs, y): the elements of xs are members of the tuple
        return Tup([elem(self.ev(x.value)) if isinstance(x, ast.Starred)
                    else self.ev(x) for x in e.elts])

    def ev_List(self, e):
        inner: Value = DEEPV
        for x in e.elts:
            v = self.ev(x.value if isinstance(x, ast.Starred) else x)
            v = elem(v) if isinstance(x, ast.Starred) else v
            inner = join(inner, v)
        return Cont(True, inner, why=self.site(e), kind="list",
                    cname="set" if isinstance(e, ast.Set) else "list")

    ev_Set = ev_List

    def ev_Dict(self, e):
        vals = [self.ev(v) for v in e.values] if e.values else []
        if vals and all(isinstance(v, ClassRef) for v in vals):
            return ClassMap(tuple(v.cls for v in vals))
        inner: Value = DEEPV
        for k, v in zip(e.keys, e.values):
            val = self.ev(v)
            if k is None:           # {**x}
                val = inner_of(val)
            else:
                self.ev(k)
            inner = join(inner, val)
        return Cont(True, inner, why=self.site(e),
                    kinds={v.cname for v in vals if isinstance(v, Cont)})

    def _comp(self, e, elt_fn):
        sub = self.fork()
        sub.returns = []
        for g in e.generators:
            it = sub.ev(g.iter)
            sub.assign(g.target, elem(it), e)
            for cond in g.ifs:
                sub.ev(cond)
        v = elt_fn(sub)
        # propagate events only (env of comprehension is local)
        return v

    def ev_ListComp(self, e):
        v = self._comp(e, lambda f: f.ev(e.elt))
        return Cont(True, v if depth(v) < INF else DEEPV, why=self.site(e),
                    kind="list",
                    cname="set" if isinstance(e, ast.SetComp) else "list",
                    kinds={v.cname} if isinstance(v, Cont) else set())

    ev_SetComp = ev_ListComp
    ev_GeneratorExp = ev_ListComp

    def ev_DictComp(self, e):
        def f(fr):
            fr.ev(e.key)
            return fr.ev(e.value)
        v = self._comp(e, f)
        return Cont(True, v if depth(v) < INF else DEEPV, why=self.site(e),
                    kinds={v.cname} if isinstance(v, Cont) else (
                        {"<unknown>"} if isinstance(v, Unknown) else set()))

    def ev_IfExp(self, e):
        t = self.truth(e.test)
        if t is True:
            return self.ev(e.body)
        if t is False:
            return self.ev(e.orelse)
        return self.join_objs(self.ev(e.body), self.ev(e.orelse))

    def ev_BoolOp(self, e):
        vals = [self.ev(x) for x in e.values]
        out = vals[0]
        for v in vals[1:]:
            out = join(out, v)
        return out

    def ev_UnaryOp(self, e):
        v = self.ev(e.operand)
        if isinstance(v, Const):
            try:
                if isinstance(e.op, ast.Not):
                    return Const(not v.value)
                if isinstance(e.op, ast.USub):
                    return Const(-v.value)
            except TypeError:
                pass
        return IMM

    def ev_BinOp(self, e):
        l, r = self.ev(e.left), self.ev(e.right)
        if isinstance(e.op, ast.BitOr) and (depth(l) < INF or depth(r) < INF):
            # dict | dict, set | set : new outer container
            return Cont(True, join(inner_of(l), inner_of(r)), why=self.site(e))
        return IMM

    def ev_Compare(self, e):
        self.ev(e.left)
        for c in e.comparators:
            self.ev(c)
        t = self.truth(e) if len(e.ops) == 1 else None
        return Const(t) if t is not None else IMM

    def ev_NamedExpr(self, e):
        v = self.ev(e.value)
        self.assign(e.target, v, e)
        return v

    def ev_Starred(self, e):
        return self.ev(e.value)

    def ev_Yield(self, e):
        if e.value is not None:
            self.ev(e.value)
        return IMM

    def ev_YieldFrom(self, e):
        self.ev(e.value)
        return IMM

    def ev_Await(self, e):
        return self.ev(e.value)

    def ev_FormattedValue(self, e):
        self.ev(e.value)
        return IMM

    def ev_Slice(self, e):
        return IMM

    def ev_Attribute(self, e):
        base = self.ev(e.value)
        attr = e.attr
        if isinstance(base, (In, Obj)):
            cls = base.cls
            if attr == "__class__":
                return ClassRef(cls)
            slots = self.prog.all_slots(cls)
            if attr in slots:
                if isinstance(base, Obj):
                    return base.slots.get(
                        attr, Unknown(f"slot {attr} read before assignment"))
                return Shared(base.label, attr, 0)
            fi = self.prog.resolve_method(cls, attr)
            if fi is not None and fi.is_property():
                return self.I.exec_func(fi, cls, base, [], {})
            if fi is not None:
                return IMM      # bound method object (only called)
            return Unknown(f"attribute {cls}.{attr}")
        if isinstance(base, ClassRef):
            return IMM
        if isinstance(base, (Shared, Cont, View)):
            return IMM          # bound method; handled in calls
        if isinstance(base, Unknown):
            return base
        return IMM

    def ev_Subscript(self, e):
        base = self.ev(e.value)
        self.ev(e.slice)
        if isinstance(base, Shared):
            owner_cls = self._owner_cls(base.owner)
            if base.level == 0 and owner_cls and self.I.slot_autoviv(
                    owner_cls, base.slot) and not self._guarded(e):
                self.event("vivify", base, e)
            return inner_of(base, self)
        if isinstance(base, Cont):
            last = getattr(base, "last", None)
            if last is not None and last[0] == norm(e.slice):
                return last[1]
            if base.inner is DEEPV:
                # an element of a deep-fresh container of unknown shape: no
                # statement about its class
                base.inner = Cont(True, DEEPV, why=base.why, cname="<elem>")
            return base.inner
        if isinstance(base, Tup):
            if isinstance(e.slice, ast.Constant) and isinstance(
                    e.slice.value, int) and -len(base.elts) <= e.slice.value < len(base.elts):
                return base.elts[e.slice.value]
            return elem(base)
        if isinstance(base, View):
            return inner_of(base.base, self)
        if isinstance(base, ClassRef):
            return base          # ChangeDict[AtomStereo]
        if isinstance(base, ClassMap):
            if self.I.choice in base.classes:
                return ClassRef(self.I.choice)
            return Unknown("class registry lookup")
        if isinstance(base, Unknown):
            return base
        return IMM

    def _owner_cls(self, label: str) -> str | None:
        return self.I.labels.get(label)

    def _guarded(self, sub: ast.Subscript) -> bool:
        """``k in X`` dominating test for the lookup X[k] (syntactic: an
        enclosing if / comprehension-if / and-chain mentions `k in X`)."""
        from .core import ancestors
        want_k = norm(sub.slice)
        want_x = norm(sub.value)
        node: ast.AST = sub
        for anc in ancestors(sub):
            tests = []
            if isinstance(anc, ast.If) and node in anc.body:
                tests.append(anc.test)
            elif isinstance(anc, ast.IfExp) and node is anc.body:
                tests.append(anc.test)
            elif isinstance(anc, ast.comprehension):
                tests.extend(anc.ifs)
            elif isinstance(anc, ast.BoolOp) and isinstance(anc.op, ast.And):
                idx = anc.values.index(node) if node in anc.values else 0
                tests.extend(anc.values[:idx])
            for t in tests:
                for c in ast.walk(t):
                    if isinstance(c, ast.Compare) and len(c.ops) == 1 and \
                            isinstance(c.ops[0], ast.In) and norm(c.left) == want_k:
                        rhs = norm(c.comparators[0])
                        if rhs == want_x or rhs.split(".")[0] == want_x.split(".")[0]:
                            return True
            node = anc
            if isinstance(anc, ast.FunctionDef):
                break
        return False

    # -- calls --------------------------------------------------------------
    def ev_Call(self, e: ast.Call) -> Value:
        f = e.func
        # evaluate arguments
        args: list[Value] = []
        star_elem: Value | None = None
        for a in e.args:
            if isinstance(a, ast.Starred):
                v = self.ev(a.value)
                if isinstance(v, Tup):
                    args.extend(v.elts)
                else:
                    star_elem = elem(v)
                    args.extend([star_elem] * 2)
            else:
                args.append(self.ev(a))
        kwargs: dict[str, Value] = {}
        for k in e.keywords:
            v = self.ev(k.value)
            if k.arg is None:
                kwargs["**"] = join(kwargs.get("**", IMM), inner_of(v, self))
            else:
                kwargs[k.arg] = v

        name = dotted(f)
        # local function / lambda
        if isinstance(f, ast.Name) and isinstance(self.env.get(f.id), Closure):
            return self.call_closure(self.env[f.id], args, kwargs)
        # super().m(...)
        if isinstance(f, ast.Attribute) and isinstance(f.value, ast.Call) \
                and call_name(f.value) == "super":
            if self.fi.cls is None or self.cls_ctx is None:
                return Unknown("super() outside a class")
            first = self.fi.params()[0] if self.fi.params() else None
            self_val = self.env.get(first) if first else None
            target = self.prog.resolve_method(self.cls_ctx, f.attr,
                                              after=self.fi.cls.name)
            if target is None:
                return IMM if f.attr == "__init__" else Unknown(
                    f"super().{f.attr} unresolved")
            if isinstance(self_val, ClassRef):
                return self.I.exec_func(target, self_val.cls, self_val, args, kwargs)
            return self.I.exec_func(target, self.cls_ctx, self_val, args, kwargs)

        # well-known constructors / copies
        last = name.split(".")[-1] if name else None
        if last == "deepcopy" and len(args) == 1:
            return self.deep(args[0])
        if last == "copy" and name in ("copy.copy", "copy") and len(args) == 1 \
                and not isinstance(f, ast.Attribute):
            return shallow(args[0], self.site(e), self)
        if last in ("dict", "set", "list", "defaultdict", "OrderedDict",
                    "Counter", "deque") and not isinstance(f, ast.Attribute) \
                or name in ("collections.defaultdict",):
            src = [a for a in args if depth(a) < INF]
            cn = last if last in ("set", "list", "defaultdict") else "dict"
            if not src:
                return Cont(True, DEEPV, why=self.site(e), cname=cn)
            inner: Value = DEEPV
            ks: set = set()
            for s in src:
                inner = join(inner, elem(s) if last in ("set", "list", "deque")
                             else inner_of(s, self))
                if isinstance(s, Cont):
                    ks |= s.kinds
            return Cont(True, inner, why=self.site(e),
                        kind="set" if last == "set" else (
                            "list" if last in ("list", "deque") else "dict"),
                        cname=cn, kinds=ks)
        if last in ("MappingProxyType",) and args:
            return args[0]
        if last in ("tuple", "frozenset", "sorted", "reversed", "iter") and args:
            v = args[0]
            if depth(v) >= INF:
                return IMM
            return Cont(True, elem(v), why=self.site(e), kind="list")
        if last in ("zip",):
            return Cont(True, Tup([elem(a) for a in args]), kind="list")
        if last == "enumerate" and args:
            return Cont(True, Tup([IMM, elem(args[0])]), kind="list")
        if last == "next" and args:
            return elem(args[0])
        if last == "getattr" and len(e.args) >= 2:
            # getattr(x, "slot"[, default]) reads the attribute
            if isinstance(e.args[1], ast.Constant) and isinstance(
                    e.args[1].value, str):
                node = ast.copy_location(ast.Attribute(
                    value=e.args[0], attr=e.args[1].value, ctx=ast.Load()), e)
                v = self.ev_Attribute(node)
                if isinstance(v, Unknown) and len(args) >= 3:
                    return args[2]          # attribute may be absent
                return join(v, args[2]) if len(args) >= 3 else v
            if isinstance(args[0], (In, Obj)):
                return Unknown("getattr with a computed attribute name")
            return IMM
        if last in ("isinstance", "len", "hasattr", "int", "str", "float",
                    "bool", "abs", "min", "max", "sum", "any", "all", "hash",
                    "id", "repr", "print", "range", "type", "Bond", "getattr",
                    "issubclass", "map", "filter"):
            if last == "type" and len(args) == 1 and isinstance(
                    args[0], (In, Obj)):
                return ClassRef(args[0].cls)
            if last == "isinstance":
                t = self.truth(e)
                return Const(t) if t is not None else IMM
            return IMM

        # class instantiation: K(...), cls(...), self.__class__(...)
        fv = None if isinstance(f, ast.Attribute) else self.ev(f)
        if isinstance(f, ast.Attribute):
            recv = self.ev(f.value)
            meth = f.attr
            if meth == "__class__" and isinstance(recv, (In, Obj)):
                return self.instantiate(recv.cls, args, kwargs, e)
            if isinstance(recv, ClassRef) and recv.cls in GRAPH_CLASSES:
                target = self.prog.resolve_method(recv.cls, meth)
                if target is not None:
                    if target.is_classmethod():
                        return self.I.exec_func(target, recv.cls, recv, args,
                                                kwargs)
                    if target.is_staticmethod():
                        return self.I.exec_func(target, recv.cls, None, args,
                                                kwargs)
                    if args:      # Class.method(obj, ...)
                        return self.I.exec_func(target, recv.cls, args[0],
                                                args[1:], kwargs)
                return Unknown(f"{recv.cls}.{meth}")
            if isinstance(recv, (In, Obj)):
                target = self.prog.resolve_method(recv.cls, meth)
                if target is None:
                    return Unknown(f"method {recv.cls}.{meth} unresolved")
                if target.is_classmethod():
                    return self.I.exec_func(target, recv.cls,
                                            ClassRef(recv.cls), args, kwargs)
                return self.I.exec_func(target, recv.cls, recv, args, kwargs)
            if isinstance(recv, (Cont, Shared, View)):
                return self.container_method(recv, meth, args, kwargs, e)
            if isinstance(recv, Unknown):
                return recv
            if isinstance(recv, IterIn):
                return IMM
            # method of an immutable value / module function
            if recv is IMM or isinstance(recv, (Const, Tup, ClassRef)):
                return self.external_call(name, args, kwargs, e)
            return IMM
        if isinstance(fv, ClassRef):
            return self.instantiate(fv.cls, args, kwargs, e)
        # package-level function
        if isinstance(f, ast.Name):
            target = self.resolve_function(f.id)
            if target is not None:
                return self.I.exec_func(target, None, None, args, kwargs)
        return self.external_call(name, args, kwargs, e)

    def call_closure(self, c: "Closure", args, kwargs) -> Value:
        node = c.node
        if len(self.I.stack) >= self.I.max_depth:
            return Unknown("closure depth")
        a = node.args
        if a.vararg or a.kwarg:
            return Unknown("closure with star parameters")
        params = [x.arg for x in a.posonlyargs + a.args]
        env = dict(c.frame.env)        # free variables: the defining frame
        defaults = dict(zip(params[len(params) - len(a.defaults):],
                            a.defaults))
        pos = list(args)
        for p in params:
            if pos:
                env[p] = pos.pop(0)
            elif p in kwargs:
                env[p] = kwargs[p]
            elif p in defaults:
                env[p] = c.frame.ev(defaults[p])
            else:
                env[p] = Unknown(f"missing argument {p}")
        for p, d in zip(a.kwonlyargs, a.kw_defaults):
            env[p.arg] = kwargs.get(p.arg) or (
                c.frame.ev(d) if d is not None else Unknown("missing kw"))
        sub = Frame(self.I, self.fi, self.cls_ctx, env)
        self.I.stack.append(f"{self.fi.qual}.<local>")
        try:
            if isinstance(node, ast.Lambda):
                return sub.ev(node.body)
            sub.block(node.body)
        finally:
            self.I.stack.pop()
        return sub.result()

    def resolve_function(self, name: str) -> FuncInfo | None:
        # same module first, then imported-from modules
        mod = self.fi.module
        q = f"{mod.name}:{name}"
        if q in self.prog.functions:
            return self.prog.functions[q]
        for node in ast.walk(mod.tree):
            if isinstance(node, ast.ImportFrom) and node.module and \
                    node.module.startswith("stereomolgraph"):
                for al in node.names:
                    if (al.asname or al.name) == name:
                        m = node.module[len("stereomolgraph"):].lstrip(".")
                        q = f"{m}:{al.name}"
                        if q in self.prog.functions:
                            return self.prog.functions[q]
        return None

    def external_call(self, name, args, kwargs, e) -> Value:
        allv = list(args) + list(kwargs.values())
        if name and name.split(".")[-1] == "copy" and len(args) == 1 \
                and not kwargs:
            return shallow(args[0], self.site(e), self)
        if all(depth(a) >= INF for a in allv):
            return IMM
        self.I.unmodelled.append(f"call {name or norm(e.func)} with "
                                 f"non-immutable arguments in {self.fi.short}")
        return Unknown(f"call {name or norm(e.func)}")

    def deep(self, v: Value) -> Value:
        if isinstance(v, (In, Obj)):
            o = Obj(v.cls)
            for s in self.prog.all_slots(v.cls):
                src = v.slots.get(s) if isinstance(v, Obj) else None
                o.slots[s] = Cont(True, DEEPV, why="deepcopy",
                                  origin=src.origin if isinstance(src, Cont)
                                  else "deepcopy",
                                  cname=src.cname if isinstance(src, Cont)
                                  else "dict",
                                  kinds=set(src.kinds) if isinstance(src, Cont)
                                  else set())
                o.why[s] = "deepcopy"
            return o
        if depth(v) >= INF and not isinstance(v, Cont):
            return v
        return Cont(True, DEEPV, why="deepcopy",
                    origin=v.origin if isinstance(v, Cont) else "deepcopy",
                    cname=v.cname if isinstance(v, Cont) else "<src>",
                    kinds=set(v.kinds) if isinstance(v, Cont) else set())

    def instantiate(self, cls: str, args, kwargs, e) -> Value:
        ci = self.prog.classes.get(cls)
        if ci is None:
            return IMM
        if cls not in GRAPH_CLASSES:
            if any(b in ("dict", "defaultdict", "set", "list")
                   for b in ci.bases):
                src = [a for a in args if depth(a) < INF]
                if not src:
                    return Cont(True, DEEPV, why=self.site(e), cname=cls)
                inner: Value = DEEPV
                for s in src:
                    inner = join(inner, inner_of(s, self))
                return Cont(True, inner, why=self.site(e), cname=cls)
            return IMM if all(depth(a) >= INF for a in list(args) + list(
                kwargs.values())) else Unknown(f"constructor {cls}")
        obj = Obj(cls)
        init = self.prog.resolve_method(cls, "__init__")
        if init is not None:
            self.I.exec_func(init, cls, obj, args, kwargs)
        return obj

    def container_method(self, recv, meth, args, kwargs, e) -> Value:
        base = recv.base if isinstance(recv, View) else recv
        if meth in ("items", "values", "keys"):
            return View(meth, base)
        if meth == "copy":
            out = shallow(base, self.site(e), self)
            if isinstance(out, Cont) and out.cname not in (
                    "dict", "set", "list", "defaultdict"):
                out.cname = "dict"     # dict.copy() of a subclass is a dict
            return out
        if meth in ("get", "pop", "setdefault", "popitem"):
            out = inner_of(base, self)
            if meth == "setdefault" and len(args) > 1:
                self.store_into(base, args[1], e)
            if meth in ("pop", "setdefault", "popitem") and isinstance(
                    base, (Shared,)):
                self.event("write", base, e)
            if meth in ("get", "pop") and len(args) > 1:
                out = join(out, args[1])
            return out
        if meth in ("update", "__ior__"):
            for a in args:
                if isinstance(a, Cont) and isinstance(base, Cont):
                    base.kinds |= a.kinds
                self.store_into(base, inner_of(a, self) if not isinstance(
                    a, Tup) else elem(a), e)
            for k, v in kwargs.items():
                self.store_into(base, v, e)
            if isinstance(base, Shared) and not args and not kwargs:
                self.event("write", base, e)
            return Const(None)
        if meth in ("add", "append", "appendleft", "insert"):
            self.store_into(base, args[-1] if args else IMM, e)
            return Const(None)
        if meth in ("extend", "union_update", "intersection_update",
                    "difference_update", "symmetric_difference_update"):
            self.store_into(base, elem(args[0]) if args else IMM, e)
            return Const(None)
        if meth in ("discard", "remove", "clear", "sort", "reverse"):
            if isinstance(base, Shared):
                self.event("write", base, e)
            return Const(None)
        if meth in ("union", "intersection", "difference",
                    "symmetric_difference"):
            return Cont(True, inner_of(base, self), why=self.site(e), kind="set")
        if meth in ("issuperset", "issubset", "isdisjoint", "count", "index",
                    "__contains__", "__len__"):
            return IMM
        if meth == "__class__":
            return Cont(True, DEEPV, why=self.site(e))
        self.I.unmodelled.append(f"container method .{meth} in {self.fi.short}")
        return Unknown(f"container method {meth}")


def elem(v: Value) -> Value:
    """Abstract element obtained by iterating v."""
    if isinstance(v, View):
        if v.kind == "items":
            return Tup([IMM, inner_of(v.base)])
        if v.kind == "values":
            return inner_of(v.base)
        return IMM
    if isinstance(v, Cont):
        if v.kind in ("set", "list"):
            if v.inner is DEEPV:
                return DEEPV
            return v.inner
        return IMM                    # iterating a dict gives keys
    if isinstance(v, Shared):
        return IMM                    # keys of a dict / elements of a set
    if isinstance(v, IterIn):
        return In(v.cls, v.label + "[*]")
    if isinstance(v, Tup):
        out: Value = IMM
        for x in v.elts:
            out = join(out, x)
        return out
    if isinstance(v, Unknown):
        return v
    return IMM


def inner_of(v: Value, frame: Frame | None = None) -> Value:
    if isinstance(v, Cont):
        return v.inner
    if isinstance(v, Shared):
        levels = None
        if frame is not None:
            cls = frame._owner_cls(v.owner)
            if cls:
                try:
                    levels = frame.I.slot_levels(cls, v.slot)
                except AnalysisError:
                    levels = None
        if levels is None:
            levels = DEFAULT_LEVELS.get(v.slot, 2)
        if v.level + 1 >= levels:
            return IMM
        return Shared(v.owner, v.slot, v.level + 1)
    if isinstance(v, View):
        return inner_of(v.base, frame)
    if isinstance(v, Unknown):
        return v
    if isinstance(v, Tup):
        return elem(v)
    return IMM


DEFAULT_LEVELS = {"_atom_attrs": 2, "_neighbors": 2, "_bond_attrs": 2,
                  "_atom_stereo": 1, "_bond_stereo": 1,
                  "_atom_stereo_change": 2, "_bond_stereo_change": 2}


def shallow(v: Value, why: str, frame: Frame | None = None) -> Value:
    if isinstance(v, (Cont, Shared, View)):
        return Cont(True, inner_of(v, frame), why=why,
                    origin=v.origin if isinstance(v, Cont) else why,
                    cname=v.cname if isinstance(v, Cont) else "dict",
                    kinds=set(v.kinds) if isinstance(v, Cont) else set())
    if isinstance(v, In) and frame is not None:
        # copy.copy(graph): new object, same containers
        o = Obj(v.cls)
        for sl in frame.prog.all_slots(v.cls):
            o.slots[sl] = Shared(v.label, sl, 0)
            o.why[sl] = why
        return o
    if isinstance(v, Obj):
        o = Obj(v.cls)
        o.slots = dict(v.slots)
        o.why = dict(v.why)
        return o
    return v
