"""A7 -- pure computations on literal tables (permutation groups, idealised
coordination figures).  Exact arithmetic (Fractions / ints) only."""
from __future__ import annotations

from fractions import Fraction as Fr
from itertools import permutations

Perm = tuple[int, ...]


def is_perm(row, n: int) -> bool:
    return (isinstance(row, tuple) and len(row) == n
            and sorted(row) == list(range(n)))


def compose(p: Perm, q: Perm) -> Perm:
    """Ordering obtained by applying p, then q, in the repository's
    convention  new = tuple(old[i] for i in perm)."""
    return tuple(p[i] for i in q)


def inverse(p: Perm) -> Perm:
    inv = [0] * len(p)
    for i, x in enumerate(p):
        inv[x] = i
    return tuple(inv)


def identity(n: int) -> Perm:
    return tuple(range(n))


def order(p: Perm) -> int:
    k, q = 1, p
    while q != identity(len(p)):
        q = compose(q, p)
        k += 1
    return k


def closure(gens: set[Perm]) -> set[Perm]:
    gens = set(gens)
    if not gens:
        return set()
    n = len(next(iter(gens)))
    grp = {identity(n)} | gens
    while True:
        new = {compose(a, b) for a in grp for b in grp} - grp
        if not new:
            return grp
        grp |= new


def apply(p: Perm, atoms: tuple) -> tuple:
    return tuple(atoms[i] for i in p)


def orbit(atoms: tuple, group) -> frozenset:
    return frozenset(apply(p, atoms) for p in group)


# --------------------------------------------------------------------------
# idealised figures: position -> exact coordinates (trusted base, taken from
# the class docstrings of stereodescriptors.py and cross-read against the
# perception functions of xyz2graph.py)
# --------------------------------------------------------------------------

def _v(*xs):
    return tuple(Fr(x) for x in xs)


T = Fr(1, 3)
FIGURES: dict[str, dict] = {
    # 0 centre; 1..4 the vertices of a regular tetrahedron
    "Tetrahedral": {
        "points": [_v(0, 0, 0), _v(1, 1, 1), _v(1, -1, -1), _v(-1, 1, -1),
                   _v(-1, -1, 1)],
        "chiral": True,
        "meaning": "0 centre, 1-4 vertices of a regular tetrahedron",
    },
    # 0 centre; ring order 1-2-3-4
    "SquarePlanar": {
        "points": [_v(0, 0, 0), _v(1, 0, 0), _v(0, 1, 0), _v(-1, 0, 0),
                   _v(0, -1, 0)],
        "chiral": False,
        "meaning": "0 centre, 1-2-3-4 consecutive corners of a square",
    },
    # 0 centre; 1,2 axial; 3,4,5 equatorial (equilateral triangle)
    "TrigonalBipyramidal": {
        "points": [_v(T, T, T), _v(T + 1, T + 1, T + 1),
                   _v(T - 1, T - 1, T - 1), _v(1, 0, 0), _v(0, 1, 0),
                   _v(0, 0, 1)],
        "chiral": True,
        "meaning": "0 centre, 1/2 axial, 3-4-5 equatorial",
    },
    # 0 centre; trans pairs {1,2},{3,5},{4,6}; ring order 3-4-5-6
    "Octahedral": {
        "points": [_v(0, 0, 0), _v(0, 0, 1), _v(0, 0, -1), _v(1, 0, 0),
                   _v(0, 1, 0), _v(-1, 0, 0), _v(0, -1, 0)],
        "chiral": True,
        "meaning": "0 centre, 1/2 trans, 3-4-5-6 ring (3/5 and 4/6 trans)",
    },
    # 0,1 on atom 2; 4,5 on atom 3; all coplanar; 0 cis to 4, 1 cis to 5
    "PlanarBond": {
        "points": [_v(-2, 1, 0), _v(-2, -1, 0), _v(-1, 0, 0), _v(1, 0, 0),
                   _v(2, 1, 0), _v(2, -1, 0)],
        "chiral": False,
        "meaning": "0,1 on 2; 4,5 on 3; planar; 0 cis 4, 1 cis 5",
    },
    # 0,1 on atom 2; 4,5 on atom 3; the two ends twisted by 90 degrees
    "AtropBond": {
        "points": [_v(1, 0, -2), _v(-1, 0, -2), _v(0, 0, -1), _v(0, 0, 1),
                   _v(0, 1, 2), _v(0, -1, 2)],
        "chiral": True,
        "meaning": "0,1 on 2; 4,5 on 3; ends twisted (idealised 90 deg)",
    },
}


def _sub(a, b):
    return tuple(x - y for x, y in zip(a, b))


def _dot(a, b):
    return sum(x * y for x, y in zip(a, b))


def _det(a, b, c):
    return (a[0] * (b[1] * c[2] - b[2] * c[1])
            - a[1] * (b[0] * c[2] - b[2] * c[0])
            + a[2] * (b[0] * c[1] - b[1] * c[0]))


def figure_symmetries(points) -> tuple[set[Perm], set[Perm]]:
    """(proper, improper) position permutations induced by the isometries of
    the point set.  A permutation p (new[k] = old[p[k]]) is induced by an
    isometry iff it preserves all pairwise squared distances; for a
    non-planar figure it is proper iff it preserves the sign of every
    non-zero signed volume.  For a planar figure every such permutation is
    induced both by a proper and by an improper operation."""
    n = len(points)
    d2 = [[_dot(_sub(points[i], points[j]), _sub(points[i], points[j]))
           for j in range(n)] for i in range(n)]
    cen = tuple(sum(p[k] for p in points) / n for k in range(3))
    rel = [_sub(p, cen) for p in points]
    triples = [(i, j, k) for i in range(n) for j in range(i + 1, n)
               for k in range(j + 1, n) if _det(rel[i], rel[j], rel[k]) != 0]
    planar = not triples
    proper: set[Perm] = set()
    improper: set[Perm] = set()
    for p in permutations(range(n)):
        if any(d2[p[i]][p[j]] != d2[i][j]
               for i in range(n) for j in range(i + 1, n)):
            continue
        if planar:
            proper.add(p)
            improper.add(p)
            continue
        i, j, k = triples[0]
        s0 = _det(rel[i], rel[j], rel[k])
        s1 = _det(rel[p[i]], rel[p[j]], rel[p[k]])
        assert abs(s0) == abs(s1)
        (proper if s0 == s1 else improper).add(p)
    return proper, improper
