"""Run-time caches outside the rule inventory.

A module / class level container that is not in sa/baseline_functions.txt and
that package functions *write at run time* is new shared state.  The shape
rules cannot see what comes out of it, so a finding in a function that reads
it is normally withdrawn as an analysis error (sa/main._downgrade_opaque).
Two defects of such a cache are decidable from the code, and when one is
present the finding stands:

R-CACHE-KEY     the value stored under a key depends on an input the key does
                not determine (dataflow over the storing function: the
                dependency roots of the value -- parameters, components of a
                destructuring, attributes of self -- must all be covered by
                the roots of the key).  Two different requests then share one
                entry.
R-CACHE-ALIAS   the object taken out of the cache is modified in place and
                handed to the caller: every caller gets the same object, the
                next call overwrites the previous result.

Nothing here looks at values; both are def-use facts of the storing function.
"""
from __future__ import annotations

import ast

from .core import norm

SHAPE_ONLY = {"empty_like", "zeros_like", "ones_like"}
INPLACE_METHODS = {"fill", "sort", "append", "extend", "add", "update",
                   "clear", "pop", "remove", "insert", "setdefault",
                   "discard", "popitem", "resize", "put", "itemset"}
INPLACE_FUNCS = {"copyto", "fill_diagonal", "place", "put", "putmask"}


def _terminal(q: str) -> tuple[str, bool]:
    rhs = q.split(":=")[1]
    return rhs.split(".")[-1], "." in rhs


def _is_table(node: ast.AST, name: str, attr_form: bool) -> bool:
    if attr_form:
        return isinstance(node, ast.Attribute) and node.attr == name
    return isinstance(node, ast.Name) and node.id == name


def table_writes(prog, q: str):
    """[(fi, kind, key node | None, value node | None, stmt)] for run-time
    writes to the table q inside package functions."""
    name, attr_form = _terminal(q)
    out = []
    for fi in prog.functions.values():
        # locals that only ever name the table: cache = self._orbit_cache
        binds: dict[str, list] = {}
        for st in ast.walk(fi.node):
            if isinstance(st, ast.Assign):
                for t in st.targets:
                    if isinstance(t, ast.Name):
                        binds.setdefault(t.id, []).append(st.value)
        alias = {x for x, vs in binds.items()
                 if all(_is_table(v, name, attr_form) for v in vs)}
        if alias:
            class _A(ast.NodeTransformer):
                def visit_Name(self, n):
                    if n.id in alias and isinstance(n.ctx, ast.Load):
                        if attr_form:
                            return ast.copy_location(ast.Attribute(
                                ast.Name("self", ast.Load()), name,
                                ast.Load()), n)
                        return ast.copy_location(ast.Name(name, ast.Load()), n)
                    return n
            from .core import clone
            view = _A().visit(clone(fi.node))
            ast.fix_missing_locations(view)
        else:
            view = fi.node
        for st in ast.walk(view):
            if isinstance(st, (ast.Assign, ast.AnnAssign, ast.AugAssign)):
                targets = st.targets if isinstance(st, ast.Assign) \
                    else [st.target]
                for t in targets:
                    if isinstance(t, ast.Subscript) and _is_table(
                            t.value, name, attr_form):
                        out.append((fi, "item", t.slice, st.value, st))
                    elif attr_form and isinstance(t, ast.Attribute) and \
                            t.attr == name:
                        out.append((fi, "rebind", None, st.value, st))
            elif isinstance(st, ast.Global) and not attr_form and \
                    name in st.names:
                out.append((fi, "rebind", None, None, st))
            elif isinstance(st, ast.Call) and isinstance(
                    st.func, ast.Attribute) and _is_table(
                    st.func.value, name, attr_form):
                if st.func.attr == "setdefault" and len(st.args) == 2:
                    out.append((fi, "item", st.args[0], st.args[1], st))
                elif st.func.attr in ("update", "clear", "pop", "popitem",
                                      "append", "add", "extend"):
                    out.append((fi, "bulk", None, None, st))
    return out


class _Deps:
    """Dependency roots of an expression inside one function."""

    def __init__(self, fn: ast.FunctionDef, selfname: str | None):
        self.fn = fn
        self.selfname = selfname
        a = fn.args
        self.params = {x.arg for x in a.posonlyargs + a.args + a.kwonlyargs}
        if a.vararg:
            self.params.add(a.vararg.arg)
        if a.kwarg:
            self.params.add(a.kwarg.arg)
        # plain single-name assignments are looked through; everything bound
        # by destructuring, a loop or a with stays a root of its own
        self.simple: dict[str, list[ast.AST]] = {}
        self.atomic: set[str] = set()
        for n in ast.walk(fn):
            if isinstance(n, ast.Assign):
                for t in n.targets:
                    if isinstance(t, ast.Name):
                        self.simple.setdefault(t.id, []).append(n.value)
                    else:
                        for x in ast.walk(t):
                            if isinstance(x, ast.Name) and isinstance(
                                    x.ctx, ast.Store):
                                self.atomic.add(x.id)
            elif isinstance(n, ast.AnnAssign) and n.value is not None and \
                    isinstance(n.target, ast.Name):
                self.simple.setdefault(n.target.id, []).append(n.value)
            elif isinstance(n, ast.AugAssign) and isinstance(
                    n.target, ast.Name):
                self.simple.setdefault(n.target.id, []).append(n.value)
            elif isinstance(n, ast.NamedExpr):
                self.simple.setdefault(n.target.id, []).append(n.value)
            elif isinstance(n, (ast.For, ast.withitem)):
                t = n.target if isinstance(n, ast.For) else n.optional_vars
                if t is not None:
                    for x in ast.walk(t):
                        if isinstance(x, ast.Name):
                            self.atomic.add(x.id)

    def of(self, e: ast.AST, _seen: frozenset = frozenset(),
           table: tuple[str, bool] | None = None) -> set[str]:
        out: set[str] = set()
        bound: set[str] = set()
        for n in ast.walk(e):
            if isinstance(n, ast.comprehension):
                for x in ast.walk(n.target):
                    if isinstance(x, ast.Name):
                        bound.add(x.id)
            elif isinstance(n, ast.Lambda):
                bound |= {x.arg for x in n.args.args}
        skip: set[int] = set()

        def visit(n: ast.AST):
            if id(n) in skip:
                return
            if isinstance(n, ast.Call):
                f = n.func
                fname = f.attr if isinstance(f, ast.Attribute) else (
                    f.id if isinstance(f, ast.Name) else None)
                if fname in SHAPE_ONLY and len(n.args) == 1:
                    # the result depends on the argument's shape only
                    for r in self.of(n.args[0], _seen, table):
                        out.add(r + ".shape")
                    return
                # the callee name itself is no data dependency
                if isinstance(f, ast.Name):
                    for a in list(n.args) + [k.value for k in n.keywords]:
                        visit(a)
                    return
                if isinstance(f, ast.Attribute):
                    visit(f.value)
                    for a in list(n.args) + [k.value for k in n.keywords]:
                        visit(a)
                    return
            if isinstance(n, ast.Attribute):
                path = norm(n)
                base = n
                while isinstance(base, ast.Attribute):
                    base = base.value
                if isinstance(base, ast.Name) and (
                        base.id == self.selfname or base.id in self.params
                        or base.id in self.atomic) and base.id not in bound \
                        and base.id not in self.simple:
                    if table and _is_table(n, *table):
                        return
                    out.add(path)
                    return
                visit(n.value)
                return
            if isinstance(n, ast.Name):
                if not isinstance(n.ctx, ast.Load) or n.id in bound:
                    return
                if table and _is_table(n, *table):
                    return
                if n.id in self.simple and n.id not in _seen:
                    for v in self.simple[n.id]:
                        out.update(self.of(v, _seen | {n.id}, table))
                    if n.id in self.params:
                        out.add(n.id)
                    return
                if n.id in self.params or n.id in self.atomic or \
                        n.id == self.selfname:
                    out.add(n.id)
                return
            for c in ast.iter_child_nodes(n):
                visit(c)

        visit(e)
        return out


def _covered(dep: str, key_roots: set[str], class_attrs: set[str],
             selfname: str | None) -> bool:
    parts = dep.split(".")
    for i in range(len(parts), 0, -1):
        if ".".join(parts[:i]) in key_roots:
            return True
    if selfname and len(parts) >= 2 and parts[0] == selfname and \
            parts[1] in class_attrs:
        # a class level constant is determined by the class of self
        return any(k in key_roots for k in (f"type({selfname})",
                                            f"{selfname}.__class__"))
    return False


def _key_roots(d: _Deps, key: ast.AST, table) -> set[str]:
    roots = d.of(key, table=table)
    for n in ast.walk(key):
        if isinstance(n, ast.Call) and isinstance(n.func, ast.Name) and \
                n.func.id == "type" and len(n.args) == 1:
            roots.add(f"type({norm(n.args[0])})")
    # look through a key held in a local: key = (a, b)
    if isinstance(key, ast.Name) and key.id in d.simple:
        for v in d.simple[key.id]:
            roots |= _key_roots(d, v, table)
    return roots


def cache_defects(prog, q: str) -> list[str]:
    """Decidable defects of the run-time cache q (see module docstring);
    [] when the table is never written at run time or no defect is visible."""
    name, attr_form = _terminal(q)
    table = (name, attr_form)
    class_attrs: set[str] = set()
    for ci in prog.classes.values():
        class_attrs |= set(ci.assigns)
    out: list[str] = []
    for fi, kind, key, value, st in table_writes(prog, q):
        if kind != "item" or key is None or value is None:
            continue
        selfname = None
        if fi.cls is not None and not fi.is_staticmethod() and fi.params():
            selfname = fi.params()[0]
        d = _Deps(fi.node, selfname)
        kroots = _key_roots(d, key, table)
        vroots = d.of(value, table=table)
        missing = sorted(r for r in vroots
                         if not _covered(r, kroots, class_attrs, selfname))
        # validated entries: the stored value carries a witness of an input
        # (`table[k] = (source, result)`) and a hit is only used after the
        # witness was compared with the current input
        # (`if stored_source is not source: recompute`)
        if missing:
            from_table: set[str] = set()
            for n in ast.walk(fi.node):
                if isinstance(n, ast.Assign) and any(
                        _is_table(x, name, attr_form)
                        for x in ast.walk(n.value)):
                    for t in n.targets:
                        for x in ast.walk(t):
                            if isinstance(x, ast.Name):
                                from_table.add(x.id)
            witnessed = set()
            for n in ast.walk(fi.node):
                if isinstance(n, ast.Compare) and len(n.ops) == 1 and \
                        isinstance(n.ops[0], (ast.Is, ast.IsNot, ast.Eq,
                                              ast.NotEq)):
                    sides = [n.left, n.comparators[0]]
                    txt = [norm(x) for x in sides]
                    for a, b in ((0, 1), (1, 0)):
                        if isinstance(sides[a], ast.Name) and \
                                sides[a].id in from_table and txt[b] in missing:
                            witnessed.add(txt[b])
            if witnessed:
                rest = [m for m in missing if m not in witnessed]
                if rest:
                    out.append(
                        f"[R-CACHE-UNDECIDED] {fi.short}: `{norm(st, 90)}`: "
                        f"hits are validated against {sorted(witnessed)}, "
                        f"whether that also fixes {rest} is not decided")
                missing = []
        if missing:
            out.append(
                f"[R-CACHE-KEY] {fi.short}: `{norm(st, 90)}` stores a value "
                f"that depends on {missing} under a key that only determines "
                f"{sorted(kroots)}: requests that differ in {missing} share "
                "one entry")
        # alias: the cached object is modified in place and returned
        held = set()
        for n in ast.walk(fi.node):
            if isinstance(n, ast.Assign):
                reads = any(_is_table(x, name, attr_form)
                            for x in ast.walk(n.value)) or any(
                    isinstance(t, ast.Subscript) and _is_table(
                        t.value, name, attr_form) for t in n.targets)
                if reads:
                    for t in n.targets:
                        if isinstance(t, ast.Name):
                            held.add(t.id)
        mutated = set()
        for n in ast.walk(fi.node):
            if isinstance(n, (ast.Assign, ast.AugAssign)):
                ts = n.targets if isinstance(n, ast.Assign) else [n.target]
                for t in ts:
                    base = t
                    sub = False
                    while isinstance(base, ast.Subscript):
                        base, sub = base.value, True
                    if isinstance(base, ast.Name) and base.id in held and (
                            sub or isinstance(n, ast.AugAssign)):
                        mutated.add(base.id)
            elif isinstance(n, ast.Call):
                f = n.func
                if isinstance(f, ast.Attribute) and f.attr in INPLACE_METHODS \
                        and isinstance(f.value, ast.Name) and \
                        f.value.id in held:
                    mutated.add(f.value.id)
                fname = f.attr if isinstance(f, ast.Attribute) else (
                    f.id if isinstance(f, ast.Name) else None)
                if fname in INPLACE_FUNCS and n.args and isinstance(
                        n.args[0], ast.Name) and n.args[0].id in held:
                    mutated.add(n.args[0].id)
        returned = {r.value.id for r in ast.walk(fi.node)
                    if isinstance(r, (ast.Return, ast.Yield))
                    and isinstance(r.value, ast.Name)}
        for v in sorted(mutated & returned):
            out.append(
                f"[R-CACHE-ALIAS] {fi.short}: `{v}` is an object held in the "
                f"run-time cache `{name}`, is modified in place and returned: "
                "every caller receives the same object and the next call "
                "overwrites the previous result")
    return sorted(set(out))


def is_runtime_cache(prog, q: str) -> bool:
    return bool(table_writes(prog, q))


def touching(prog, q: str) -> set[str]:
    """Functions that read or write the table q."""
    name, attr_form = _terminal(q)
    out = set()
    for fi in prog.functions.values():
        for n in ast.walk(fi.node):
            if _is_table(n, name, attr_form):
                out.add(fi.qual)
                break
    return out


def report(prog, res, prop: str) -> None:
    """R-CACHE-KEY / R-CACHE-ALIAS as obligations of property `prop`: every
    run-time cache outside the inventory that a function reachable from the
    property's anchors reads or writes."""
    from .reach import reachable
    res.rule("R-CACHE-KEY", "a run-time cache outside the rule inventory "
             "that the property's anchored functions can reach stores each "
             "value under a key that determines everything the value depends "
             "on (def-use roots of the value are covered by the roots of the "
             "key)")
    res.rule("R-CACHE-ALIAS", "an object held in such a cache is not modified "
             "in place and handed to the caller")
    new_names = prog.norm_report.get("new_names", [])
    caches_ = [q for q in new_names if is_runtime_cache(prog, q)]
    if not caches_:
        res.ok("R-CACHE-KEY", "no run-time cache outside the inventory")
        res.ok("R-CACHE-ALIAS", "no run-time cache outside the inventory")
        return
    reach = reachable(prog, prop)
    for q in caches_:
        users = touching(prog, q)
        if not (users & reach):
            continue
        defects = cache_defects(prog, q)
        loc = ""
        for u in sorted(users):
            loc = prog.functions[u].loc()
            break
        if not defects:
            res.ok("R-CACHE-KEY", f"{q}: key determines the value", loc)
            res.ok("R-CACHE-ALIAS", f"{q}: cached objects are not modified",
                   loc)
            continue
        for d in defects:
            if d.startswith("[R-CACHE-UNDECIDED]"):
                res.unrecognised("R-CACHE-KEY", f"{q}: validated cache", loc,
                                 d.split("] ", 1)[1])
                continue
            rule = "R-CACHE-ALIAS" if d.startswith("[R-CACHE-ALIAS]") \
                else "R-CACHE-KEY"
            fn = d.split("] ", 1)[1].split(":", 1)[0]
            res.bad(rule, f"{q} in {fn}", loc, d.split("] ", 1)[1],
                    instance=f"{q}: {rule}")
