"""Rules on algorithms/color_refine.py (C02, C03, C16)."""
from __future__ import annotations

import ast
from .core import utext
import re

from .core import (AnalysisError, DefUse, Program, ancestors, call_name, norm,
                   parent)
from .report import Result

MOD = "algorithms.color_refine"
TUPLE_H = "numpy_int_tuple_hash"
MSET_H = "numpy_int_multiset_hash"
COLOUR_ARRAYS = ("atom_hash", "prev_atom_hash", "init_atom_hash",
                 "color_array", "atom_labels")


def _fn(prog, name):
    return prog.fn(f"{MOD}:{name}")


# ---------------------------------------------------------------------------
def check_multiset_def(prog: Program, res: Result) -> None:
    res.rule("R-MULTISET-DEF", "numpy_int_multiset_hash sorts along the last "
             "axis and then applies the tuple hash (so it is order-free "
             "exactly along the aggregated axis)")
    fi = _fn(prog, MSET_H)
    arr = fi.params()[0]
    du = DefUse(fi.node)
    rets = [n for n in ast.walk(fi.node) if isinstance(n, ast.Return)]
    ok = False
    why = "no return of the tuple hash of the sorted array"
    for r in rets:
        v = r.value
        if isinstance(v, ast.Call) and call_name(v) == TUPLE_H and v.args:
            deps = du.dep_nodes(v.args[0])
            sorts = [n for d in deps for n in ast.walk(d)
                     if isinstance(n, ast.Call) and call_name(n) in (
                         "np.sort", "numpy.sort", "sorted")]
            for sc in sorts:
                kw = {k.arg: norm(k.value) for k in sc.keywords}
                if norm(sc.args[0]) == arr and kw.get("axis", "-1") == "-1":
                    ok = True
                elif norm(sc.args[0]) == arr:
                    why = f"sorts along axis {kw.get('axis')}, not the last"
    inst = "numpy_int_multiset_hash = tuple hash of np.sort(arr, axis=-1)"
    if ok:
        res.ok("R-MULTISET-DEF", inst, fi.loc())
    else:
        res.bad("R-MULTISET-DEF", f"{fi.short}", fi.loc(), f"{inst}: {why}",
                instance=inst)
    # the tuple hash must consume positions in order (idx-dependent multiplier)
    tf = _fn(prog, TUPLE_H)
    inst = "numpy_int_tuple_hash folds arr[..., idx] with a position-dependent multiplier"
    arr0 = tf.params()[0]
    single = {}
    for n in ast.walk(tf.node):
        if isinstance(n, ast.Assign) and len(n.targets) == 1 and isinstance(
                n.targets[0], ast.Name):
            single.setdefault(n.targets[0].id, []).append(n.value)
    verdict, why = None, "no `for i, m in enumerate(multipliers)` loop"
    for loop in ast.walk(tf.node):
        if not (isinstance(loop, ast.For) and isinstance(loop.iter, ast.Call)
                and call_name(loop.iter) == "enumerate" and loop.iter.args
                and isinstance(loop.target, ast.Tuple)
                and len(loop.target.elts) == 2
                and all(isinstance(e, ast.Name) for e in loop.target.elts)):
            continue
        I, M = (e.id for e in loop.target.elts)
        src = loop.iter.args[0]
        if isinstance(src, ast.Name) and len(single.get(src.id, [])) == 1:
            src = single[src.id][0]
        varying = isinstance(src, ast.Call) and (call_name(src) or "").endswith(
            "accumulate")
        mixes = [b for b in loop.body if isinstance(b, ast.AugAssign)
                 and isinstance(b.op, ast.BitXor)
                 and norm(b.value) == f"{arr0}[..., {I}]"]
        mults = [b for b in loop.body if isinstance(b, ast.AugAssign)
                 and isinstance(b.op, ast.Mult) and norm(b.value) == M]
        commut = [b for b in loop.body if isinstance(b, ast.AugAssign)
                  and isinstance(b.op, (ast.Add, ast.BitXor, ast.BitOr))
                  and f"{arr0}[..., {I}]" in norm(b.value)]
        if mixes and mults and norm(mixes[0].target) == norm(
                mults[0].target) and varying:
            verdict = True
        elif commut and not mults:
            verdict, why = False, (
                f"`{norm(commut[0])}` without a per-position multiplier is "
                "commutative: the tuple hash no longer depends on the order")
        elif mixes and mults and not varying:
            verdict, why = None, (f"multipliers `{norm(src, 60)}` not "
                                  "recognised as position dependent")
    if verdict is True:
        res.ok("R-MULTISET-DEF", inst, tf.loc())
    elif verdict is False:
        res.bad("R-MULTISET-DEF", f"{tf.short} fold", tf.loc(),
                f"{inst}: {why}", instance=inst)
    else:
        res.unrecognised("R-MULTISET-DEF", inst, tf.loc(), why)


# ---------------------------------------------------------------------------
def _hash_calls(fi):
    return [n for n in ast.walk(fi.node) if isinstance(n, ast.Call)
            and call_name(n) in (TUPLE_H, MSET_H)]


def classify_axis(fi, call: ast.Call, du: DefUse) -> tuple[str, str]:
    """(provenance, ORDERED|UNORDERED|CONST|INDEX|?) of the last axis of the
    hashed argument."""
    arg = call.args[0]
    t = norm(arg)
    # two levels of definitions are enough (and keep unrelated data out)
    lvl1 = [d for n in ast.walk(arg) if isinstance(n, ast.Name)
            for d in du.defs.get(n.id, ())]
    lvl2 = [d for e in lvl1 for n in ast.walk(e) if isinstance(n, ast.Name)
            for d in du.defs.get(n.id, ())]
    deps = [arg] + lvl1 + lvl2
    dep_txt = " || ".join(norm(d, 300) for d in deps)
    if isinstance(arg, ast.Name) and re.fullmatch(r"(arr_)?perm_group", arg.id):
        return ("constant permutation table", "CONST")
    # nested hash of a constant table
    if isinstance(arg, ast.Call) and call_name(arg) in (TUPLE_H, MSET_H):
        inner = classify_axis(fi, arg, du)
        return inner
    if isinstance(arg, ast.Call) and re.fullmatch(
            r"color_refine_\w+", call_name(arg) or ""):
        return ("all atoms of the graph", "UNORDERED")
    if isinstance(arg, ast.Subscript) and norm(arg.value) in COLOUR_ARRAYS:
        idx = arg.slice
        idx_deps = " || ".join(norm(d, 300) for d in du.dep_nodes(idx))
        if re.search(r"\[\.\.\., *\w*perm_group\]", idx_deps) or \
                "perm_atoms" in norm(idx):
            return ("positions inside one permutation image", "ORDERED")
        if "bonded_to" in idx_deps:
            return ("bonded neighbours", "UNORDERED")
        return (f"index `{norm(idx)}` of unknown provenance", "?")
    if isinstance(arg, ast.Name):
        name = arg.id
        # out= buffer of an ordered tuple hash in the same loop -> images axis
        for other in _hash_calls(fi):
            if other is call:
                continue
            kw = {k.arg: norm(k.value) for k in other.keywords}
            if "out" not in kw and len(other.args) >= 2:
                kw["out"] = norm(other.args[1])    # (arr, out) positionally
            if kw.get("out") == name:
                prov, kind = classify_axis(fi, other, du)
                if kind == "ORDERED" and "permutation image" in prov:
                    return ("images of the permutation group", "UNORDERED")
        if "ptr" in dep_txt and ("pntr" in dep_txt or "stereo_hash_pointer"
                                 in dep_txt or "ptr_l" in dep_txt):
            return ("stereo contributions of one atom", "UNORDERED")
        if "enumerate(color_iters)" in dep_txt or "color_iters" in dep_txt:
            return ("(reactant, product, TS) role axis", "ORDERED")
        if re.search(r"color_refine_\w+\(", dep_txt):
            return ("all atoms of the graph", "UNORDERED")
        if "perm_group" in dep_txt and "atom_hash" not in dep_txt:
            return ("constant permutation table", "CONST")
        if name in ("ids", "nbrs", "atoms", "perm_atoms", "nbr_atoms") or \
                "arr_id_dict" in dep_txt and "atom_hash" not in dep_txt:
            return ("an index / identifier array", "INDEX")
    if isinstance(arg, ast.Call) and call_name(arg) in (
            "np.stack", "np.column_stack", "np.array", "np.concatenate") or \
            isinstance(arg, ast.Tuple):
        # an explicit, fixed-position tuple of colour arrays
        return ("fixed positions (own colour, aggregated neighbours)",
                "ORDERED")
    if "perm_group" in dep_txt and "atom_hash" not in dep_txt and \
            "color" not in dep_txt:
        return ("constant permutation table", "CONST")
    return (f"`{t}` of unknown provenance", "?")


def check_aggregation(prog: Program, res: Result, want_rules=("R-AGG",
                                                              "R-ID-LEAK")):
    res.rule("R-AGG", "every colour aggregation uses the aggregator its axis "
             "requires: unordered axes (bonded neighbours, images of a "
             "permutation group, stereo contributions of an atom, all atoms) "
             "-> multiset hash; ordered axes (positions inside one image, "
             "the (reactant, product, TS) roles, fixed (own, neighbours) "
             "pairs) -> tuple hash")
    res.rule("R-ID-LEAK", "only colours are hashed: an index / identifier "
             "array is never the data argument of a hash primitive")
    n = 0
    for fname in ("morgan_generator", "stereo_morgan_generator",
                  "_reaction_generator", "color_refine_hash_mg",
                  "color_refine_hash_smg", "color_refine_hash_crg",
                  "color_refine_hash_scrg"):
        fi = _fn(prog, fname)
        du = DefUse(fi.node)
        for call in _hash_calls(fi):
            # skip the inner call of a nested constant hash (counted once)
            par = parent(call)
            if isinstance(par, ast.Call) and call_name(par) in (TUPLE_H, MSET_H):
                continue
            prov, kind = classify_axis(fi, call, du)
            fn = call_name(call)
            inst = f"{fi.short}: {norm(call, 90)} [{prov}]"
            if kind == "CONST":
                continue
            n += 1
            if kind == "?":
                res.error(f"R-AGG {inst}: axis provenance not classifiable "
                          f"at {fi.loc(call)}")
            elif kind == "INDEX":
                res.bad("R-ID-LEAK", f"{fi.short}: {norm(call, 90)}",
                        fi.loc(call), f"{fi.short}: `{norm(call, 90)}` "
                        "hashes identifiers, so the colour depends on the "
                        "naming of the atoms", instance=inst)
            elif kind == "UNORDERED" and fn != MSET_H:
                res.bad("R-AGG", f"{fi.short}: {norm(call, 90)}", fi.loc(call),
                        f"{fi.short}: `{norm(call, 90)}` aggregates {prov} "
                        "with the ORDER-DEPENDENT tuple hash; the result "
                        "depends on iteration / insertion order",
                        instance=inst)
            elif kind == "ORDERED" and fn != TUPLE_H:
                res.bad("R-AGG", f"{fi.short}: {norm(call, 90)}", fi.loc(call),
                        f"{fi.short}: `{norm(call, 90)}` aggregates {prov} "
                        "with the order-free multiset hash; different "
                        "arrangements / a reaction and its reverse collide",
                        instance=inst)
            else:
                res.ok("R-AGG", inst, fi.loc(call))
                res.ok("R-ID-LEAK", inst, fi.loc(call))
    res.need("R-AGG", n, 10, "colour aggregation call sites")


# ---------------------------------------------------------------------------
def check_own_colour(prog: Program, res: Result) -> None:
    res.rule("R-OWN-COLOUR", "every colour update `atom_hash[ids] = E` is "
             "data-dependent on the atoms' own previous colour "
             "(atom_hash[ids]) as well as on the neighbours'; in the stereo "
             "generator the atom itself is position 0 of every (real or "
             "synthesised) descriptor tuple, position 0 is fixed by every "
             "synthesised permutation and positions are hashed in order")
    fi = _fn(prog, "morgan_generator")
    du = DefUse(fi.node)
    stores = [n for n in ast.walk(fi.node) if isinstance(n, ast.Assign)
              and isinstance(n.targets[0], ast.Subscript)
              and norm(n.targets[0].value) == "atom_hash"]
    if not stores:
        raise AnalysisError("morgan_generator: colour update vanished")
    for st in stores:
        idx = norm(st.targets[0].slice)
        inst = f"{fi.short}: {norm(st, 90)}"
        nodes = []
        # closure over locals defined INSIDE the refinement loop only
        loop = next((a for a in ancestors(st) if isinstance(a, ast.For)), None)
        work = [st.value]
        seen = set()
        while work:
            e = work.pop()
            nodes.append(e)
            for nm in ast.walk(e):
                if isinstance(nm, ast.Name) and nm.id not in seen:
                    seen.add(nm.id)
                    for d in du.defs.get(nm.id, ()):
                        if loop is not None and any(d is x for x in ast.walk(loop)):
                            work.append(d)
        own = any(isinstance(n, ast.Subscript)
                  and norm(n.value) == "atom_hash" and norm(n.slice) == idx
                  and isinstance(n.ctx, ast.Load)
                  for e in nodes for n in ast.walk(e))
        nbr = any(isinstance(n, ast.Subscript)
                  and norm(n.value) == "atom_hash" and norm(n.slice) != idx
                  for e in nodes for n in ast.walk(e))
        if own and nbr:
            res.ok("R-OWN-COLOUR", inst, fi.loc(st))
        else:
            miss = "the atoms' own colour" if not own else "the neighbours' colours"
            res.bad("R-OWN-COLOUR", f"{fi.short}: {norm(st, 90)}", fi.loc(st),
                    f"{fi.short}: `{norm(st, 90)}` does not depend on {miss}: "
                    "after one round the element of an atom is forgotten "
                    "(C-O-C-O == O-O-C-C, hash(HF+NaCl) == hash(HCl+NaF))",
                    instance=inst)
    # stereo generator ---------------------------------------------------------
    fs = _fn(prog, "stereo_morgan_generator")
    txt = utext(fs.node)
    inst = "stereo_morgan_generator: synthesised descriptor starts with the atom"
    syn = [n for n in ast.walk(fs.node) if isinstance(n, ast.Assign)
           and isinstance(n.value, ast.Tuple)
           and any(isinstance(x, ast.Starred) and "bonded_to(" in norm(x)
                   for x in n.value.elts)]
    if not syn:
        res.unrecognised("R-OWN-COLOUR", inst, fs.loc(),
                         "synthesised (atom, *bonded_to(atom)) tuple")
    else:
        v = syn[0].value
        star = next(x for x in v.elts if isinstance(x, ast.Starred))
        who = norm(star.value.args[0]) if isinstance(
            star.value, ast.Call) and star.value.args else "?"
        if norm(v.elts[0]) == who:
            res.ok("R-OWN-COLOUR", inst, fs.loc(syn[0]))
        else:
            res.bad("R-OWN-COLOUR", f"{fs.short}: {norm(syn[0], 70)}",
                    fs.loc(syn[0]), f"{inst}: `{norm(syn[0], 80)}` does not "
                    f"put `{who}` itself at position 0, the only position "
                    "the synthesised permutations keep fixed: the atom's own "
                    "colour is permuted away", instance=inst)
    inst = "stereo_morgan_generator: synthesised permutations fix position 0"
    syn_name = norm(syn[0].targets[0]) if syn else None
    single = {}
    for n in ast.walk(fs.node):
        if isinstance(n, ast.Assign) and len(n.targets) == 1 and isinstance(
                n.targets[0], ast.Name):
            single.setdefault(n.targets[0].id, []).append(n.value)
    verdict = None
    for n in ast.walk(fs.node):
        if not (isinstance(n, (ast.GeneratorExp, ast.ListComp)) and len(
                n.generators) == 1 and not n.generators[0].ifs
                and isinstance(n.elt, ast.Tuple) and len(n.elt.elts) == 2
                and isinstance(n.elt.elts[1], ast.Starred)
                and isinstance(n.generators[0].target, ast.Name)
                and norm(n.elt.elts[1].value) == n.generators[0].target.id):
            continue
        it = n.generators[0].iter
        if isinstance(it, ast.Name) and len(single.get(it.id, [])) == 1:
            it = single[it.id][0]
        m = re.fullmatch(r"(?:itertools\.)?permutations\(range\((\d+), "
                         r"len\((\w+)\)\)\)", norm(it))
        if not m or (syn_name and m.group(2) != syn_name):
            continue
        first = norm(n.elt.elts[0])
        if first == "0" and m.group(1) == "1":
            verdict = True
        else:
            verdict = (f"`{norm(n, 80)}` over `{norm(it, 60)}` does not keep "
                       "position 0 (the atom itself) fixed")
    if verdict is True:
        res.ok("R-OWN-COLOUR", inst, fs.loc())
    elif verdict:
        res.bad("R-OWN-COLOUR", f"{fs.short}: synthesised permutations",
                fs.loc(), f"{inst}: {verdict}", instance=inst)
    else:
        res.unrecognised("R-OWN-COLOUR", inst, fs.loc(),
                         "construction of the synthesised permutation group")
    inst = "stereo_morgan_generator: every atom gets an atom-stereo contribution"
    def complement_loop() -> bool:
        """a loop (or comprehension) over `set(<graph>.atoms) - <atoms that
        have a descriptor>`, under any names"""
        diffs = {}
        for n in ast.walk(fs.node):
            if isinstance(n, ast.Assign) and len(n.targets) == 1 and \
                    isinstance(n.targets[0], ast.Name) and isinstance(
                    n.value, ast.BinOp) and isinstance(n.value.op, ast.Sub) \
                    and ".atoms" in norm(n.value.left):
                diffs[n.targets[0].id] = n
        for n in ast.walk(fs.node):
            if isinstance(n, (ast.For, ast.comprehension)):
                it = n.iter
                if isinstance(it, ast.Name) and it.id in diffs:
                    return True
                if isinstance(it, ast.BinOp) and isinstance(
                        it.op, ast.Sub) and ".atoms" in norm(it.left):
                    return True
        return False
    if ("atoms_without_atom_stereo = set(smg.atoms) - atoms_with_atom_stereo"
            in txt and "for atom in atoms_without_atom_stereo" in txt) or \
            complement_loop():
        res.ok("R-OWN-COLOUR", inst, fs.loc())
    elif re.search(r"\.atoms\b", txt) and ("- " in txt or "difference" in txt
                                            or "not in" in txt):
        res.unrecognised("R-OWN-COLOUR", inst, fs.loc(),
                         "how the atoms without a descriptor are enumerated")
    else:
        res.bad("R-OWN-COLOUR", f"{fs.short}: coverage", fs.loc(),
                f"{inst}: atoms without a descriptor are not given a "
                "synthesised one", instance=inst)


# ---------------------------------------------------------------------------
def check_parity_norm(prog: Program, res: Result) -> None:
    res.rule("R-PARITY-NORM", "both descriptor loops of the stereo generator "
             "(atom, bond) skip parity None and replace a parity -1 "
             "descriptor by its _inverted_atoms() ordering (parity +1 / 0 "
             "keep their own ordering); the two loops agree")
    fs = _fn(prog, "stereo_morgan_generator")
    forms = []
    for loop in ast.walk(fs.node):
        if not isinstance(loop, ast.For):
            continue
        it = norm(loop.iter)
        if it not in ("smg.atom_stereo.items()", "smg.bond_stereo.items()"):
            continue
        guard = [n for n in loop.body if isinstance(n, ast.If)]
        inst = f"{fs.short}: loop over {it}"
        if not (isinstance(loop.target, ast.Tuple) and len(
                loop.target.elts) == 2 and isinstance(
                loop.target.elts[1], ast.Name)):
            res.unrecognised("R-PARITY-NORM", inst, fs.loc(loop),
                             "loop target is not (key, descriptor)")
            continue
        S = norm(loop.target.elts[1])
        unguarded = [b for b in loop.body if not isinstance(b, ast.If)
                     and any(isinstance(x, ast.Attribute) and norm(
                         x.value) == S for x in ast.walk(b))]
        if len(guard) == 1 and norm(guard[0].test) == f"{S}.parity is None" \
                and any(isinstance(b, ast.Continue) for b in guard[0].body):
            # `if s.parity is None: continue` + rest of the body
            rest = ast.If(test=ast.Constant(True), body=[
                b for b in loop.body if b is not guard[0]], orelse=[])
            guard = [rest]
            unguarded = []
        elif len(guard) != 1 or unguarded or norm(
                guard[0].test) != f"{S}.parity is not None":
            if any(f"{S}.parity" in norm(g.test) for g in guard) and not \
                    unguarded:
                res.unrecognised("R-PARITY-NORM", inst, fs.loc(loop),
                                 "guard on the parity not recognised: "
                                 f"{[norm(g.test, 60) for g in guard]}")
            else:
                res.bad("R-PARITY-NORM", f"{fs.short}: {it} guard",
                        fs.loc(loop),
                        f"{inst}: descriptors with parity None are not "
                        f"skipped by `if {S}.parity is not None`",
                        instance=inst)
            continue
        asg = [n for n in ast.walk(guard[0]) if isinstance(n, ast.Assign)
               and isinstance(n.value, ast.IfExp)]
        if len(asg) != 1:
            # the plain ordering handed on unchanged: no normalisation at all
            plain = [c for c in ast.walk(guard[0]) if isinstance(c, ast.Call)
                     and isinstance(c.func, ast.Attribute)
                     and c.func.attr == "append"
                     and any(isinstance(x, ast.Attribute) and x.attr == "atoms"
                             and norm(x.value) == S
                             for a_ in c.args for x in ast.walk(a_))]
            plain_def = [n for n in ast.walk(guard[0])
                         if isinstance(n, ast.Assign)
                         and norm(n.value) == f"{S}.atoms"]
            if not asg and (plain or plain_def):
                site = (plain or plain_def)[0]
                res.bad("R-PARITY-NORM", f"{fs.short}: {it} no normalisation",
                        fs.loc(site), f"{inst}: `{norm(site, 80)}` hands on "
                        f"{S}.atoms for every parity; a parity -1 descriptor "
                        "is not replaced by its _inverted_atoms() ordering, "
                        "so (ordering, -1) and (mirrored ordering, +1) get "
                        "different colours", instance=inst)
                forms.append(("plain",))
            else:
                res.error(f"R-PARITY-NORM {inst}: normalisation not "
                          "recognised")
            continue
        e = asg[0].value
        form = (norm(e.body), norm(e.test), norm(e.orelse))
        forms.append(form)
        good = form in (
            (f"{S}.atoms", f"{S}.parity != -1", f"{S}._inverted_atoms()"),
            (f"{S}._inverted_atoms()", f"{S}.parity == -1", f"{S}.atoms"))
        if good:
            res.ok("R-PARITY-NORM", inst, fs.loc(loop))
        else:
            res.bad("R-PARITY-NORM", f"{fs.short}: {it} {form}", fs.loc(asg[0]),
                    f"{inst}: `{norm(asg[0])}` does not select the inverted "
                    "ordering exactly for parity -1", instance=inst)
        # the grouping key must be the permutation group of the class
        tgt = norm(asg[0].targets[0])
        key = [n.func.value for n in ast.walk(guard[0])
               if isinstance(n, ast.Call) and isinstance(
                   n.func, ast.Attribute) and n.func.attr == "append"
               and isinstance(n.func.value, ast.Subscript)
               and any(isinstance(x, ast.Name) and x.id == tgt
                       for a_ in n.args for x in ast.walk(a_))]
        if not key:
            res.unrecognised("R-PARITY-NORM", inst + " grouping",
                             fs.loc(loop), "no `groups[<key>].append((.., "
                             f"{tgt}))` found")
        elif norm(key[0].slice) != f"{S}.PERMUTATION_GROUP":
            res.bad("R-PARITY-NORM", f"{fs.short}: {it} grouping", fs.loc(loop),
                    f"{inst}: descriptors are grouped by "
                    f"`{norm(key[0].slice, 50)}`, not by their own "
                    "PERMUTATION_GROUP", instance=inst + " grouping")
    if len(forms) == 2 and forms[0] != forms[1]:
        res.bad("R-PARITY-NORM", f"{fs.short}: loops disagree", fs.loc(),
                f"atom and bond loops normalise differently: {forms}")
    if len(forms) < 2:
        res.error("R-PARITY-NORM: the two descriptor loops were not found")


# ---------------------------------------------------------------------------
def reachable(prog: Program, roots: list[str]) -> list:
    """Functions of color_refine (and label_hash users) reachable from the
    given functions through direct calls and function-valued arguments."""
    out, work = [], list(roots)
    seen = set()
    while work:
        q = work.pop()
        if q in seen or q not in prog.functions:
            continue
        seen.add(q)
        fi = prog.functions[q]
        out.append(fi)
        if fi.name == "label_hash":
            # what label_hash calls is judged branch by branch by R-HASH-PURE
            # (only its ('atom_type',) branch is reachable from the hashes)
            continue
        for n in ast.walk(fi.node):
            if isinstance(n, ast.Name) and f"{MOD}:{n.id}" in prog.functions:
                work.append(f"{MOD}:{n.id}")
    return out


def check_hash_pure(prog: Program, res: Result) -> None:
    res.rule("R-HASH-PURE", "the non-empty branch of the four __hash__ "
             "methods reaches only process-independent code: no builtin "
             "hash()/id()/repr() (string hashing is salted per process), no "
             "random / time / environment; every reachable label_hash call "
             "uses the literal ('atom_type',) (or the default), which "
             "selects label_hash's hash()-free branch")
    roots = [f"{MOD}:color_refine_hash_{k}" for k in ("mg", "smg", "crg", "scrg")]
    funcs = reachable(prog, roots)
    if len(funcs) < 10:
        raise AnalysisError("R-HASH-PURE: call graph from color_refine_hash_* "
                            f"has only {len(funcs)} functions")
    lh = _fn(prog, "label_hash")
    # label_hash itself: the ('atom_type',) branch must be hash()-free
    branch_ok = False
    want = f"{lh.params()[1]} == ('atom_type',)"
    for node in ast.walk(lh.node):
        body = None
        if isinstance(node, ast.If) and norm(node.test) == want:
            body = node.body
        elif isinstance(node, ast.IfExp) and norm(node.test) == want:
            body = [node.body]
        if body is not None:
            body_calls = [call_name(n) for b in body for n in ast.walk(b)
                          if isinstance(n, ast.Call)]
            # ... including what the branch calls in this module
            seen_, work_ = set(), [c for c in body_calls if c]
            while work_:
                c_ = work_.pop()
                q_ = f"{MOD}:{c_}"
                if q_ in seen_ or q_ not in prog.functions:
                    continue
                seen_.add(q_)
                sub = [call_name(n) for n in ast.walk(prog.functions[q_].node)
                       if isinstance(n, ast.Call)]
                body_calls += sub
                work_ += [x for x in sub if x]
            branch_ok = not any(c in ("hash", "id", "repr") for c in body_calls)
    inst = "label_hash: ('atom_type',) branch is hash()-free"
    if branch_ok:
        res.ok("R-HASH-PURE", inst, lh.loc())
    else:
        res.bad("R-HASH-PURE", "label_hash default branch", lh.loc(),
                f"{inst}: branch missing or uses hash()/id()/repr()",
                instance=inst)
    for fi in funcs:
        if fi.name == "label_hash":
            continue
        for n in ast.walk(fi.node):
            if not isinstance(n, ast.Call):
                continue
            cn = call_name(n) or ""
            inst = f"{fi.short}: {norm(n, 80)}"
            if cn in ("hash", "id", "repr") or cn.startswith((
                    "random.", "time.", "os.environ", "np.random", "uuid.")):
                res.bad("R-HASH-PURE", inst, fi.loc(n),
                        f"{fi.short}: `{norm(n, 80)}` makes the graph hash "
                        "depend on the interpreter process")
            elif cn == "label_hash":
                arg = n.args[1] if len(n.args) > 1 else next(
                    (k.value for k in n.keywords if k.arg == "atom_labels"),
                    None)
                if arg is None or norm(arg) == "('atom_type',)":
                    res.ok("R-HASH-PURE", inst, fi.loc(n))
                else:
                    res.bad("R-HASH-PURE", inst, fi.loc(n),
                            f"{fi.short}: label_hash called with "
                            f"`{norm(arg)}`: selects the branch that uses "
                            "Python's salted hash()")
    # the dunder methods call the hash functions with nothing in between
    from .eqrules import HASHER
    for K, fn in HASHER.items():
        hi = prog.resolve_method(K, "__hash__")
        rets = [norm(r.value) for r in ast.walk(hi.node)
                if isinstance(r, ast.Return)]
        inst = f"{K}.__hash__ returns {fn}(self)"
        s = hi.params()[0]
        from .eqrules import REFINER
        from .pe import resolve as _resolve

        def expanded(r: ast.Return) -> bool:
            """The same computation spelled out in the method: order-free
            hash of the class's refined colours, started from process
            independent labels (atom types / label_hash(('atom_type',)))."""
            e = _resolve(r.value, hi.node)
            # value-preserving array wrappers around the colours; the plain
            # atom-type array np.array(self.atom_types, ..) stays
            from .core import clone as _clone

            class _Unwrap(ast.NodeTransformer):
                def visit_Call(self, n):
                    self.generic_visit(n)
                    if (call_name(n) or "") in ("np.array", "np.asarray",
                                                "numpy.array") and \
                            len(n.args) == 1 and isinstance(
                            n.args[0], ast.Call) and all(
                            k.arg == "dtype" for k in n.keywords):
                        return n.args[0]
                    return n
            x = _Unwrap().visit(_clone(e))
            if isinstance(x, ast.Call) and call_name(x) == "int" and \
                    len(x.args) == 1:
                x = x.args[0]
            if not (isinstance(x, ast.Call) and call_name(x) ==
                    "numpy_int_multiset_hash" and len(x.args) == 1):
                return False
            c = x.args[0]
            if not (isinstance(c, ast.Call) and call_name(c) == REFINER[K]
                    and c.args and norm(c.args[0]) == s):
                return False
            lab = c.args[1] if len(c.args) > 1 else next(
                (k.value for k in c.keywords if k.arg == "atom_labels"), None)
            if lab is None:
                return True
            lt = norm(lab, 300)
            return lt in (f"label_hash({s}, atom_labels=('atom_type',))",
                          f"label_hash({s}, ('atom_type',))",
                          f"np.array({s}.atom_types, dtype=np.int64)",
                          f"np.array({s}.atom_types)")
        ret_nodes = [r for r in ast.walk(hi.node) if isinstance(r, ast.Return)]
        plain = {f"hash({s}.__class__)", f"hash(type({s}))"}
        if f"{fn}({s})" in rets and all(
                r in ({f"{fn}({s})"} | plain) for r in rets):
            res.ok("R-HASH-PURE", inst, hi.loc())
        elif ret_nodes and all(norm(r.value) in plain or norm(
                r.value) == f"{fn}({s})" or expanded(r) for r in ret_nodes) \
                and any(expanded(r) for r in ret_nodes):
            res.ok("R-HASH-PURE", inst, hi.loc(), "spelled out in the method")
        else:
            res.bad("R-HASH-PURE", f"{hi.short} returns {rets}", hi.loc(),
                    f"{inst}: returns {rets}", instance=inst)


# ---------------------------------------------------------------------------
def check_stop_invariant(prog: Program, res: Result) -> None:
    res.rule("R-STOP-INV", "the refinement loop of _color_refine stops only "
             "on quantities that are invariant under renaming: the number of "
             "colour classes, the number of atoms, max_iter")
    fi = _fn(prog, "_color_refine")
    du = DefUse(fi.node)
    loops = [n for n in ast.walk(fi.node) if isinstance(n, (ast.For, ast.While))]
    if not loops:
        raise AnalysisError("_color_refine: loop vanished")
    # definitions of the locals (flow insensitive)
    defs: dict[str, list[ast.AST]] = {}
    for node in ast.walk(fi.node):
        if isinstance(node, ast.Assign):
            for t in node.targets:
                if isinstance(t, ast.Name):
                    defs.setdefault(t.id, []).append(node.value)
                elif isinstance(t, ast.Tuple):
                    for e in t.elts:
                        if isinstance(e, ast.Name):
                            defs.setdefault(e.id, []).append(node.value)
        elif isinstance(node, ast.AnnAssign) and isinstance(
                node.target, ast.Name) and node.value is not None:
            defs.setdefault(node.target.id, []).append(node.value)
        elif isinstance(node, ast.AugAssign) and isinstance(
                node.target, ast.Name):
            defs.setdefault(node.target.id, []).append(node.value)
        elif isinstance(node, ast.For):
            for e in ast.walk(node.target):
                if isinstance(e, ast.Name):
                    defs.setdefault(e.id, []).append(node.iter)
        elif isinstance(node, ast.NamedExpr) and isinstance(
                node.target, ast.Name):
            defs.setdefault(node.target.id, []).append(node.value)
    generators = {p for p in fi.params() if p == "generator"}

    def is_colours(e, seen=()) -> bool:
        """e is (derived elementwise from) an array of colours drawn from the
        refinement generator."""
        if isinstance(e, ast.Call) and call_name(e) == "next":
            return True
        if isinstance(e, ast.Name):
            if e.id in seen:
                return False
            return any(is_colours(d, seen + (e.id,))
                       for d in defs.get(e.id, []))
        return False

    COUNT_ATTR = ("shape", "size")

    def is_classes(e, seen=()) -> bool:
        """e is the collection of DISTINCT colours (np.unique / set of a
        colour array): only its length is invariant."""
        if isinstance(e, ast.Call) and call_name(e) in (
                "np.unique", "numpy.unique", "set", "frozenset") and \
                len(e.args) >= 1 and not e.keywords:
            return True
        if isinstance(e, ast.Name) and e.id not in seen and defs.get(e.id):
            return all(is_classes(d, seen + (e.id,)) for d in defs[e.id])
        return False

    def raw_colour_uses(e, seen=()) -> list[str]:
        """Sub-expressions through which colour VALUES (not just the number
        of distinct colours / of atoms) reach e."""
        if isinstance(e, ast.Constant):
            return []
        # number of classes / atoms: np.unique(c).shape[0], len(np.unique(c)),
        # len(set(c)), c.shape[0], len(c), c.size
        if isinstance(e, ast.Call) and call_name(e) == "len" and \
                len(e.args) == 1:
            a0 = e.args[0]
            if is_colours(a0) or is_classes(a0):
                return []
        if isinstance(e, ast.Attribute) and e.attr in COUNT_ATTR:
            v = e.value
            if is_colours(v) or is_classes(v):
                return []
        if is_colours(e):
            return [norm(e, 60)]
        if isinstance(e, ast.Name):
            if e.id in seen:
                return []
            out = []
            for d in defs.get(e.id, []):
                out += raw_colour_uses(d, seen + (e.id,))
            return out
        out = []
        for c in ast.iter_child_nodes(e):
            if isinstance(c, (ast.expr_context, ast.operator, ast.cmpop,
                              ast.boolop, ast.unaryop)):
                continue
            out += raw_colour_uses(c, seen)
        return out

    def free_leaves(e, seen=()) -> set[str]:
        out = set()
        for x in ast.walk(e):
            if isinstance(x, ast.Name) and isinstance(x.ctx, ast.Load):
                if x.id in defs:
                    if x.id not in seen:
                        for d in defs[x.id]:
                            out |= free_leaves(d, seen + (x.id,))
                else:
                    out.add(x.id)
        return out

    allowed_leaves = set(fi.params()) | {"np", "numpy", "itertools", "range",
                                         "next", "len", "set", "frozenset",
                                         "int", "min", "max"}
    n = 0
    for loop in loops:
        for node in ast.walk(loop):
            if isinstance(node, ast.If) and any(
                    isinstance(b, (ast.Break, ast.Return)) for b in node.body):
                n += 1
                inst = f"{fi.short}: exit on `{norm(node.test)}`"
                raw = raw_colour_uses(node.test)
                odd = sorted(free_leaves(node.test) - allowed_leaves)
                if raw:
                    res.bad("R-STOP-INV", inst, fi.loc(node),
                            f"{inst}: depends on the colour values themselves "
                            f"({sorted(set(raw))}), not only on the number of "
                            "colour classes / atoms: hash values differ "
                            "between runs and numberings of equal molecules")
                elif odd:
                    res.unrecognised("R-STOP-INV", inst, fi.loc(node),
                                     f"the exit test reads {odd}, which this "
                                     "rule cannot classify")
                else:
                    res.ok("R-STOP-INV", inst, fi.loc(node))
    res.need("R-STOP-INV", n, 1, "loop exits")
    # the array returned is the last one drawn from the generator
    rets = [r.value for r in ast.walk(fi.node) if isinstance(r, ast.Return)]
    inst = f"{fi.short}: returns the last refined colours"
    if len(rets) == 1 and rets[0] is not None and is_colours(rets[0]):
        res.ok("R-STOP-INV", inst, fi.loc())
    elif len(rets) == 1 and isinstance(rets[0], ast.Name):
        res.bad("R-STOP-INV", f"{fi.short}: returns {norm(rets[0])}", fi.loc(),
                f"{inst}: returns `{norm(rets[0])}`, which is not an array "
                "drawn from the refinement generator", instance=inst)
    else:
        res.unrecognised("R-STOP-INV", inst, fi.loc(),
                         f"returns {[norm(r) for r in rets]}")


# ---------------------------------------------------------------------------
def _gen_kw(res, w, gen, inst, prog=None):
    """The wrapper hands `gen` on as the `generator` parameter of the function
    it delegates to (keyword or positional)."""
    found = []
    for n in ast.walk(w.node):
        if not isinstance(n, ast.Call):
            continue
        for k in n.keywords:
            if k.arg == "generator":
                found.append(k.value)
        if prog is not None and not any(k.arg == "generator"
                                        for k in n.keywords):
            target, binding = prog.bind_call(w, n)
            if target is not None and "generator" in binding:
                found.append(binding["generator"])
    if not found:
        res.unrecognised("R-ROLE-AXIS", inst, w.loc(),
                         "no call that passes a `generator` argument")
    elif norm(found[0]) == gen:
        res.ok("R-ROLE-AXIS", inst, w.loc())
    else:
        res.bad("R-ROLE-AXIS", f"{w.short}: generator={norm(found[0])}",
                w.loc(), f"{inst}: it passes generator={norm(found[0])}",
                instance=inst)


def check_roles(prog: Program, res: Result) -> None:
    res.rule("R-ROLE-AXIS", "_reaction_generator refines reactant(), "
             "product() and _ts() of the reaction (in a fixed order) and "
             "copies colour k into position k of the stacked array, so that "
             "bond roles (formed / broken / fleeting) reach the colours")
    fi = _fn(prog, "_reaction_generator")
    g = fi.params()[0]
    gen_param = fi.params()[1] if len(fi.params()) > 1 else "generator"
    want = [f"{g}.reactant()", f"{g}.product()", f"{g}._ts()"]
    cands = []
    for n in ast.walk(fi.node):
        if isinstance(n, ast.Assign) and len(n.targets) == 1 and isinstance(
                n.targets[0], ast.Name) and isinstance(
                n.value, (ast.List, ast.Tuple)) and n.value.elts and all(
                isinstance(e, ast.Call) and call_name(e) == gen_param
                for e in n.value.elts):
            cands.append(n)
    inst = f"{fi.short}: colour streams = [reactant, product, ts]"
    L = None
    if len(cands) != 1:
        res.unrecognised("R-ROLE-AXIS", inst, fi.loc(),
                         f"{len(cands)} lists of {gen_param}(...) streams")
    else:
        L = cands[0].targets[0].id
        parts = [norm(e.args[0]) if e.args else "" for e in cands[0].value.elts]
        if parts == want:
            res.ok("R-ROLE-AXIS", inst, fi.loc(cands[0]))
        else:
            res.bad("R-ROLE-AXIS", f"{fi.short}: color_iters", fi.loc(cands[0]),
                    f"{inst}: the streams refine {parts}, not the three role "
                    f"graphs {want} of the reaction", instance=inst)
    inst = f"{fi.short}: colour k copied to stacked[..., k]"
    cps = [n for n in ast.walk(fi.node) if isinstance(n, ast.Call)
           and call_name(n) == "np.copyto" and len(n.args) == 2
           and isinstance(n.args[0], ast.Subscript)]
    loops_ = [l for l in ast.walk(fi.node) if isinstance(l, ast.For)
              and L is not None and norm(l.iter) == f"enumerate({L})"
              and isinstance(l.target, ast.Tuple)]
    if cps and loops_:
        axis = norm(loops_[0].target.elts[0])
        sl = cps[0].args[0].slice
        last = norm(sl.elts[-1]) if isinstance(sl, ast.Tuple) else norm(sl)
        if last == axis:
            res.ok("R-ROLE-AXIS", inst, fi.loc(cps[0]))
        else:
            res.bad("R-ROLE-AXIS", f"{fi.short}: {norm(cps[0], 70)}",
                    fi.loc(cps[0]), f"{inst}: colour k is copied to position "
                    f"`{last}`, not to the role index `{axis}`", instance=inst)
    else:
        res.unrecognised("R-ROLE-AXIS", inst, fi.loc(), "stacking loop")
    for wrapper, gen in (("reaction_morgan_generator", "morgan_generator"),
                         ("stereo_reaction_morgan_generator",
                          "stereo_morgan_generator")):
        w = _fn(prog, wrapper)
        inst = f"{wrapper} uses {gen}"
        _gen_kw(res, w, gen, inst, prog)
    for k, gen in (("mg", "morgan_generator"), ("smg", "stereo_morgan_generator"),
                   ("crg", "reaction_morgan_generator"),
                   ("scrg", "stereo_reaction_morgan_generator")):
        w = _fn(prog, f"color_refine_{k}")
        inst = f"color_refine_{k} refines with {gen}"
        _gen_kw(res, w, gen, inst, prog)


# ---------------------------------------------------------------------------
def check_stereo_latency(prog: Program, res: Result) -> None:
    res.rule("R-STEREO-LATENCY", "every colour array the stereo generator "
             "yields after the initial one contains bond-stereo contributions "
             "computed from REAL colours: the array read by the bond-stereo "
             "hash must have been assigned the atom colours before its first "
             "use")
    fs = _fn(prog, "stereo_morgan_generator")
    # the refinement loop: the loop that both hashes and yields
    loops = [n for n in ast.walk(fs.node) if isinstance(n, (ast.For, ast.While))
             and any(isinstance(y, ast.Yield) for y in ast.walk(n))
             and any(isinstance(c, ast.Call) and call_name(c) == TUPLE_H
                     for c in ast.walk(n))]
    if not loops:
        raise AnalysisError("stereo_morgan_generator: refinement loop vanished")
    loop = loops[-1]
    # the colour array that is refined in place inside the loop
    updated = [norm(x.targets[0].value) for x in ast.walk(loop)
               if isinstance(x, ast.Assign) and len(x.targets) == 1
               and isinstance(x.targets[0], ast.Subscript)
               and isinstance(x.targets[0].value, ast.Name)
               and any(isinstance(c, ast.Call) and call_name(c) in (
                   TUPLE_H, MSET_H) for c in ast.walk(x.value))]
    if not updated:
        raise AnalysisError("stereo_morgan_generator: in-place colour update "
                            "not found")
    cur = updated[0]
    reads = [n for n in ast.walk(loop) if isinstance(n, ast.Call)
             and call_name(n) == TUPLE_H and n.args
             and isinstance(n.args[0], ast.Subscript)
             and isinstance(n.args[0].value, ast.Name)]
    if not reads:
        raise AnalysisError("stereo_morgan_generator: stereo hashes vanished")
    n_lag = 0
    for r in reads:
        arr = norm(r.args[0].value)
        inst = f"{fs.short}: stereo hash reads `{arr}`"
        if arr == cur:
            res.ok("R-STEREO-LATENCY", inst, fs.loc(r))
            continue
        n_lag += 1
        # where is the lagging array given real colours?
        def fills(n):
            if isinstance(n, ast.Assign) and len(n.targets) == 1:
                t = n.targets[0]
                base = t.value if isinstance(t, ast.Subscript) else t
                return norm(base) == arr and re.search(
                    rf"(?<![\w.]){re.escape(cur)}\b", norm(n.value)) and \
                    not re.search(r"(zeros|empty|ones|full)(_like)?\(",
                                  norm(n.value))
            if isinstance(n, ast.Expr) and isinstance(n.value, ast.Call) and \
                    call_name(n.value) in ("np.copyto", "numpy.copyto") and \
                    len(n.value.args) >= 2:
                return norm(n.value.args[0]) == arr and cur in norm(
                    n.value.args[1])
            return False
        copies = [n for n in ast.walk(fs.node) if fills(n)]
        first_trip = [c for c in copies if c.lineno < r.lineno]
        init = [n for n in ast.walk(fs.node) if isinstance(n, ast.Assign)
                and norm(n.targets[0]) == arr]
        if first_trip:
            res.ok("R-STEREO-LATENCY", inst, fs.loc(r))
        else:
            res.bad("R-STEREO-LATENCY",
                    "stereo_morgan_generator: stereo hash reads a colour "
                    "array that holds no colours on the first trip", fs.loc(r),
                    f"{inst}, whose only definition reaching the first trip "
                    f"is `{norm(init[0]) if init else '?'}` (no colours): the "
                    "first refined array is blind to double-bond geometry, "
                    "and _color_refine may stop right there: hash((E)-"
                    "FHC=CHF) == hash((Z)-FHC=CHF)", instance=inst)


# ---------------------------------------------------------------------------
def check_refine_progress(prog: Program, res: Result) -> None:
    res.rule("R-REFINE-PROGRESS", "a refinement generator may repeat an "
             "unrefined colour array forever only when the graph has nothing "
             "to aggregate (no atoms / no bonds); a shortcut that depends on "
             "the colours themselves (e.g. 'already discrete') freezes the "
             "hash at the element multiset")
    for fname in ("morgan_generator", "stereo_morgan_generator"):
        fi = _fn(prog, fname)
        n = 0
        for loop in ast.walk(fi.node):
            if not isinstance(loop, (ast.While, ast.For)):
                continue
            ys = [y for y in ast.walk(loop) if isinstance(y, ast.Yield)]
            if not ys:
                continue
            n += 1
            updates = [x for x in ast.walk(loop)
                       if isinstance(x, ast.Assign)
                       and isinstance(x.targets[0], ast.Subscript)
                       and norm(x.targets[0].value) == "atom_hash"]
            inst = f"{fi.short}: yield loop at line {loop.lineno}"
            if updates:
                res.ok("R-REFINE-PROGRESS", inst, fi.loc(loop), "refines")
                continue
            guards = [norm(a.test) for a in ancestors(loop)
                      if isinstance(a, ast.If)]
            structural = [g for g in guards if re.fullmatch(
                r"(len\(\w+\.bonds\) == 0|n_atoms == 0|not \w+\.bonds|"
                r"len\(\w+\.atoms\) == 0)", g)]
            if structural and len(structural) == len(guards):
                res.ok("R-REFINE-PROGRESS", inst, fi.loc(loop),
                       f"structural guard {structural}")
            else:
                res.bad("R-REFINE-PROGRESS",
                        f"{fi.short}: unrefined yield loop under {guards}",
                        fi.loc(loop),
                        f"{fi.short}: yields the unrefined colours forever "
                        f"under `{' and '.join(guards) or 'no condition'}`; "
                        "graphs that satisfy it hash to the multiset of "
                        "their initial colours (HCN and HNC collide, a "
                        "reaction and its reverse collide)", instance=inst)
        res.need("R-REFINE-PROGRESS", n, 1, f"yield loops in {fname}")
    # early `return` in a generator after the first yield ends refinement
    for fname in ("morgan_generator", "stereo_morgan_generator"):
        fi = _fn(prog, fname)
        for r in ast.walk(fi.node):
            if isinstance(r, ast.Return):
                if any(isinstance(a, (ast.FunctionDef, ast.Lambda))
                       and a is not fi.node for a in ancestors(r)):
                    continue        # return of a local helper function
                guards = [norm(a.test) for a in ancestors(r)
                          if isinstance(a, ast.If)]
                inst = f"{fi.short}: early return under {guards}"
                if guards and all(re.fullmatch(
                        r"(n_atoms == 0|len\(\w+\.atoms\) == 0)", g)
                        for g in guards):
                    res.ok("R-REFINE-PROGRESS", inst, fi.loc(r))
                else:
                    res.bad("R-REFINE-PROGRESS", inst, fi.loc(r),
                            f"{fi.short}: the generator ends under "
                            f"`{guards}`; _color_refine's next() then raises "
                            "StopIteration / refinement is cut short")


# ---------------------------------------------------------------------------
def check_final_hash(prog: Program, res: Result) -> None:
    res.rule("R-HASH-ONLY-COLOURS", "the graph hash is the multiset hash of "
             "exactly the refined colour array: nothing else (raw parities, "
             "identifiers, counts) is mixed in, and a descriptor's parity is "
             "only ever used inside the normalising comparisons")
    for k in ("mg", "smg", "crg", "scrg"):
        fi = _fn(prog, f"color_refine_hash_{k}")
        du = DefUse(fi.node)
        rets = [r for r in ast.walk(fi.node) if isinstance(r, ast.Return)]
        inst = f"{fi.short}: int(multiset hash of color_refine_{k}(graph))"
        verdicts = []
        for r_ in rets:
            v = r_.value
            if isinstance(v, ast.Call) and call_name(v) == "int" and \
                    len(v.args) == 1:
                v = v.args[0]
            if not (isinstance(v, ast.Call) and call_name(v) == MSET_H
                    and v.args):
                verdicts.append((None, f"`return {norm(r_.value, 70)}`"))
                continue
            a = v.args[0]
            defs = du.defs.get(a.id, []) if isinstance(a, ast.Name) else [a]
            if defs and all(isinstance(d, ast.Call) and call_name(d) ==
                            f"color_refine_{k}" for d in defs):
                verdicts.append((True, ""))
            else:
                verdicts.append((False, f"`return {norm(r_.value, 70)}` "
                                 f"hashes `{norm(a)}`, fed by "
                                 f"{[norm(d, 60) for d in defs]}, not the "
                                 f"refined colours color_refine_{k}(graph)"))
        if verdicts and all(v_ is True for v_, _ in verdicts):
            res.ok("R-HASH-ONLY-COLOURS", inst, fi.loc())
        elif any(v_ is False for v_, _ in verdicts):
            why = next(w_ for v_, w_ in verdicts if v_ is False)
            res.bad("R-HASH-ONLY-COLOURS", f"{fi.short}: hashed data",
                    fi.loc(), f"{inst}: {why}; data that is not a refined "
                    "colour (raw parities, the unrefined element colours, "
                    "counts) makes equal graphs hash differently or different "
                    "graphs hash alike", instance=inst)
        else:
            res.unrecognised("R-HASH-ONLY-COLOURS", inst, fi.loc(),
                             "return form " + "; ".join(
                                 w_ for _, w_ in verdicts) or "no return")
    mod = prog.module(MOD)
    for node in ast.walk(mod.tree):
        if isinstance(node, ast.Attribute) and node.attr == "parity":
            par = parent(node)
            inst = f"color_refine: `{norm(par, 60)}`"
            if isinstance(par, ast.Compare):
                res.ok("R-HASH-ONLY-COLOURS", inst, mod.loc(node))
            else:
                res.bad("R-HASH-ONLY-COLOURS", inst, mod.loc(node),
                        f"raw parity value used in `{norm(par, 80)}`")
