"""Index / identifier kinds in the RDKit importer.

Inside ``smg_from_rdmol`` two integer spaces meet: RDKit atom *indices*
(``GetIdx()``, ring members, stereo atoms, neighbour lists) and graph atom
*identifiers* (``id_atom_map[index]``).  They coincide for the index based
import and differ with ``use_atom_map_number=True``, so a comparison across
the two spaces is right in every test and wrong for the map-number import.

R-IDX-ID-MIX: no ``==`` / ``!=`` / ``in`` / ``not in`` compares an index with
an identifier (or with a collection of them), and ``id_atom_map`` is indexed
by indices only.  Kinds are inferred flow-insensitively over all definitions
of a name (assignments, loop and comprehension targets, parameters of local
functions bound at their call sites); an expression whose kind cannot be
inferred takes part in no obligation.
"""
from __future__ import annotations

import ast

from .core import norm

IDX, ID, NONE = "IDX", "ID", "NONE"
IDX_CALLS = {"GetIdx", "GetBeginAtomIdx", "GetEndAtomIdx"}
IDX_COLL_CALLS = {"GetStereoAtoms"}
RING_CALLS = {"GetSymmSSSR", "AtomRings", "GetSSSR"}
WRAP = {"tuple", "list", "set", "frozenset", "sorted", "reversed"}


def coll(k):
    return ("COLL", k)


def tup(ks):
    return ("TUP", tuple(ks))


def elem(k):
    if isinstance(k, tuple) and k[0] == "COLL":
        return k[1]
    if isinstance(k, tuple) and k[0] == "TUP":
        return join_all(k[1])
    return None


def join(a, b):
    if a == b:
        return a
    if a == NONE:
        return b
    if b == NONE:
        return a
    if a is None or b is None:
        return None
    if isinstance(a, tuple) and isinstance(b, tuple):
        ea, eb = elem(a), elem(b)
        if ea is None or eb is None:
            return None
        j = join(ea, eb)
        return coll(j) if j is not None else None
    return "MIXED" if {a, b} == {IDX, ID} else None


def join_all(ks):
    ks = list(ks)
    if not ks:
        return None
    out = ks[0]
    for k in ks[1:]:
        out = join(out, k)
    return out


class Kinds:
    def __init__(self, fn: ast.FunctionDef, mapnames: set[str]):
        self.fn = fn
        self.maps = mapnames
        self.defs: dict[str, list] = {}
        self._memo: dict[int, object] = {}
        self._busy: set[str] = set()
        local_funcs = {n.name: n for n in ast.walk(fn)
                       if isinstance(n, ast.FunctionDef) and n is not fn}
        for n in ast.walk(fn):
            if isinstance(n, ast.Assign):
                for t in n.targets:
                    self._bind(t, ("val", n.value))
            elif isinstance(n, ast.AnnAssign) and n.value is not None:
                self._bind(n.target, ("val", n.value))
            elif isinstance(n, ast.NamedExpr):
                self._bind(n.target, ("val", n.value))
            elif isinstance(n, ast.For):
                self._bind(n.target, ("elem", n.iter))
            elif isinstance(n, ast.AugAssign):
                self._bind(n.target, ("val", n.value))
            elif isinstance(n, ast.Call) and isinstance(n.func, ast.Name) \
                    and n.func.id in local_funcs:
                f = local_funcs[n.func.id]
                ps = [a.arg for a in f.args.posonlyargs + f.args.args]
                for p, a in zip(ps, n.args):
                    if not isinstance(a, ast.Starred):
                        self.defs.setdefault(p, []).append(("val", a))
                for k in n.keywords:
                    if k.arg:
                        self.defs.setdefault(k.arg, []).append(("val", k.value))
        for f in local_funcs.values():
            for a in f.args.posonlyargs + f.args.args:
                self.defs.setdefault(a.arg, [])
        self.params = {a.arg for a in fn.args.posonlyargs + fn.args.args
                       + fn.args.kwonlyargs}
        self.parent: dict[int, ast.AST] = {}
        for n in ast.walk(fn):
            for c in ast.iter_child_nodes(n):
                self.parent[id(c)] = n

    def _comp_binding(self, name_node: ast.Name):
        """(iter, index | None) when the name is bound by a comprehension
        that encloses it."""
        p = self.parent.get(id(name_node))
        while p is not None:
            if isinstance(p, (ast.ListComp, ast.SetComp, ast.GeneratorExp,
                              ast.DictComp)):
                for g in p.generators:
                    t = g.target
                    if isinstance(t, ast.Name) and t.id == name_node.id:
                        return g.iter, None
                    if isinstance(t, (ast.Tuple, ast.List)):
                        for i, x in enumerate(t.elts):
                            if isinstance(x, ast.Name) and \
                                    x.id == name_node.id:
                                return g.iter, i
            p = self.parent.get(id(p))
        return None

    def _bind(self, t, how):
        if isinstance(t, ast.Name):
            self.defs.setdefault(t.id, []).append(how)
        elif isinstance(t, (ast.Tuple, ast.List)):
            for i, x in enumerate(t.elts):
                if isinstance(x, ast.Starred):
                    self._bind(x.value, ("unknown", None))
                else:
                    self._bind(x, (how[0] + "_item", (how[1], i)))

    def of(self, e, depth=0):
        if e is None or depth > 25:
            return None
        if isinstance(e, ast.Constant):
            return NONE if e.value is None else None
        if isinstance(e, ast.Name):
            cb = self._comp_binding(e)
            if cb is not None:
                it, i = cb
                k = elem(self.of(it, depth + 1))
                if i is None:
                    return k
                if isinstance(k, tuple) and k[0] == "TUP" and i < len(k[1]):
                    return k[1][i]
                return None
            if e.id in self.params or e.id in self._busy:
                return None
            self._busy.add(e.id)
            try:
                ks = []
                # flow-aware definitions when the use is a node of the tree
                rd = None
                if id(e) in self.parent:
                    from .core import reaching_defs
                    try:
                        rd = reaching_defs(self.fn, e)
                    except Exception:
                        rd = None
                if rd:
                    for v, kind in rd:
                        if kind == "assign":
                            ks.append(self.of(v, depth + 1))
                        elif kind == "iter":
                            # plain `for x in it` only (tuple targets unknown)
                            ks.append(elem(self.of(v, depth + 1)))
                        else:
                            ks.append(None)
                else:
                    for how, v in self.defs.get(e.id, []):
                        if how == "val":
                            ks.append(self.of(v, depth + 1))
                        elif how == "elem":
                            ks.append(elem(self.of(v, depth + 1)))
                        else:
                            ks.append(None)
                if not ks or any(k is None for k in ks):
                    return None
                return join_all(ks)
            finally:
                self._busy.discard(e.id)
        if isinstance(e, ast.Call):
            f = e.func
            if isinstance(f, ast.Attribute):
                if f.attr in IDX_CALLS and not e.args:
                    return IDX
                if f.attr in IDX_COLL_CALLS:
                    return coll(IDX)
                if f.attr in RING_CALLS:
                    return coll(coll(IDX))
                if f.attr == "get" and norm(f.value) in self.maps:
                    return ID
            if isinstance(f, ast.Name):
                if f.id in WRAP and len(e.args) == 1:
                    k = self.of(e.args[0], depth + 1)
                    ek = elem(k)
                    return coll(ek) if ek is not None else None
                if f.id == "next" and e.args:
                    k = elem(self.of(e.args[0], depth + 1))
                    if len(e.args) == 2:
                        k = join(k, self.of(e.args[1], depth + 1)) \
                            if k is not None else None
                    return k
                if f.id in RING_CALLS:
                    return coll(coll(IDX))
            if isinstance(f, ast.Attribute) and f.attr in RING_CALLS:
                return coll(coll(IDX))
            return None
        if isinstance(e, (ast.ListComp, ast.SetComp, ast.GeneratorExp)):
            k = self.of(e.elt, depth + 1)
            return coll(k) if k is not None else None
        if isinstance(e, (ast.Tuple, ast.List, ast.Set)):
            ks = []
            for x in e.elts:
                if isinstance(x, ast.Starred):
                    ks.append(elem(self.of(x.value, depth + 1)))
                else:
                    ks.append(self.of(x, depth + 1))
            if isinstance(e, ast.Tuple) and not any(
                    isinstance(x, ast.Starred) for x in e.elts):
                return tup(ks)
            if not ks:
                return coll(NONE)           # empty literal: neutral
            j = join_all(ks) if all(k is not None for k in ks) else None
            return coll(j) if j is not None else None
        if isinstance(e, ast.Subscript):
            if norm(e.value) in self.maps:
                return ID
            k = self.of(e.value, depth + 1)
            if isinstance(e.slice, ast.Slice):
                return k if isinstance(k, tuple) and k[0] == "COLL" else None
            if isinstance(k, tuple) and k[0] == "TUP":
                if isinstance(e.slice, ast.Constant) and isinstance(
                        e.slice.value, int) and -len(k[1]) <= e.slice.value \
                        < len(k[1]):
                    return k[1][e.slice.value]
                return join_all(k[1]) if all(
                    x is not None for x in k[1]) else None
            return elem(k)
        if isinstance(e, ast.IfExp):
            a, b = self.of(e.body, depth + 1), self.of(e.orelse, depth + 1)
            if a is None or b is None:
                return None
            return join(a, b)
        if isinstance(e, ast.BinOp) and isinstance(e.op, ast.Add):
            a, b = self.of(e.left, depth + 1), self.of(e.right, depth + 1)
            if a is None or b is None:
                return None
            return join(a, b)
        if isinstance(e, ast.BinOp) and isinstance(e.op, ast.Mult):
            for side in (e.left, e.right):
                k = self.of(side, depth + 1)
                if isinstance(k, tuple):
                    return coll(elem(k)) if elem(k) is not None else None
            return None
        if isinstance(e, ast.Starred):
            return elem(self.of(e.value, depth + 1))
        return None


def base(k):
    """IDX / ID at the bottom of a kind, None otherwise."""
    while isinstance(k, tuple):
        if k[0] == "COLL":
            k = k[1]
        else:
            k = join_all(k[1]) if all(x is not None for x in k[1]) else None
    return k if k in (IDX, ID) else None


def check(fi, mapnames: set[str]):
    """[(node, text, left kind, right kind, ok)] for every comparison /
    map lookup whose two sides have an inferable kind."""
    K = Kinds(fi.node, mapnames)
    out = []
    for n in ast.walk(fi.node):
        if isinstance(n, ast.Compare) and len(n.ops) == 1:
            op = n.ops[0]
            l, r = n.left, n.comparators[0]
            kl, kr = K.of(l), K.of(r)
            if isinstance(op, (ast.In, ast.NotIn)):
                kr = elem(kr) if kr is not None else None
            elif not isinstance(op, (ast.Eq, ast.NotEq)):
                continue
            bl, br = (kl if kl in (IDX, ID) else None), \
                (kr if kr in (IDX, ID) else None)
            if bl is None or br is None:
                continue
            out.append((n, norm(n, 90), bl, br, bl == br))
        elif isinstance(n, ast.Subscript) and norm(n.value) in mapnames \
                and isinstance(n.ctx, ast.Load):
            k = K.of(n.slice)
            if k in (IDX, ID):
                out.append((n, norm(n, 90), "key:" + k, IDX, k == IDX))
        elif isinstance(n, ast.Call) and isinstance(n.func, ast.Attribute) \
                and n.func.attr == "get" and norm(n.func.value) in mapnames \
                and n.args:
            k = K.of(n.args[0])
            if k in (IDX, ID):
                out.append((n, norm(n, 90), "key:" + k, IDX, k == IDX))
    return out


def truthiness_tests(fi, mapnames: set[str]):
    """[(node, text, kind)] bare names / subscripts of index or identifier
    kind that are used as a truth value (0 is a legal index and identifier)."""
    K = Kinds(fi.node, mapnames)
    out = []

    def operands(t):
        if isinstance(t, ast.BoolOp):
            for v in t.values:
                yield from operands(v)
        elif isinstance(t, ast.UnaryOp) and isinstance(t.op, ast.Not):
            yield from operands(t.operand)
        elif isinstance(t, (ast.Name, ast.Subscript)):
            yield t

    for n in ast.walk(fi.node):
        tests = []
        if isinstance(n, (ast.If, ast.IfExp, ast.While)):
            tests.append(n.test)
        elif isinstance(n, ast.comprehension):
            tests += n.ifs
        elif isinstance(n, ast.Assert):
            tests.append(n.test)
        for t in tests:
            for x in operands(t):
                k = K.of(x)
                if k in (IDX, ID):
                    out.append((x, norm(t, 80), k))
    return out
