"""A7 -- constant folding over index tuples for the RDKit converters, and the
pure table computations built on it (C12, C13).

The converters move atoms between RDKit's neighbour tuple and a descriptor's
atom tuple through chains of literal re-indexings ([x[i] for i in row], fixed
re-orderings, splices).  ``Fold`` evaluates such chains on *symbols*
(n0, n1, ... for RDKit's neighbours, c for the centre), so that what a label
means is read off the source as the importer / exporter actually use it.
"""
from __future__ import annotations

import ast
from itertools import permutations

from .core import AnalysisError, Program, call_name, const, dotted, norm
from .tables import apply as perm_apply

UNK = object()


class Fold:
    def __init__(self, env: dict):
        self.env = dict(env)

    def ev(self, e: ast.AST):
        if isinstance(e, (ast.Subscript, ast.Call, ast.Attribute)):
            key = norm(e)
            if key in self.env:
                return self.env[key]
        if isinstance(e, ast.Constant):
            return e.value
        if isinstance(e, ast.Name):
            return self.env.get(e.id, UNK)
        if isinstance(e, ast.Attribute):
            key = norm(e)
            if key in self.env:
                return self.env[key]
            return self.env.get(e.attr, UNK)
        if isinstance(e, ast.Dict):
            d = {}
            for k, v in zip(e.keys, e.values):
                if k is None:
                    return UNK
                kk, vv = self.ev(k), self.ev(v)
                if kk is UNK or vv is UNK:
                    return UNK
                d[kk] = vv
            return d
        if isinstance(e, (ast.Tuple, ast.List)):
            out = []
            for x in e.elts:
                if isinstance(x, ast.Starred):
                    v = self.ev(x.value)
                    if v is UNK or not isinstance(v, (tuple, list)):
                        return UNK
                    out.extend(v)
                else:
                    v = self.ev(x)
                    if v is UNK:
                        return UNK
                    out.append(v)
            return tuple(out)
        if isinstance(e, ast.Call):
            cn = call_name(e)
            if cn in ("tuple", "list") and len(e.args) == 1:
                v = self.ev(e.args[0])
                return tuple(v) if isinstance(v, (tuple, list)) else UNK
            if cn in ("dict", "MappingProxyType") and len(e.args) == 1 \
                    and not e.keywords:
                v = self.ev(e.args[0])
                return dict(v) if isinstance(v, dict) else UNK
            if cn == "len" and len(e.args) == 1:
                v = self.ev(e.args[0])
                return len(v) if isinstance(v, (tuple, list)) else UNK
            if cn == "range" and e.args:
                vs = [self.ev(a) for a in e.args]
                if all(isinstance(v, int) for v in vs):
                    return tuple(range(*vs))
            if isinstance(e.func, ast.Attribute) and e.func.attr == "get" \
                    and 1 <= len(e.args) <= 2 and not e.keywords:
                base = self.ev(e.func.value)
                if isinstance(base, dict):
                    k = self.ev(e.args[0])
                    if k is UNK:
                        return UNK
                    try:
                        if k in base:
                            return base[k]
                    except TypeError:
                        return UNK
                    return self.ev(e.args[1]) if len(e.args) == 2 else None
            key = norm(e)
            return self.env.get(key, UNK)
        if isinstance(e, ast.DictComp) and len(e.generators) == 1 and \
                not e.generators[0].ifs:
            g = e.generators[0]
            src = g.iter
            items = None
            if isinstance(src, ast.Call) and isinstance(
                    src.func, ast.Attribute) and src.func.attr == "items":
                d_ = self.ev(src.func.value)
                if isinstance(d_, dict):
                    items = list(d_.items())
            if items is None or not (isinstance(g.target, ast.Tuple)
                                     and len(g.target.elts) == 2 and all(
                    isinstance(x, ast.Name) for x in g.target.elts)):
                return UNK
            out_d = {}
            for kk, vv in items:
                sub = Fold(self.env)
                sub.env[g.target.elts[0].id] = kk
                sub.env[g.target.elts[1].id] = vv
                nk, nv = sub.ev(e.key), sub.ev(e.value)
                if nk is UNK or nv is UNK:
                    return UNK
                out_d[nk] = nv
            return out_d
        if isinstance(e, (ast.ListComp, ast.GeneratorExp)):
            if len(e.generators) != 1:
                return UNK
            g = e.generators[0]
            it = self.ev(g.iter)
            if it is UNK or not isinstance(it, (tuple, list)):
                return UNK
            out = []
            for x in it:
                sub = Fold(self.env)
                if isinstance(g.target, ast.Name):
                    sub.env[g.target.id] = x
                else:
                    return UNK
                keep = True
                for c in g.ifs:
                    cv = sub.ev(c)
                    if cv is UNK:
                        return UNK
                    keep = keep and bool(cv)
                if keep:
                    v = sub.ev(e.elt)
                    if v is UNK:
                        return UNK
                    out.append(v)
            return tuple(out)
        if isinstance(e, ast.Subscript):
            base = self.ev(e.value)
            if base is UNK:
                return UNK
            if isinstance(e.slice, ast.Slice):
                lo = self.ev(e.slice.lower) if e.slice.lower else None
                hi = self.ev(e.slice.upper) if e.slice.upper else None
                st = self.ev(e.slice.step) if e.slice.step else None
                if UNK in (lo, hi, st):
                    return UNK
                return tuple(base[lo:hi:st])
            k = self.ev(e.slice)
            if k is UNK:
                return UNK
            try:
                return base[k]
            except (KeyError, IndexError, TypeError):
                return UNK
        if isinstance(e, ast.IfExp):
            t = self.ev(e.test)
            if t is UNK:
                return UNK
            return self.ev(e.body if t else e.orelse)
        if isinstance(e, ast.Compare) and len(e.ops) == 1:
            a, b = self.ev(e.left), self.ev(e.comparators[0])
            if a is UNK or b is UNK:
                return UNK
            op = e.ops[0]
            try:
                if isinstance(op, ast.Lt):
                    return a < b
                if isinstance(op, ast.LtE):
                    return a <= b
                if isinstance(op, ast.Gt):
                    return a > b
                if isinstance(op, ast.GtE):
                    return a >= b
                if isinstance(op, ast.Eq):
                    return a == b
                if isinstance(op, ast.NotEq):
                    return a != b
                if isinstance(op, ast.Is):
                    return a is b
                if isinstance(op, ast.IsNot):
                    return a is not b
                if isinstance(op, ast.In):
                    return a in b
                if isinstance(op, ast.NotIn):
                    return a not in b
            except TypeError:
                return UNK
            return UNK
        if isinstance(e, ast.BinOp):
            a, b = self.ev(e.left), self.ev(e.right)
            if a is UNK or b is UNK:
                return UNK
            try:
                if isinstance(e.op, ast.Add):
                    return a + b
                if isinstance(e.op, ast.Sub):
                    return a - b
                if isinstance(e.op, ast.Mult):
                    return a * b
            except TypeError:
                return UNK
        if isinstance(e, ast.UnaryOp) and isinstance(e.op, ast.USub):
            v = self.ev(e.operand)
            return -v if isinstance(v, int) else UNK
        if isinstance(e, ast.UnaryOp) and isinstance(e.op, ast.Not):
            v = self.ev(e.operand)
            return UNK if v is UNK else (not v)
        return UNK

    def run(self, stmts) -> None:
        """Fold the plain assignments of a statement list (in order)."""
        for st in stmts:
            if isinstance(st, ast.Assign) and len(st.targets) == 1 and \
                    isinstance(st.targets[0], ast.Name):
                self.env[st.targets[0].id] = self.ev(st.value)
            elif isinstance(st, ast.AnnAssign) and st.value is not None and \
                    isinstance(st.target, ast.Name):
                self.env[st.target.id] = self.ev(st.value)


# ---------------------------------------------------------------------------
# descriptor equivalence from the literal tables
# ---------------------------------------------------------------------------

class Groups:
    def __init__(self, prog: Program):
        self.G = {}
        self.inv = {}
        for name in ("Tetrahedral", "SquarePlanar", "TrigonalBipyramidal",
                     "Octahedral", "PlanarBond", "AtropBond"):
            def seen(attr):
                for c in prog.mro(name):
                    k = prog.classes.get(c)
                    if k is not None and attr in k.assigns:
                        return k.assigns[attr]
                raise AnalysisError(f"{name}.{attr} not found")
            self.G[name] = [tuple(r) for r in const(seen("PERMUTATION_GROUP"))]
            self.inv[name] = const(seen("inversion"))

    def orbit(self, cls, atoms):
        return {perm_apply(g, atoms) for g in self.G[cls]}

    def inverted(self, cls, atoms):
        inv = self.inv[cls]
        return atoms if inv is None else perm_apply(tuple(inv), atoms)

    def equiv(self, cls, a1, p1, a2, p2) -> bool:
        """(a1, p1) == (a2, p2) as descriptors of class cls (specified
        parities), computed from the tables exactly as __eq__ does."""
        if p1 is None or p2 is None:
            return set(a1) == set(a2)
        if (p1 == 0) != (p2 == 0):
            return False
        if sorted(map(str, a1)) != sorted(map(str, a2)):
            return False
        if p1 == p2:
            return tuple(a2) in self.orbit(cls, tuple(a1))
        return self.inverted(cls, tuple(a2)) in self.orbit(cls, tuple(a1))


# ---------------------------------------------------------------------------
# importer
# ---------------------------------------------------------------------------

def _branches(fn: ast.FunctionDef, token: str):
    """Bodies of `if/elif` branches of fn whose test mentions token."""
    out = []
    for node in ast.walk(fn):
        if not (isinstance(node, ast.If) and token in norm(node.test, 400)):
            continue
        t = node.test
        exits = bool(node.body) and isinstance(
            node.body[-1], (ast.Continue, ast.Return, ast.Raise, ast.Break))
        if isinstance(t, ast.Compare) and len(t.ops) == 1 and isinstance(
                t.ops[0], (ast.NotEq, ast.IsNot)) and exits and \
                not node.orelse:
            # guard clause `if tag != X: continue` + rest of the block: the
            # rest is the branch for X
            par = getattr(node, "_parent", None)
            for f in ("body", "orelse", "finalbody"):
                lst = getattr(par, f, None)
                if isinstance(lst, list) and any(x is node for x in lst):
                    i = [k for k, x in enumerate(lst) if x is node][0]
                    pos = ast.Compare(t.left, [ast.Eq()], t.comparators)
                    syn = ast.If(test=pos, body=lst[i + 1:] or [ast.Pass()],
                                 orelse=[])
                    ast.copy_location(syn, node)
                    ast.fix_missing_locations(syn)
                    out.append(syn)
                    break
            continue
        out.append(node)
    return out


def canon_importer(fi):
    """Role names for the locals the importer rules mention: the dictionary
    built from {atom.GetIdx(): ...} over rdmol.GetAtoms() is `id_atom_map`
    whatever the source calls it."""
    from .iso import rename_locals
    names = set()
    for n in ast.walk(fi.node):
        tgt = value = None
        if isinstance(n, ast.Assign) and len(n.targets) == 1:
            tgt, value = n.targets[0], n.value
        elif isinstance(n, ast.AnnAssign) and n.value is not None:
            tgt, value = n.target, n.value
        if not isinstance(tgt, ast.Name):
            continue
        alts = [value]
        while any(isinstance(v, ast.IfExp) for v in alts):
            alts = [x for v in alts for x in (
                (v.body, v.orelse) if isinstance(v, ast.IfExp) else (v,))]
        if any(isinstance(v, ast.DictComp) and "GetIdx()" in norm(v.key)
               and "GetAtoms()" in norm(v.generators[0].iter) for v in alts):
            names.add(tgt.id)
    if len(names) == 1 and "id_atom_map" not in names:
        # annotation-only declarations of the same local follow the rename
        return rename_locals(fi, {names.pop(): "id_atom_map"})
    return fi


def importer_tables(prog: Program) -> dict:
    """class -> {label: (atoms as symbols, parity)} as the importer builds
    them.  Symbols: 'c' centre, 'n0'.. RDKit's neighbours in its order."""
    ci = prog.cls("RDMol2StereoMolGraph")
    fi = ci.methods.get("smg_from_rdmol")
    if fi is None:
        raise AnalysisError("RDMol2StereoMolGraph.smg_from_rdmol vanished")
    fi = canon_importer(fi)
    tables = {}
    base_env = {}
    for name, node in ci.assigns.items():
        try:
            base_env[f"self.{name}"] = const(node)
            base_env[name] = const(node)
        except Exception:
            pass
    # locals of the atom loop that name the centre: `c = id_atom_map[idx]`
    stores: dict[str, int] = {}
    for n in ast.walk(fi.node):
        if isinstance(n, ast.Name) and isinstance(n.ctx, ast.Store):
            stores[n.id] = stores.get(n.id, 0) + 1
    for n in ast.walk(fi.node):
        tgt = val = None
        if isinstance(n, ast.Assign) and len(n.targets) == 1:
            tgt, val = n.targets[0], n.value
        elif isinstance(n, ast.AnnAssign) and n.value is not None:
            tgt, val = n.target, n.value
        if isinstance(tgt, ast.Name) and stores.get(tgt.id) == 1 and \
                val is not None and norm(val) == "id_atom_map[atom_idx]":
            base_env[tgt.id] = "c"
    # the raw RDKit index of the centre is a symbol of its own
    base_env.setdefault("atom_idx", "rdkit-index-of-c")
    out: dict = {"_fi": fi, "_env": base_env}

    def neighbours(k):
        return tuple(f"n{i}" for i in range(k))

    # TB / OH ---------------------------------------------------------------
    for cls, token, k, tabname in (
            ("TrigonalBipyramidal", "CHI_TRIGONALBIPYRAMIDAL", 5,
             "_tbp_atom_order_permutation_dict"),
            ("Octahedral", "CHI_OCTAHEDRAL", 6,
             "_oct_atom_order_permutation_dict")):
        brs = _branches(fi.node, token)
        if not brs:
            raise AnalysisError(f"importer branch for {token} vanished")
        br = brs[0]
        table = base_env.get(tabname)
        if not isinstance(table, dict):
            raise AnalysisError(f"importer table {tabname} is not a literal")
        labels = {}
        ctor = [n for n in ast.walk(br) if isinstance(n, ast.Call)
                and call_name(n) == cls]
        if not ctor:
            raise AnalysisError(f"importer: {cls}(...) call vanished")
        for label in table:
            env = dict(base_env)
            env.update({"neighbors": neighbours(k), "perm": label,
                        "id_atom_map[atom_idx]": "c",
                        "atom.HasProp('_chiralPermutation')": True,
                        "atom.GetUnsignedProp('_chiralPermutation')": label})
            f = Fold(env)
            reached = []

            def walk(stmts):
                for st in stmts:
                    if isinstance(st, ast.If):
                        t = f.ev(st.test)
                        if isinstance(st.test, ast.UnaryOp) and isinstance(
                                st.test.op, ast.Not):
                            inner = f.ev(st.test.operand)
                            t = UNK if inner is UNK else (not inner)
                        if t is UNK:
                            raise AnalysisError(
                                f"importer {cls}: guard "
                                f"`{norm(st.test, 60)}` not evaluable")
                        walk(st.body if t else st.orelse)
                    else:
                        f.run([st])
                        for n in ast.walk(st):
                            if isinstance(n, ast.Call) and call_name(n) == cls:
                                reached.append(n)
            walk(br.body)
            if not reached:
                raise AnalysisError(f"importer: no {cls}(...) on the path of "
                                    f"label {label}")
            c = reached[-1]
            args = list(c.args)
            kw = {x.arg: x.value for x in c.keywords}
            a = f.ev(args[0] if args else kw.get("atoms"))
            p = f.ev(args[1] if len(args) > 1 else kw.get("parity"))
            labels[label] = (a, p)
        out[cls] = labels
    # SP ----------------------------------------------------------------------
    brs = _branches(fi.node, "CHI_SQUAREPLANAR")
    if not brs:
        raise AnalysisError("importer branch for CHI_SQUAREPLANAR vanished")
    br = brs[0]
    labels = {}
    ctor = [n for n in ast.walk(br) if isinstance(n, ast.Call)
            and call_name(n) == "SquarePlanar"]
    inner = [n for n in br.body if isinstance(n, ast.If)]
    cand_labels = sorted({n.value for x in inner for n in ast.walk(x.test)
                          if isinstance(n, ast.Constant)
                          and isinstance(n.value, int)} |
                         {n.value for x in inner for y in ast.walk(x)
                          if isinstance(y, ast.If) for n in ast.walk(y.test)
                          if isinstance(n, ast.Constant)
                          and isinstance(n.value, int)})
    # table form: the label indexes a literal dict (in the branch or at class
    # level) instead of an if/elif chain
    for n in ast.walk(br):
        d = None
        if isinstance(n, ast.Dict):
            try:
                d = const(n)
            except Exception:
                d = None
        elif isinstance(n, ast.Attribute) and isinstance(
                base_env.get(n.attr), dict):
            d = base_env[n.attr]
        if isinstance(d, dict) and d and all(
                isinstance(k, int) and not isinstance(k, bool) for k in d):
            cand_labels = sorted(set(cand_labels) | set(d))
    if not ctor:
        raise AnalysisError("importer: SquarePlanar(...) call vanished")
    for label in cand_labels:
        env = dict(base_env)
        env.update({"neighbors": neighbours(4), "id_atom_map[atom_idx]": "c",
                    "atom.GetUnsignedProp('_chiralPermutation')": label})
        f = Fold(env)
        # walk the if/elif chain
        def walk(stmts):
            """False when the path of this label ends in a raise or at a
            guard that cannot be evaluated."""
            for st in stmts:
                if isinstance(st, ast.If):
                    t = f.ev(st.test)
                    if t is True:
                        if not walk(st.body):
                            return False
                    elif t is False:
                        if not walk(st.orelse):
                            return False
                    else:
                        return False
                elif isinstance(st, ast.Raise):
                    return False
                else:
                    f.run([st])
            return True
        if not walk(br.body):
            continue
        if ctor:
            c = ctor[0]
            args = list(c.args)
            kw = {x.arg: x.value for x in c.keywords}
            a = f.ev(args[0] if args else kw.get("atoms"))
            p = f.ev(args[1] if len(args) > 1 else kw.get("parity"))
            if a is not UNK:
                labels[label] = (a, p)
    if not labels:
        raise AnalysisError("importer: no SquarePlanar label could be read "
                            "off the CHI_SQUAREPLANAR branch (neither an "
                            "if/elif chain over the label nor a literal "
                            "table indexed by it)")
    out["SquarePlanar"] = labels
    # tetrahedral tags ---------------------------------------------------------
    tags = {}
    tnode = ci.assigns.get("_rd_tetrahedral")
    if tnode is not None:
        d = tnode.args[0] if isinstance(tnode, ast.Call) else tnode
        if isinstance(d, ast.Dict):
            for k, v in zip(d.keys, d.values):
                try:
                    tags[norm(k).split(".")[-1]] = ast.literal_eval(v)
                except Exception:
                    pass
    out["tetrahedral_tags"] = tags
    return out


# ---------------------------------------------------------------------------
# exporter
# ---------------------------------------------------------------------------

def canon_exporter(prog: Program):
    """stereo_mol_graph_to_rdmol with its central locals under role names
    (the descriptor tested by isinstance(.., <atom class>) is `a_stereo`, the
    one tested against PlanarBond / AtropBond `b_stereo`, the RDKit atom that
    receives SetChiralTag `rd_atom`, the bond that receives SetStereo
    `rd_bond`)."""
    import re
    from .core import FuncInfo, clone, set_parents
    fi = prog.fn("graph2rdmol:stereo_mol_graph_to_rdmol")
    table: dict[str, str] = {}
    for n in ast.walk(fi.node):
        if isinstance(n, ast.Call) and call_name(n) == "isinstance" and len(
                n.args) == 2 and isinstance(n.args[0], ast.Name):
            cls = norm(n.args[1])
            if cls in ("Tetrahedral", "SquarePlanar", "TrigonalBipyramidal",
                       "Octahedral"):
                table.setdefault(n.args[0].id, "a_stereo")
            elif cls in ("PlanarBond", "AtropBond"):
                table.setdefault(n.args[0].id, "b_stereo")
        if isinstance(n, ast.Call) and isinstance(n.func, ast.Attribute) and \
                isinstance(n.func.value, ast.Name):
            if n.func.attr == "SetChiralTag":
                table.setdefault(n.func.value.id, "rd_atom")
            elif n.func.attr in ("SetStereo", "SetStereoAtoms"):
                table.setdefault(n.func.value.id, "rd_bond")
    # the E/Z section: the RDKit bond between the two bond atoms, the bond
    # atoms as the graph names them and as RDKit orders them
    rdb = {k for k, v in table.items() if v == "rd_bond"} | {"rd_bond"}
    simple = {}
    for n in ast.walk(fi.node):
        if isinstance(n, ast.Assign) and len(n.targets) == 1 and isinstance(
                n.targets[0], ast.Name):
            simple.setdefault(n.targets[0].id, []).append(n.value)
    for name, vals in simple.items():
        if len(vals) != 1:
            continue
        v = vals[0]
        if name in rdb and isinstance(v, ast.Call) and isinstance(
                v.func, ast.Attribute) and \
                v.func.attr == "GetBondBetweenAtoms" and len(v.args) == 2 \
                and all(isinstance(a, ast.Name) for a in v.args):
            for a, role, arole in zip(v.args, ("rd_a1", "rd_a2"),
                                      ("a1", "a2")):
                table.setdefault(a.id, role)
                d = simple.get(a.id, [])
                if len(d) == 1 and isinstance(d[0], ast.Subscript) and \
                        isinstance(d[0].value, ast.Name) and isinstance(
                        d[0].slice, ast.Name):
                    table.setdefault(d[0].slice.id, arole)
                    table.setdefault(d[0].value.id, "map_num_idx_dict")
        if isinstance(v, ast.Subscript) and isinstance(v.value, ast.Name) \
                and isinstance(v.slice, ast.Call) and isinstance(
                v.slice.func, ast.Attribute) and isinstance(
                v.slice.func.value, ast.Name) and \
                v.slice.func.value.id in rdb:
            if v.slice.func.attr == "GetBeginAtomIdx":
                table.setdefault(name, "new_a1")
                table.setdefault(v.value.id, "idx_map_num_dict")
            elif v.slice.func.attr == "GetEndAtomIdx":
                table.setdefault(name, "new_a2")
                table.setdefault(v.value.id, "idx_map_num_dict")
    # the atom loop: centre and the neighbour order RDKit reports
    a_names = {k for k, v in table.items() if v == "a_stereo"} | {"a_stereo"}
    rda = {k for k, v in table.items() if v == "rd_atom"} | {"rd_atom"}
    for n in ast.walk(fi.node):
        if isinstance(n, ast.For) and isinstance(n.target, ast.Tuple) and \
                len(n.target.elts) == 2 and all(
                isinstance(x, ast.Name) for x in n.target.elts) and \
                n.target.elts[1].id in a_names:
            table.setdefault(n.target.elts[0].id, "atom")
    nbr_names: list[str] = []
    for name, vals in simple.items():
        if vals and all(isinstance(v, ast.AST) for v in vals):
          for v_ in vals[:1] if len({norm(v) for v in vals}) == 1 else []:
            comps = [c for c in ast.walk(v_) if isinstance(
                c, (ast.ListComp, ast.GeneratorExp))]
            if any(isinstance(c.generators[0].iter, ast.Call) and isinstance(
                    c.generators[0].iter.func, ast.Attribute)
                    and c.generators[0].iter.func.attr == "GetNeighbors"
                    for c in comps):
                nbr_names.append(name)
    for n in ast.walk(fi.node):
        if isinstance(n, ast.Assign) and len(n.targets) == 1 and isinstance(
                n.targets[0], ast.Name) and n.targets[0].id in a_names and \
                isinstance(n.value, ast.Call) and isinstance(
                n.value.func, ast.Attribute) and \
                n.value.func.attr == "get_atom_stereo" and \
                len(n.value.args) == 1 and isinstance(
                n.value.args[0], ast.Name):
            table.setdefault(n.value.args[0].id, "atom")
    for name, vals in simple.items():
        if len(vals) == 1 and isinstance(vals[0], ast.Dict) and \
                vals[0].values and all("CHI_TETRAHEDRAL" in norm(v)
                                       for v in vals[0].values):
            table.setdefault(name, "rd_tetrahedral")
    all_names = {x.id for x in ast.walk(fi.node) if isinstance(x, ast.Name)}
    free = [r for r in ("rd_nbr_order", "neighbors", "rd_nbrs")
            if r not in all_names]
    for name in nbr_names:
        if name not in ("rd_nbr_order", "neighbors", "rd_nbrs") and free:
            table.setdefault(name, free.pop(0))
    used = {x.id for x in ast.walk(fi.node) if isinstance(x, ast.Name)}
    table = {k: v for k, v in table.items() if k != v and v not in used}
    if not table:
        return fi
    fn = clone(fi.node)
    for x in ast.walk(fn):
        if isinstance(x, ast.Name) and x.id in table:
            x.id = table[x.id]
    set_parents(fn)
    return FuncInfo(fi.qual, fi.module, fn, fi.cls)


def _helper_search_model(prog, fi, br, cls, k, imp_env):
    """The label search moved into a helper outside the inventory:

        label = helper(a_stereo, atom, nbrs, TABLE[, parity])
        ...SetUnsignedProp("_chiralPermutation", label)

    with `for label, order in table.items(): cand = (atom, *[nbrs[i] for i in
    order]); if Cls(cand, parity) == a_stereo: return label` inside.  The
    helper's loop is re-expressed at the call site (parameters replaced by
    the arguments) and handed to the ordinary model."""
    from .core import _Rename, clone, set_parents
    for call in ast.walk(br):
        if not (isinstance(call, ast.Call) and isinstance(
                call.func, ast.Name)):
            continue
        h = prog.functions.get(f"{fi.module.name}:{call.func.id}")
        if h is None or any(isinstance(a, ast.Starred) for a in call.args):
            continue
        loops = [n for n in h.node.body if isinstance(n, ast.For)]
        if len(loops) != 1:
            continue
        loop = loops[0]
        rets = [r for r in ast.walk(loop) if isinstance(r, ast.Return)
                and r.value is not None]
        if len(rets) != 1:
            continue

        def harmless(st):
            # docstring, local bindings, `if len(..) <op> ..: return None`
            # size guards (the pinned exporter has the same as `break`),
            # the final `return None`
            if isinstance(st, ast.Expr) and isinstance(st.value, ast.Constant):
                return True
            if isinstance(st, (ast.Assign, ast.AnnAssign)):
                return all(isinstance(t, ast.Name) for t in (
                    st.targets if isinstance(st, ast.Assign)
                    else [st.target]))
            if isinstance(st, ast.Return):
                return st.value is None or (isinstance(
                    st.value, ast.Constant) and st.value.value is None)
            if isinstance(st, ast.If) and not st.orelse and \
                    "len(" in norm(st.test) and all(
                        harmless(x) and isinstance(x, ast.Return)
                        for x in st.body):
                return True
            return False
        if not all(harmless(st) for st in h.node.body if st is not loop):
            continue
        seen = [h.qual]
        # bind parameters
        a = h.node.args
        params = [x.arg for x in a.posonlyargs + a.args]
        binding = dict(zip(params, call.args))
        for kw in call.keywords:
            if kw.arg:
                binding[kw.arg] = kw.value
        defaults = dict(zip(reversed(params), reversed(a.defaults)))
        for p_ in params:
            if p_ not in binding and p_ in defaults:
                binding[p_] = defaults[p_]
        if any(p_ not in binding for p_ in params):
            continue
        desc_param = next((p_ for p_, v in binding.items()
                           if norm(v) == "a_stereo"), None)
        if desc_param is None:
            continue
        new_loop = _Rename(binding).visit(clone(loop))
        # Cls of the descriptor: a_stereo.__class__(..) / type(a_stereo)(..)
        class _K(ast.NodeTransformer):
            def visit_Call(self, n):
                self.generic_visit(n)
                t = norm(n.func)
                if t in ("a_stereo.__class__", "type(a_stereo)"):
                    n.func = ast.Name(cls, ast.Load())
                return n
        new_loop = _K().visit(new_loop)
        ret = [r for r in ast.walk(new_loop) if isinstance(r, ast.Return)][0]
        setp = ast.Call(func=ast.Attribute(ast.Name("rd_atom", ast.Load()),
                                           "SetUnsignedProp", ast.Load()),
                        args=[ast.Constant("_chiralPermutation"), ret.value],
                        keywords=[])
        ast.copy_location(setp, call)
        ast.copy_location(new_loop, call)
        for n_ in ast.walk(new_loop):
            if hasattr(n_, "lineno"):
                n_.lineno = call.lineno
        ast.fix_missing_locations(new_loop)
        set_parents(new_loop)
        cmp_ = [c for c in ast.walk(new_loop) if isinstance(c, ast.Compare)
                and len(c.ops) == 1 and isinstance(c.ops[0], ast.Eq)
                and "a_stereo" in norm(c)]
        if not cmp_:
            continue
        c = cmp_[0]
        side = c.left if "a_stereo" not in norm(c.left) else c.comparators[0]
        raw = not (isinstance(side, ast.Call) and call_name(side) == cls)
        f0 = Fold(imp_env)
        f0.run(sorted([s_ for s_ in ast.walk(br) if isinstance(s_, ast.Assign)
                       and isinstance(s_.value, (ast.Dict, ast.Attribute))],
                      key=lambda s_: s_.lineno))
        it = new_loop.iter

        def table_value(e):
            """value of the table expression; a call of a module level
            function without arguments is evaluated through its body"""
            if isinstance(e, ast.Call) and isinstance(e.func, ast.Name) and \
                    not e.args and not e.keywords:
                g = prog.functions.get(f"{fi.module.name}:{e.func.id}")
                if g is not None:
                    seen.append(g.qual)
                    f1 = Fold(imp_env)
                    body = [st for st in g.node.body
                            if isinstance(st, (ast.Assign, ast.AnnAssign))]
                    f1.run(body)
                    rets_ = [st for st in g.node.body
                             if isinstance(st, ast.Return)]
                    if len(rets_) == 1 and rets_[0].value is not None:
                        return f1.ev(rets_[0].value)
                return UNK
            return f0.ev(e)
        rows = None
        if isinstance(it, ast.Call) and isinstance(it.func, ast.Attribute) \
                and it.func.attr == "items":
            tab = table_value(it.func.value)
            if isinstance(tab, dict):
                rows = list(tab.items())
        else:
            v = table_value(it)
            if isinstance(v, tuple):
                rows = list(v)
        if rows is None:
            continue
        result_names = set()
        for a_ in ast.walk(br):
            if isinstance(a_, ast.Assign) and a_.value is call:
                result_names |= {t.id for t in a_.targets
                                 if isinstance(t, ast.Name)}
        return {"loop": new_loop, "rows": rows, "cmp": c, "side": side,
                "raw": raw, "set": setp, "k": k, "branch": br,
                "result_names": result_names, "helper_call": call,
                "seen_through": seen}
    return None


def exporter_model(prog: Program) -> dict:
    fi = canon_exporter(prog)
    out: dict = {"_fi": fi}
    # tetrahedral tag table
    tags = {}
    for node in ast.walk(fi.node):
        if isinstance(node, ast.Assign) and isinstance(
                node.value, ast.Dict) and node.value.values and all(
                "CHI_TETRAHEDRAL" in norm(v) for v in node.value.values):
            for k, v in zip(node.value.keys, node.value.values):
                try:
                    tags[ast.literal_eval(k)] = norm(v).split(".")[-1]
                except Exception:
                    pass
    if not tags:
        raise AnalysisError("exporter: the table {parity: CHI_TETRAHEDRAL_*} "
                            "was not found as a dictionary literal")
    out["tetrahedral_tags"] = tags

    def branch(cls):
        for node in ast.walk(fi.node):
            if isinstance(node, ast.If) and f"isinstance(a_stereo, {cls})" in \
                    norm(node.test, 300).replace("\n", ""):
                # only this branch, not the elif chain hanging off it
                m = ast.Module(body=node.body, type_ignores=[])
                m.lineno = node.lineno
                return m
        raise AnalysisError(f"exporter branch for {cls} vanished")

    # -- searches (SP, TB): loop over a table, candidate == a_stereo ----------
    # literal tables of the importer class (the exporter may iterate them)
    imp_env = {}
    ici = prog.classes.get("RDMol2StereoMolGraph")
    if ici is not None:
        for name, node in ici.assigns.items():
            try:
                imp_env[f"RDMol2StereoMolGraph.{name}"] = const(node)
            except Exception:
                pass
    for cls, k in (("SquarePlanar", 4), ("TrigonalBipyramidal", 5),
                   ("Octahedral", 6)):
        br = branch(cls)
        loops = [n for n in ast.walk(br) if isinstance(n, ast.For)]
        model = None
        for loop in loops:
            cmp_ = [c for c in ast.walk(loop) if isinstance(c, ast.Compare)
                    and len(c.ops) == 1 and isinstance(c.ops[0], ast.Eq)
                    and "a_stereo" in norm(c)]
            setp = [c for c in ast.walk(loop) if isinstance(c, ast.Call)
                    and norm(c.func).endswith("SetUnsignedProp")]
            if not cmp_ or not setp:
                continue
            c = cmp_[0]
            side = c.left if "a_stereo" not in norm(c.left) else c.comparators[0]
            raw = not (isinstance(side, ast.Call) and call_name(side) == cls)
            # rows of the iterated table
            f0 = Fold(imp_env)
            f0.run(sorted([s for s in ast.walk(br) if isinstance(s, ast.Assign)
                           and isinstance(s.value, (ast.Dict, ast.Attribute))],
                          key=lambda s: s.lineno))
            it = loop.iter
            rows = None
            if isinstance(it, ast.Call) and isinstance(it.func, ast.Attribute) \
                    and it.func.attr == "items":
                tab = f0.ev(it.func.value)
                if isinstance(tab, dict):
                    rows = list(tab.items())
            else:
                v = f0.ev(it)
                if isinstance(v, tuple):
                    rows = list(v)
            if rows is None:
                continue
            model = {"loop": loop, "rows": rows, "cmp": c, "side": side,
                     "raw": raw, "set": setp[0], "k": k, "branch": br}
        if model is None:
            model = _helper_search_model(prog, fi, br, cls, k, imp_env)
        if model is not None:
            # label assignments outside the table search (fast paths):
            # `if ... a_stereo == Cls(<atoms>, <parity>): Set(label)`
            from .core import ancestors
            extra, unparsed = [], []
            for call in ast.walk(br):
                if not (isinstance(call, ast.Call) and norm(
                        call.func).endswith("SetUnsignedProp")
                        and len(call.args) == 2
                        and "_chiralPermutation" in norm(call.args[0])):
                    continue
                if any(x is call for x in ast.walk(model["loop"])):
                    continue
                # the label computed by the search helper
                if isinstance(call.args[1], ast.Name) and call.args[1].id in \
                        model.get("result_names", ()):
                    continue
                if call.args[1] is model.get("helper_call"):
                    continue
                cand = None
                for a in ancestors(call):
                    if a is br:
                        break
                    if isinstance(a, ast.If):
                        for cmpn in ast.walk(a.test):
                            if isinstance(cmpn, ast.Compare) and len(
                                    cmpn.ops) == 1 and isinstance(
                                    cmpn.ops[0], ast.Eq) and \
                                    "a_stereo" in norm(cmpn):
                                sd = cmpn.left if "a_stereo" not in norm(
                                    cmpn.left) else cmpn.comparators[0]
                                if isinstance(sd, ast.Call) and \
                                        call_name(sd) == cls:
                                    cand = sd
                        if cand is not None:
                            break
                if cand is None:
                    unparsed.append(call)
                    continue
                kw = {x.arg: x.value for x in cand.keywords}
                a_e = cand.args[0] if cand.args else kw.get("atoms")
                p_e = cand.args[1] if len(cand.args) > 1 else kw.get("parity")
                nbrs = tuple(f"n{i}" for i in range(k))
                f1 = Fold({"atom": "c", "neighbors": nbrs,
                           "rd_nbr_order": nbrs, "rd_nbrs": nbrs})
                av = f1.ev(a_e) if a_e is not None else UNK
                if p_e is not None and norm(p_e) == "a_stereo.parity":
                    pv = "SAME"
                else:
                    pv = f1.ev(p_e) if p_e is not None else UNK
                lv = f1.ev(call.args[1])
                if UNK in (av, pv, lv):
                    unparsed.append(call)
                else:
                    extra.append((lv, av, pv, call.lineno <
                                  model["loop"].lineno, call))
            model["extra"] = extra
            model["extra_unparsed"] = unparsed
        out[cls] = model
    def dead(n):
        from .core import ancestors
        prev = n
        for a in ancestors(n):
            if isinstance(a, ast.If) and isinstance(a.test, ast.Constant) \
                    and a.test.value is False and any(
                    prev is b for b in a.body):
                return True
            prev = a
        return False
    out["bond_rewrites"] = [n for n in ast.walk(fi.node)
                            if isinstance(n, ast.Call) and norm(n.func) in (
                                "mol.RemoveBond", "mol.AddBond")
                            and not dead(n)]
    if out.get("Octahedral") is not None:
        return _tetra(out, branch)
    # -- octahedral: bond re-insertion order + parity labels -----------------
    br = branch("Octahedral")
    order = None
    for loop in ast.walk(br):
        if isinstance(loop, ast.For) and isinstance(loop.iter, ast.Tuple) and \
                any(isinstance(x, ast.Call) and norm(x.func) == "mol.AddBond"
                    for x in ast.walk(loop)):
            try:
                order = tuple(ast.literal_eval(loop.iter))
            except Exception:
                order = None
    labels = {}
    for node in ast.walk(br):
        if isinstance(node, ast.If) and "a_stereo.parity ==" in norm(node.test):
            try:
                p = ast.literal_eval(node.test.comparators[0])
            except Exception:
                continue
            for c in ast.walk(ast.Module(body=node.body, type_ignores=[])):
                if isinstance(c, ast.Call) and norm(c.func).endswith(
                        "SetUnsignedProp") and len(c.args) == 2:
                    try:
                        labels[p] = ast.literal_eval(c.args[1])
                    except Exception:
                        pass
    removes = any(isinstance(x, ast.Call) and norm(x.func) == "mol.RemoveBond"
                  for x in ast.walk(br))
    out["Octahedral"] = {"order": order, "labels": labels, "removes": removes,
                         "branch": br}
    return _tetra(out, branch)


def _tetra(out, branch):
    br = branch("Tetrahedral")
    cmp_ = [c for c in ast.walk(br) if isinstance(c, ast.Compare)
            and isinstance(c.ops[0], (ast.Eq, ast.In))
            and ("a_stereo" in (norm(c.left), norm(c.comparators[0]))
                 or "a_stereo._perm_atoms" in norm(c)
                 or "a_stereo.atoms" in norm(c) and "len(" not in norm(c))]
    out["Tetrahedral"] = {"branch": br, "cmps": cmp_}
    return out


def candidate_atoms(model: dict, row, k: int):
    """Symbolic atom tuple of the candidate descriptor the exporter builds
    for one table row (RDKit neighbours n0..n{k-1}, centre c)."""
    loop = model["loop"]
    env = {"atom": "c", "neighbors": tuple(f"n{i}" for i in range(k)),
           "rd_nbr_order": tuple(f"n{i}" for i in range(k)),
           "rd_nbrs": tuple(f"n{i}" for i in range(k))}
    tgt = loop.target
    if isinstance(tgt, ast.Tuple) and len(tgt.elts) == 2:
        env[norm(tgt.elts[0])] = row[0]
        env[norm(tgt.elts[1])] = row[1]
    f = Fold(env)
    stmts = []
    for st in ast.walk(loop):
        if isinstance(st, (ast.Assign, ast.AnnAssign)):
            stmts.append(st)
    stmts.sort(key=lambda s: s.lineno)
    f.run(stmts)
    side = model["side"]
    if isinstance(side, ast.Call):
        a = f.ev(side.args[0]) if side.args else UNK
        p = f.ev(side.args[1]) if len(side.args) > 1 else UNK
        return a, p, f
    return f.ev(side), UNK, f


def label_of_row(model: dict, row):
    loop = model["loop"]
    tgt = loop.target
    env = {}
    if isinstance(tgt, ast.Tuple) and len(tgt.elts) == 2:
        env[norm(tgt.elts[0])] = row[0]
        env[norm(tgt.elts[1])] = row[1]
    return Fold(env).ev(model["set"].args[1])


def all_orders(symbols):
    return list(permutations(symbols))
