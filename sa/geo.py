"""A2 -- geometric kinds.

Abstract interpretation of the numpy code in coords.py / xyz2graph.py over the
kinds
    P   point(s)            (translation- and rotation-variant)
    V   difference vector   (rotation-variant, translation-invariant)
    PV  pseudo vector       (cross product of two vectors)
    S   scalar              (invariant under all isometries)
    PS  pseudo scalar       (changes sign under reflection, else invariant)
    EW(a,b) element-wise product awaiting a sum over the last axis
    B   boolean decision derived from scalars
    I   index / integer data that does not depend on coordinates' frame
    N   non-geometric (constants, thresholds, buffers)
    T   tainted: depends on the coordinate frame

Only the numpy idioms that occur in the repository are given transfer
functions; everything else applied to P/V/PV yields T.
"""
from __future__ import annotations

import ast
from dataclasses import dataclass

from .core import FuncInfo, Program, call_name, norm


@dataclass(frozen=True)
class K:
    k: str                  # P V PV S PS EW B I N T
    rank: int = 1           # for P/V/PV: 1 = array of rows, 0 = one row
    a: str = ""             # EW operands
    b: str = ""
    why: str = ""

    def __repr__(self):
        if self.k == "EW":
            return f"EW({self.a},{self.b})"
        return self.k


N = K("N")
S = K("S")
PS = K("PS")
B = K("B")
I = K("I")


def T(why: str) -> K:
    return K("T", why=why)


VECS = ("V", "PV")


def dot_kind(a: str, b: str) -> K:
    if a in VECS and b in VECS:
        return PS if (a == "PV") != (b == "PV") else S
    return T(f"dot of {a} and {b}")


class Geo:
    def __init__(self, prog: Program, fi: FuncInfo, env: dict[str, K],
                 summaries: dict[str, K]):
        self.prog = prog
        self.fi = fi
        self.env = dict(env)
        self.summ = summaries
        self.decisions: list[tuple[ast.AST, K, str]] = []
        self.returns: list[tuple[ast.AST, K]] = []
        self.ctor_calls: list[tuple[ast.Call, list[K]]] = []
        self.taints: list[tuple[ast.AST, str]] = []

    # -- expressions ----------------------------------------------------------
    def ev(self, e: ast.AST) -> K:
        k = self._ev(e)
        if k.k == "T":
            self.taints.append((e, k.why))
        return k

    def _ev(self, e: ast.AST) -> K:
        if isinstance(e, ast.Constant):
            return N
        if isinstance(e, ast.Name):
            return self.env.get(e.id, N)
        if isinstance(e, (ast.Tuple, ast.List)):
            ks = [self._ev(x.value if isinstance(x, ast.Starred) else x)
                  for x in e.elts]
            geo = [k for k in ks if k.k not in ("N", "I")]
            if not geo:
                return I if any(k.k == "I" for k in ks) else N
            if all(k.k == geo[0].k for k in geo):
                return K(geo[0].k, 1)
            return T("mixed list")
        if isinstance(e, ast.UnaryOp):
            k = self._ev(e.operand)
            if isinstance(e.op, ast.Not):
                return B if k.k in ("B", "N", "I") else T("not on geometry")
            return k
        if isinstance(e, ast.BinOp):
            return self.binop(e.op, self._ev(e.left), self._ev(e.right), e)
        if isinstance(e, ast.BoolOp):
            ks = [self._ev(v) for v in e.values]
            if all(k.k in ("B", "N", "I") for k in ks):
                return B
            if all(k.k in ("B", "N", "I", "BPS") for k in ks):
                return K("BPS")
            return T("boolean of non-scalar")
        if isinstance(e, ast.Compare):
            ks = [self._ev(e.left)] + [self._ev(c) for c in e.comparators]
            if all(k.k in ("S", "N", "I", "B") for k in ks):
                return B if any(k.k == "S" for k in ks) else \
                    (I if all(k.k in ("N", "I") for k in ks) else B)
            if any(k.k == "PS" for k in ks) and all(
                    k.k in ("PS", "N", "I") for k in ks):
                return K("BPS")
            return T(f"comparison of {[k.k for k in ks]}")
        if isinstance(e, ast.IfExp):
            t = self._ev(e.test)
            self.decisions.append((e.test, t, "conditional expression"))
            a, b = self._ev(e.body), self._ev(e.orelse)
            return self.join(a, b)
        if isinstance(e, ast.Subscript):
            return self.subscript(e)
        if isinstance(e, ast.Attribute):
            base = self._ev(e.value)
            if e.attr in ("shape", "dtype", "ndim", "size"):
                return N
            if e.attr == "T":
                return base
            return base if base.k in ("N", "I") else N
        if isinstance(e, ast.Call):
            return self.call(e)
        if isinstance(e, (ast.ListComp, ast.GeneratorExp, ast.SetComp)):
            sub = Geo(self.prog, self.fi, self.env, self.summ)
            for g in e.generators:
                sub.bind(g.target, sub.elem(sub._ev(g.iter)))
            k = sub._ev(e.elt)
            self.taints += sub.taints
            if k.k in ("P", "V", "PV"):
                return K(k.k, 1)
            return k
        if isinstance(e, ast.NamedExpr):
            k = self._ev(e.value)
            self.bind(e.target, k)
            return k
        if isinstance(e, ast.JoinedStr):
            return N
        return N

    def join(self, a: K, b: K) -> K:
        if a == b or b.k == "N":
            return a
        if a.k == "N":
            return b
        if a.k == b.k:
            return a
        if {a.k, b.k} <= {"N", "I"}:
            return I
        return T(f"join of {a} and {b}")

    def binop(self, op, a: K, b: K, node) -> K:
        ak, bk = a.k, b.k
        num = ("N", "I")
        if ak in num and bk in num:
            return I if "I" in (ak, bk) else N
        if isinstance(op, (ast.Sub, ast.Add)):
            if ak == "P" and bk == "P":
                if isinstance(op, ast.Sub):
                    return K("V", min(a.rank, b.rank) if a.rank != b.rank
                             else a.rank)
                return T("sum of two points")
            if ak in VECS and bk == ak:
                return K(ak, max(a.rank, b.rank))
            if ak in ("S", "PS") and (bk == ak or bk in num):
                return a
            if bk in ("S", "PS") and ak in num:
                return b
            if ak in num and bk in num:
                return N
            return T(f"{ak} {'-' if isinstance(op, ast.Sub) else '+'} {bk}")
        if isinstance(op, ast.Mult):
            if ak in num:
                return b
            if bk in num:
                return a
            if ak in ("S", "PS") and bk in ("S", "PS"):
                return PS if (ak == "PS") != (bk == "PS") else S
            if ak in VECS and bk in ("S",):
                return a
            if bk in VECS and ak in ("S",):
                return b
            if ak in VECS and bk in VECS:
                return K("EW", a=ak, b=bk)
            return T(f"{ak} * {bk}")
        if isinstance(op, (ast.Div, ast.FloorDiv)):
            if bk in num:
                return a
            if bk == "S" and ak in ("V", "PV", "S", "PS"):
                return a
            if ak in num and bk == "S":
                return S
            return T(f"{ak} / {bk}")
        if isinstance(op, ast.Pow):
            if ak in ("S",) and bk in num:
                return S
            if ak == "PS" and bk in num:
                return S        # even powers in practice; odd would be PS
            return T(f"{ak} ** {bk}")
        if isinstance(op, ast.MatMult):
            return dot_kind(ak, bk)
        return T(f"operator on {ak}, {bk}")

    def subscript(self, e: ast.Subscript) -> K:
        base = self._ev(e.value)
        sl = e.slice
        if base.k in ("P", "V", "PV"):
            if base.rank == 0:
                return T(f"component access `{norm(e)}`")
            # row selection forms
            if isinstance(sl, ast.Tuple):
                last = sl.elts[-1]
                if isinstance(last, ast.Slice) and last.lower is None and \
                        last.upper is None:
                    ints = [x for x in sl.elts[:-1]
                            if not isinstance(x, (ast.Slice,)) and not (
                                isinstance(x, ast.Constant)
                                and x.value is Ellipsis)]
                    has_none = any(isinstance(x, ast.Constant)
                                   and x.value is None for x in sl.elts)
                    if has_none:
                        return K(base.k, 1)          # broadcasting axes
                    return K(base.k, 0 if ints else 1)
                return T(f"component access `{norm(e)}`")
            if isinstance(sl, ast.Constant) and isinstance(sl.value, int):
                return K(base.k, base.rank - 1)
            if isinstance(sl, ast.Slice):
                return base
            ik = self._ev(sl)
            if ik.k in ("I", "N"):
                # fancy row index (list / array / name of indices)
                if isinstance(sl, (ast.List, ast.ListComp, ast.Name,
                                   ast.Call, ast.Tuple)):
                    return K(base.k, 1)
            return T(f"index `{norm(e)}`")
        if base.k in ("S", "PS", "B", "I"):
            return base
        if base.k == "EW":
            return T("component of a product")
        return base

    def elem(self, k: K) -> K:
        if k.k in ("P", "V", "PV"):
            return K(k.k, max(k.rank - 1, 0))
        return k

    def call(self, e: ast.Call) -> K:
        cn = call_name(e) or ""
        args = [self._ev(a.value if isinstance(a, ast.Starred) else a)
                for a in e.args]
        kw = {k.arg: k.value for k in e.keywords}
        # arguments of package functions count however they are passed
        if cn in self.summ or cn.split(".")[-1] in self.summ:
            args += [self._ev(k.value) for k in e.keywords
                     if k.arg not in ("out", "axis", "dtype")]
        out_name = norm(kw["out"]) if "out" in kw else None
        res: K | None = None
        short = cn.split(".")[-1]
        if isinstance(e.func, ast.Attribute) and not cn.startswith(
                ("np.", "numpy.", "itertools.")):
            recv = self._ev(e.func.value)
            m = e.func.attr
            if m in ("astype", "copy", "squeeze", "view", "item", "reshape"):
                return recv
            if m == "take" and recv.k in ("P", "V", "PV"):
                return K(recv.k, 1)
            if m in ("argmax", "argmin", "argsort") and recv.k == "S":
                return I
            if m in ("argmax", "argmin", "argsort"):
                return T(f"{m} over {recv.k}")
            if m in ("sum",) and recv.k == "EW":
                return dot_kind(recv.a, recv.b)
            if m in ("append", "add", "rotate", "intersection", "difference",
                     "pop"):
                return N if recv.k in ("N", "I") else recv
            if recv.k in ("N", "I"):
                return recv
        if short == "cross" and len(args) >= 2:
            a, b = args[0].k, args[1].k
            if a == "V" and b == "V":
                res = K("PV", max(args[0].rank, args[1].rank))
            elif {a, b} == {"V", "PV"}:
                res = K("V", 1)
            else:
                res = T(f"cross of {a}, {b}")
        elif short == "norm" and args:
            res = S if args[0].k in VECS else (
                S if args[0].k in ("S",) else T(f"norm of {args[0].k}"))
        elif short == "dot" and len(args) >= 2:
            res = dot_kind(args[0].k, args[1].k)
        elif short == "einsum" and len(args) >= 3:
            spec = e.args[0].value if isinstance(e.args[0], ast.Constant) else ""
            if spec.replace(" ", "") == "...i,...i->...":
                res = dot_kind(args[1].k, args[2].k)
            else:
                res = T(f"einsum {spec}")
        elif short == "sum" and args:
            ax = norm(kw["axis"]) if "axis" in kw else (
                norm(e.args[1]) if len(e.args) > 1 else None)
            if args[0].k == "EW" and ax == "-1":
                res = dot_kind(args[0].a, args[0].b)
            elif args[0].k in ("S", "PS", "N", "I"):
                res = args[0]
            else:
                res = T(f"sum of {args[0]} over axis {ax}")
        elif short in ("multiply",) and len(args) >= 2:
            res = self.binop(ast.Mult(), args[0], args[1], e)
        elif short in ("divide",) and len(args) >= 2:
            res = self.binop(ast.Div(), args[0], args[1], e)
        elif short == "square" and args:
            res = K("EW", a=args[0].k, b=args[0].k) if args[0].k in VECS \
                else (S if args[0].k in ("S", "PS") else T("square"))
        elif short in ("abs", "absolute", "fabs") and args:
            res = S if args[0].k in ("S", "PS") else (
                N if args[0].k in ("N", "I") else T(f"abs of {args[0].k}"))
        elif short in ("sign", "int", "float", "round", "negative") and args:
            res = args[0] if args[0].k in ("S", "PS", "N", "I") else \
                T(f"{short} of {args[0].k}")
        elif short in ("sqrt", "arccos", "clip", "rad2deg", "deg2rad",
                       "cos", "sin", "exp", "log") and args:
            res = S if args[0].k == "S" else (
                N if args[0].k in ("N", "I") else T(f"{short} of {args[0].k}"))
        elif short in ("any", "all") and args:
            res = B if args[0].k in ("B", "N", "I") else T(f"{short} of {args[0].k}")
        elif short in ("where",) and args:
            res = I if args[0].k in ("B",) else T("where on non-boolean")
        elif short in ("array", "asarray", "column_stack", "stack") and args:
            res = args[0]
        elif short in ("empty", "zeros", "ones", "full", "zeros_like",
                       "empty_like", "dtype", "issubdtype", "len", "range",
                       "enumerate", "zip", "deque", "set", "tuple", "list",
                       "isinstance", "shape", "errstate", "bool_", "max",
                       "min", "sorted", "print"):
            if short in ("tuple", "list", "set", "deque", "sorted", "max",
                         "min") and args and args[0].k not in ("N", "I"):
                res = args[0]
            else:
                res = N if short not in ("range", "enumerate") else I
        elif short in ("combinations", "permutations", "product") and args:
            if args[0].k == "P":
                res = K("P", 2)       # iterating gives tuples of points
            else:
                res = I if args[0].k in ("I", "N") else args[0]
        elif cn in self.summ:
            res = self.summ[cn]
        elif short in self.summ:
            res = self.summ[short]
        if res is None:
            geo = [a for a in args if a.k in ("P", "V", "PV", "EW", "T")]
            res = T(f"unmodelled call {cn or norm(e.func)} on "
                    f"{[a.k for a in geo]}") if geo else N
        if out_name:
            self.env[out_name] = res
        return res

    # -- statements -----------------------------------------------------------
    def bind(self, target: ast.AST, k: K) -> None:
        if isinstance(target, ast.Name):
            self.env[target.id] = k
        elif isinstance(target, (ast.Tuple, ast.List)):
            ek = self.elem(k) if k.k in ("P", "V", "PV") else k
            for t in target.elts:
                self.bind(t.value if isinstance(t, ast.Starred) else t, ek)

    def block(self, stmts) -> None:
        for st in stmts:
            self.stmt(st)

    def stmt(self, st: ast.AST) -> None:
        if isinstance(st, ast.Assign):
            k = self.ev(st.value)
            for t in st.targets:
                if isinstance(t, (ast.Name, ast.Tuple, ast.List)):
                    if isinstance(t, (ast.Tuple, ast.List)) and isinstance(
                            st.value, (ast.Tuple, ast.List)) and len(
                            t.elts) == len(st.value.elts):
                        for tt, vv in zip(t.elts, st.value.elts):
                            self.bind(tt, self.ev(vv))
                    else:
                        self.bind(t, k)
        elif isinstance(st, ast.AnnAssign) and st.value is not None:
            self.bind(st.target, self.ev(st.value))
        elif isinstance(st, ast.AugAssign):
            cur = self.ev(st.target)
            new = self.binop(st.op, cur, self.ev(st.value), st)
            if new.k == "T":
                self.taints.append((st, new.why))
            if isinstance(st.target, ast.Name):
                self.env[st.target.id] = new
        elif isinstance(st, ast.Expr):
            self.ev(st.value)
        elif isinstance(st, ast.If):
            t = self.ev(st.test)
            self.decisions.append((st.test, t, "if"))
            before = dict(self.env)
            self.block(st.body)
            a = self.env
            self.env = dict(before)
            self.block(st.orelse)
            for name in set(a) | set(self.env):
                ka, kb = a.get(name), self.env.get(name)
                if ka is None or kb is None:
                    self.env[name] = ka or kb
                else:
                    self.env[name] = self.join(ka, kb)
        elif isinstance(st, ast.For):
            it = self.ev(st.iter)
            self.bind(st.target, self.elem(it))
            self.block(st.body)
            self.block(st.body)
            self.block(st.orelse)
        elif isinstance(st, ast.While):
            t = self.ev(st.test)
            self.decisions.append((st.test, t, "while"))
            self.block(st.body)
        elif isinstance(st, ast.Return):
            if st.value is not None:
                k = self.ev(st.value)
                self.returns.append((st, k))
                for c in ast.walk(st.value):
                    self.note_ctor(c)
        elif isinstance(st, ast.Assert):
            self._ev(st.test)       # sanity checks are not decisions
        elif isinstance(st, ast.With):
            self.block(st.body)
        elif isinstance(st, ast.Try):
            self.block(st.body)
        if not isinstance(st, ast.Return):
            for c in ast.walk(st):
                if isinstance(c, ast.Call) and not isinstance(
                        st, (ast.If, ast.For, ast.While, ast.With)):
                    self.note_ctor(c)

    def note_ctor(self, c: ast.AST) -> None:
        if isinstance(c, ast.Call) and call_name(c) in (
                "Tetrahedral", "SquarePlanar", "TrigonalBipyramidal",
                "Octahedral", "PlanarBond", "AtropBond"):
            if not any(c is x for x, _ in self.ctor_calls):
                ks = [self._ev(a) for a in c.args] + [
                    self._ev(k.value) for k in c.keywords]
                self.ctor_calls.append((c, ks))

    def run(self) -> "Geo":
        self.block(self.fi.node.body)
        return self
