"""Sensitivity self-test (thorough tier) -- filled in later."""
def run(prop, res):
    return
