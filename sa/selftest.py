"""Sensitivity self-test of the rules (thorough tier).

Each variant is an in-memory edit of the *current* sources (never written to
disk, never executed): a breaking variant must make the property's check
report a new finding, a benign variant must leave it silent.  A variant whose
anchor text is absent from the current tree is skipped.  Results go to the
evidence file; they never turn into a VIOLATION of the real tree.
"""
from __future__ import annotations

import os
from concurrent.futures import ProcessPoolExecutor

from .core import PKG_REL, REPO, Program
from .report import Result


def _apply(variant) -> dict[str, str] | None:
    overrides: dict[str, str] = {}
    for rel, old, new in variant["edits"]:
        path = REPO / PKG_REL / rel
        key = f"{PKG_REL}/{rel}"
        src = overrides.get(key)
        if src is None:
            if not path.exists():
                return None
            src = path.read_text()
        if src.count(old) != 1:
            return None
        overrides[key] = src.replace(old, new)
    return overrides


def _run_variant(args):
    prop, variant, base_ids, base_errs = args
    from .main import run_property
    ov = _apply(variant)
    if ov is None:
        return variant["name"], "skipped", []
    try:
        prog = Program(overrides=ov)
        res = run_property(prop, "quick", prog)
    except Exception as e:  # pragma: no cover
        return variant["name"], f"crash: {e!r}", []
    new = [f.ident() for f in res.findings if f.ident() not in base_ids]
    new_err = [e for e in res.errors if e not in base_errs]
    if variant["expect"] == "fire":
        want_rule = variant.get("rule")
        hit = [i for i in new if not want_rule or i.startswith(want_rule + "|")]
        if hit:
            return variant["name"], "fired", hit[:3]
        if new:
            return variant["name"], "fired-other-rule", new[:3]
        if new_err:
            return variant["name"], "analysis-error-only", new_err[:2]
        return variant["name"], "MISSED", []
    else:
        if new or new_err:
            return variant["name"], "FALSE-ALARM", (new + new_err)[:3]
        return variant["name"], "silent", []


def run(prop: str, res: Result) -> None:
    from .variants import VARIANTS
    variants = VARIANTS.get(prop, [])
    if not variants:
        res.extra["selftest"] = {"variants": 0}
        return
    base_ids = {f.ident() for f in res.findings}
    base_errs = list(res.errors)
    jobs = [(prop, v, base_ids, base_errs) for v in variants]
    workers = min(16, len(jobs), os.cpu_count() or 1)
    if workers > 1:
        with ProcessPoolExecutor(max_workers=workers) as ex:
            outs = list(ex.map(_run_variant, jobs))
    else:
        outs = [_run_variant(j) for j in jobs]
    table = []
    bad = []
    for (name, verdict, detail), v in zip(outs, variants):
        table.append({"variant": name, "expect": v["expect"],
                      "verdict": verdict, "detail": detail})
        if verdict in ("MISSED", "FALSE-ALARM") or verdict.startswith("crash"):
            bad.append(f"{name}: {verdict} {detail}")
    res.extra["selftest"] = {
        "variants": len(variants),
        "fired": sum(1 for _, v, _ in outs if v.startswith("fired")),
        "silent": sum(1 for _, v, _ in outs if v == "silent"),
        "skipped": sum(1 for _, v, _ in outs if v == "skipped"),
        "analysis_error_only": sum(1 for _, v, _ in outs
                                   if v == "analysis-error-only"),
        "problems": bad,
        "table": table,
    }
    for b in bad:
        res.notes.append(f"self-test: {b}")
    print(f"   self-test: {len(variants)} variants, "
          f"{res.extra['selftest']['fired']} fired, "
          f"{res.extra['selftest']['silent']} silent, "
          f"{res.extra['selftest']['skipped']} skipped, "
          f"{len(bad)} problems")
