"""Sensitivity self-test of the rules (thorough tier).

Each variant is an in-memory edit of the *current* sources (never written to
disk, never executed): a breaking variant must make the property's check
report a new finding, a benign variant must leave it silent.  A variant whose
anchor text is absent from the current tree is skipped.  Results go to the
evidence file; they never turn into a VIOLATION of the real tree.
"""
from __future__ import annotations

import os
from concurrent.futures import ProcessPoolExecutor

from .core import PKG_REL, REPO, Program
from .report import Result


def _apply(variant) -> dict[str, str] | None:
    overrides: dict[str, str] = {}
    for rel, old, new in variant["edits"]:
        path = REPO / PKG_REL / rel
        key = f"{PKG_REL}/{rel}"
        src = overrides.get(key)
        if src is None:
            if not path.exists():
                return None
            src = path.read_text()
        if src.count(old) != 1:
            return None
        overrides[key] = src.replace(old, new)
    return overrides


def apply_patch(patch_text: str) -> dict[str, str] | None:
    """In-memory application of a unified diff to the current sources
    (strict context match, hunks may have moved); None when it does not
    apply.  Returns {path relative to the repository: new text}."""
    files: dict[str, list[list[str]]] = {}
    cur = None
    hunk = None
    for line in patch_text.splitlines():
        if line.startswith("+++ "):
            path = line[4:].strip()
            path = path[2:] if path.startswith("b/") else path
            cur = files.setdefault(path, [])
            hunk = None
        elif line.startswith("--- ") or line.startswith("diff ") or \
                line.startswith("index "):
            continue
        elif line.startswith("@@") and cur is not None:
            hunk = []
            cur.append(hunk)
        elif hunk is not None and line[:1] in (" ", "+", "-"):
            hunk.append(line)
        elif hunk is not None and line == "":
            hunk.append(" ")
    out: dict[str, str] = {}
    for rel, hunks in files.items():
        path = REPO / rel
        if not path.exists():
            return None
        lines = path.read_text().split("\n")
        pos = 0
        for h in hunks:
            old = [l[1:] for l in h if l[:1] in (" ", "-")]
            new = [l[1:] for l in h if l[:1] in (" ", "+")]
            hit = None
            for i in range(pos, len(lines) - len(old) + 1):
                if lines[i:i + len(old)] == old:
                    hit = i
                    break
            if hit is None:
                return None
            lines[hit:hit + len(old)] = new
            pos = hit + len(new)
        out[rel] = "\n".join(lines)
    return out


def patch_variants(prop: str) -> list[dict]:
    """The committed corpora as variants: every behaviour preserving refactor
    under /verif/benign must stay silent for every property; every seeded
    change written against this property must be reported (seeds recorded as
    not caught by their own check are listed, not counted as problems)."""
    import json
    from pathlib import Path
    root = Path(__file__).resolve().parent.parent
    out = []
    for d in sorted((root / "benign").glob("*/")):
        pf = d / "patch.diff"
        if pf.exists():
            out.append({"name": f"benign/{d.name}", "expect": "silent",
                        "patch": pf.read_text(), "rule": None})
    for d in sorted((root / "seeded").glob(f"{prop}-*/")):
        pf, mf = d / "patch.diff", d / "meta.json"
        if not pf.exists():
            continue
        documented_miss = False
        if mf.exists():
            try:
                documented_miss = not json.loads(mf.read_text()).get(
                    "caught_by_own_property", True)
            except Exception:
                pass
        out.append({"name": f"seeded/{d.name}",
                    "expect": "documented-miss" if documented_miss else "fire",
                    "patch": pf.read_text(), "rule": None})
    return out


def _run_variant(args):
    prop, variant, base_ids, base_errs = args
    from .main import run_property
    ov = apply_patch(variant["patch"]) if "patch" in variant else \
        _apply(variant)
    if ov is None:
        return variant["name"], "skipped", []
    try:
        prog = Program(overrides=ov)
        res = run_property(prop, "quick", prog)
    except Exception as e:  # pragma: no cover
        return variant["name"], f"crash: {e!r}", []
    new = [f.ident() for f in res.findings if f.ident() not in base_ids]
    new_err = [e for e in res.errors if e not in base_errs]
    if variant["expect"] == "documented-miss":
        return variant["name"], ("fired" if new else "documented-miss"), \
            (new or new_err)[:2]
    if variant["expect"] == "fire":
        want_rule = variant.get("rule")
        hit = [i for i in new if not want_rule or i.startswith(want_rule + "|")]
        if hit:
            return variant["name"], "fired", hit[:3]
        if new:
            return variant["name"], "fired-other-rule", new[:3]
        if new_err:
            return variant["name"], "analysis-error-only", new_err[:2]
        return variant["name"], "MISSED", []
    else:
        if new:
            return variant["name"], "FALSE-ALARM", new[:3]
        if new_err:     # the rule gave up (exit 2), it did not accuse the code
            return variant["name"], "unrecognised", new_err[:3]
        return variant["name"], "silent", []


# seeds whose mechanism is documented as undecidable by shape (DESIGN 9.3)
ERROR_ONLY_ACCEPTED = {"C13-s1", "C18-s11"}


def run(prop: str, res: Result) -> None:
    from .variants import VARIANTS
    variants = list(VARIANTS.get(prop, [])) + patch_variants(prop)
    if not variants:
        res.extra["selftest"] = {"variants": 0}
        return
    base_ids = {f.ident() for f in res.findings}
    base_errs = list(res.errors)
    jobs = [(prop, v, base_ids, base_errs) for v in variants]
    workers = min(16, len(jobs), os.cpu_count() or 1)
    if workers > 1:
        with ProcessPoolExecutor(max_workers=workers) as ex:
            outs = list(ex.map(_run_variant, jobs))
    else:
        outs = [_run_variant(j) for j in jobs]
    table = []
    bad = []
    for (name, verdict, detail), v in zip(outs, variants):
        table.append({"variant": name, "expect": v["expect"],
                      "verdict": verdict, "detail": detail})
        if verdict in ("MISSED", "FALSE-ALARM") or verdict.startswith("crash"):
            bad.append(f"{name}: {verdict} {detail}")
        elif verdict == "analysis-error-only" and name.split("/")[-1] \
                not in ERROR_ONLY_ACCEPTED:
            # a seeded defect that used to be reported and now only makes a
            # rule give up is a regression of the machinery
            bad.append(f"{name}: {verdict} {detail}")
    res.extra["selftest"] = {
        "variants": len(variants),
        "fired": sum(1 for _, v, _ in outs if v.startswith("fired")),
        "silent": sum(1 for _, v, _ in outs if v == "silent"),
        "skipped": sum(1 for _, v, _ in outs if v == "skipped"),
        "analysis_error_only": sum(1 for _, v, _ in outs
                                   if v == "analysis-error-only"),
        "benign_unrecognised": [n for n, v, _ in outs if v == "unrecognised"],
        "problems": bad,
        "table": table,
    }
    for b in bad:
        res.notes.append(f"self-test: {b}")
    print(f"   self-test: {len(variants)} variants, "
          f"{res.extra['selftest']['fired']} fired, "
          f"{res.extra['selftest']['silent']} silent, "
          f"{res.extra['selftest']['skipped']} skipped, "
          f"{len(res.extra['selftest']['benign_unrecognised'])} benign "
          f"unrecognised, {len(bad)} problems")
