"""E0b -- behaviour preserving normal form applied to the parsed program before
any rule looks at it.

Two rewrites, both semantics preserving, so applying them can never turn code
that satisfies a property into code that does not (or the reverse); they only
decide *which text* the rules read:

1. **Helper inlining.**  A call to a package function or method that is *not*
   in the inventory of functions the rules were written against
   (``sa/baseline_functions.txt``) is replaced by the helper's body with the
   parameters substituted, when the helper has an inlinable shape: a single
   returned expression (expression inlining anywhere), or a body whose
   ``return`` statements are all in tail position (statement inlining at
   ``x = f(..)``, ``a, b = f(..)``, ``return f(..)`` and bare ``f(..)``).
   "Extract method" refactors therefore disappear, and a seeded defect hidden
   in a new helper is looked at in the context of its caller.  Helpers named
   in the inventory stay calls: the rules model them by name.

2. **Literal unrolling.**  ``for a, b in ((x1, y1), (x2, y2))`` and
   ``a, b = (f(n) for n in ("A", "B"))`` over literal tuples are replaced by
   one copy per row ("fold the per-side blocks into a loop" refactors).

Generators, nested functions, recursion, ``*args``/``**kwargs`` and non-tail
returns are left alone.
"""
from __future__ import annotations

import ast
from pathlib import Path

from .core import FuncInfo, clone, dotted, norm, set_parents

BASELINE_FILE = Path(__file__).with_name("baseline_functions.txt")
MAX_ROUNDS = 4


def baseline() -> set[str]:
    return {l.strip() for l in BASELINE_FILE.read_text().splitlines()
            if l.strip() and not l.startswith("#")}


class NotInlinable(Exception):
    pass


def strip_inl(text: str) -> str:
    """Removes the suffixes of names introduced by the inliner."""
    import re
    return re.sub(r"__inl_[a-z]+", "", text)


# ---------------------------------------------------------------- substitution
class _Subst(ast.NodeTransformer):
    """Name -> expression (Load) / Name -> new name (Store, Del)."""

    def __init__(self, exprs: dict[str, ast.AST], renames: dict[str, str],
                 inplace: set[str] = frozenset()):
        self.exprs = exprs
        self.renames = renames
        self.inplace = inplace

    def visit_Name(self, node):
        if node.id in self.renames:
            return ast.copy_location(
                ast.Name(self.renames[node.id], node.ctx), node)
        if node.id in self.exprs:
            if isinstance(node.ctx, ast.Load):
                new = clone(self.exprs[node.id])
                return new
            if node.id in self.inplace:
                new = clone(self.exprs[node.id])
                new.ctx = ast.Store()
                return new
            raise NotInlinable(f"parameter {node.id} is assigned")
        return node

    def visit_arg(self, node):  # lambda params shadow: keep simple
        return node


def _simple(expr: ast.AST) -> bool:
    if isinstance(expr, (ast.Name, ast.Constant)):
        return True
    if isinstance(expr, ast.Attribute):
        return _simple(expr.value)
    return False


def _body(fn: ast.FunctionDef) -> list[ast.stmt]:
    body = fn.body
    if body and isinstance(body[0], ast.Expr) and isinstance(
            body[0].value, ast.Constant) and isinstance(body[0].value.value, str):
        body = body[1:]
    return body


def _assigned_names(fn: ast.FunctionDef) -> set[str]:
    out = set()
    comp = {id(n) for c in ast.walk(fn) if isinstance(c, ast.comprehension)
            for n in ast.walk(c.target)}      # scoped to the comprehension
    for n in ast.walk(fn):
        if isinstance(n, ast.Name) and isinstance(
                n.ctx, (ast.Store, ast.Del)) and id(n) not in comp:
            out.add(n.id)
    return out


MUTATORS = {"add", "discard", "remove", "update", "append", "extend", "pop",
            "clear", "insert", "setdefault", "popitem", "difference_update",
            "intersection_update", "symmetric_difference_update"}


def _inplace_only(fn: ast.FunctionDef, p: str) -> bool:
    """p is only ever the target of augmented assignments and the helper
    also calls a container mutator on it (so p is a mutable container and
    ``p op= x`` updates the caller's object in place)."""
    stores = [n for n in ast.walk(fn) if isinstance(n, ast.Name)
              and n.id == p and isinstance(n.ctx, (ast.Store, ast.Del))]
    aug = {id(n.target) for n in ast.walk(fn) if isinstance(n, ast.AugAssign)}
    if not stores or any(id(n) not in aug for n in stores):
        return False
    return any(isinstance(n, ast.Call) and isinstance(n.func, ast.Attribute)
               and n.func.attr in MUTATORS and isinstance(n.func.value, ast.Name)
               and n.func.value.id == p for n in ast.walk(fn))


def _shape(fn: ast.FunctionDef) -> str | None:
    """'expr' | 'tail' | None."""
    a = fn.args
    if a.kwarg:
        return None
    if a.vararg is not None:
        # *args is bound to the tuple of the extra positional arguments; the
        # helper may only read it
        for n in ast.walk(fn):
            if isinstance(n, ast.Name) and n.id == a.vararg.arg and \
                    not isinstance(n.ctx, ast.Load):
                return None
    for n in ast.walk(fn):
        if isinstance(n, (ast.Yield, ast.YieldFrom, ast.Await, ast.Global,
                          ast.Nonlocal)):
            return None
        if n is not fn and isinstance(n, (ast.FunctionDef, ast.ClassDef,
                                          ast.AsyncFunctionDef)):
            return None
    decos = {dotted(d) for d in fn.decorator_list}
    if decos - {"staticmethod", "classmethod"}:
        return None
    body = _body(fn)
    if len(body) == 1 and isinstance(body[0], ast.Return) and \
            body[0].value is not None:
        return "expr"
    try:
        _tail(body, lambda e, at: [])
    except NotInlinable:
        return None
    return "tail"


def _has_return(st: ast.AST) -> bool:
    return any(isinstance(n, ast.Return) for n in ast.walk(st))


def _tail(stmts: list[ast.stmt], sink) -> tuple[list[ast.stmt], bool]:
    """Replaces tail-position returns by sink(expr, at); (stmts, all paths done)."""
    out: list[ast.stmt] = []
    for i, st in enumerate(stmts):
        if isinstance(st, ast.Return):
            out += sink(st.value, st)
            return out, True
        if isinstance(st, ast.If):
            b, bdone = _tail(st.body, sink)
            o, odone = _tail(st.orelse, sink)
            if bdone and odone:
                out.append(_mk_if(st, b, o))
                return out, True
            if bdone or odone:
                rest, rdone = _tail(stmts[i + 1:], sink)
                if bdone:
                    out.append(_mk_if(st, b, o + rest))
                else:
                    out.append(_mk_if(st, b + rest, o))
                return out, rdone
            out.append(_mk_if(st, b, o))
            continue
        if _has_return(st):
            raise NotInlinable("return not in tail position")
        out.append(st)
    return out, False


def _mk_if(old: ast.If, body, orelse) -> ast.If:
    new = ast.If(test=old.test, body=body or [ast.Pass()], orelse=orelse)
    return ast.copy_location(new, old)


# ------------------------------------------------------------------- inliner
class Inliner:
    def __init__(self, prog, keep: set[str]):
        self.prog = prog
        self.keep = keep
        self.inlined: list[tuple[str, str]] = []     # (caller, helper)
        self._counter = 0

    def _fresh(self, name: str) -> str:
        """name__inl_<letters>: no digits, so side/role conventions that rules
        read off identifiers are not disturbed; strip_inl() removes it."""
        self._counter += 1
        n, letters = self._counter, ""
        while n:
            n, r = divmod(n - 1, 26)
            letters = chr(97 + r) + letters
        return f"{name}__inl_{letters}"

    # -- callee resolution -------------------------------------------------
    def resolve(self, caller: FuncInfo, call: ast.Call) -> FuncInfo | None:
        f = call.func
        target = None
        if isinstance(f, ast.Name) and f.id in getattr(self, "_locals", {}):
            node = self._locals[f.id]
            if any(x is call for x in ast.walk(node)):
                return None            # recursion
            return FuncInfo(f"{caller.qual}.<local>{f.id}", caller.module,
                            node, None)
        if isinstance(f, ast.Name):
            target = self.prog.functions.get(f"{caller.module.name}:{f.id}")
            if target is None:
                target = self._imported(caller, f.id)
        elif isinstance(f, ast.Attribute) and isinstance(f.value, ast.Name):
            recv = f.value.id
            params = caller.params()
            cls = None
            if caller.cls is not None and params and recv == params[0] and \
                    not caller.is_staticmethod():
                cls = caller.cls.name
            elif recv in self.prog.classes:
                cls = recv
            if cls is not None:
                target = self._method(cls, f.attr)
            elif caller.cls is not None:
                # x.helper(..) on another object inside a method: a helper
                # outside the inventory whose name exists exactly once in the
                # package and belongs to the caller's class family is the
                # method that runs (the receiver is an instance of the family,
                # e.g. `other` behind `type(other) is type(self)`)
                owners = [c for c, ci in self.prog.classes.items()
                          if f.attr in ci.methods]
                if len(owners) == 1:
                    fam = set(self.prog.mro(caller.cls.name)) | set(
                        self.prog.subclasses(caller.cls.name))
                    cand = self.prog.classes[owners[0]].methods[f.attr]
                    if owners[0] in fam and cand.qual not in self.keep \
                            and not cand.is_classmethod() \
                            and not cand.is_staticmethod():
                        target = cand
        if target is None or target.qual in self.keep:
            return None
        if target.qual == caller.qual:
            return None
        return target

    def _imported(self, caller: FuncInfo, name: str) -> FuncInfo | None:
        for st in caller.module.tree.body:
            if isinstance(st, ast.ImportFrom) and st.module:
                for al in st.names:
                    if (al.asname or al.name) == name:
                        modname = st.module.split("stereomolgraph.")[-1]
                        if modname == "stereomolgraph":
                            modname = "__init__"
                        hit = self.prog.functions.get(f"{modname}:{al.name}")
                        if hit is not None:
                            return hit
        return None

    def _method(self, cls: str, name: str) -> FuncInfo | None:
        # unique implementation along the MRO *and* not overridden below
        try:
            target = self.prog.resolve_method(cls, name)
        except Exception:
            return None
        if target is None:
            return None
        for sub in self.prog.subclasses(cls):
            ci = self.prog.classes.get(sub)
            if ci is not None and name in ci.methods and \
                    ci.methods[name] is not target:
                return None
        return target

    # -- binding -----------------------------------------------------------
    def bind(self, caller_fn: ast.FunctionDef, target: FuncInfo,
             call: ast.Call) -> tuple[dict[str, ast.AST], list[ast.stmt],
                                      dict[str, str]]:
        fn = target.node
        a = fn.args
        params = [x.arg for x in a.posonlyargs + a.args]
        kwonly = [x.arg for x in a.kwonlyargs]
        args = list(call.args)
        if any(isinstance(x, ast.Starred) for x in args) or any(
                k.arg is None for k in call.keywords):
            raise NotInlinable("star arguments")
        exprs: dict[str, ast.AST] = {}
        is_method = target.cls is not None and not target.is_staticmethod()
        if is_method:
            recv = call.func.value if isinstance(call.func, ast.Attribute) \
                else None
            if recv is None or not params:
                raise NotInlinable("no receiver")
            if target.is_classmethod() and isinstance(recv, ast.Name) and \
                    recv.id not in self.prog.classes and recv.id != "cls":
                # self.classmeth(...): cls is type(self)
                exprs[params[0]] = ast.Call(
                    func=ast.Name("type", ast.Load()), args=[recv],
                    keywords=[])
            else:
                exprs[params[0]] = recv
            params = params[1:]
        if len(args) > len(params):
            if a.vararg is None:
                raise NotInlinable("too many positional arguments")
            exprs[a.vararg.arg] = ast.Tuple(
                elts=list(args[len(params):]), ctx=ast.Load())
            args = args[:len(params)]
        elif a.vararg is not None:
            exprs[a.vararg.arg] = ast.Tuple(elts=[], ctx=ast.Load())
        for p, x in zip(params, args):
            exprs[p] = x
        for k in call.keywords:
            if k.arg in exprs or k.arg not in params + kwonly:
                raise NotInlinable(f"keyword {k.arg}")
            exprs[k.arg] = k.value
        defaults = dict(zip(reversed([x.arg for x in a.posonlyargs + a.args]),
                            reversed(a.defaults)))
        for k, d in zip(kwonly, a.kw_defaults):
            if d is not None:
                defaults[k] = d
        for p in params + kwonly:
            if p not in exprs:
                if p not in defaults:
                    raise NotInlinable(f"argument {p} missing")
                exprs[p] = defaults[p]
        # locals of the helper that clash with names of the caller get renamed
        caller_names = {n.id for n in ast.walk(caller_fn)
                        if isinstance(n, ast.Name)} | {
            x.arg for x in ast.walk(caller_fn) if isinstance(x, ast.arg)}
        caller_names |= self._introduced
        local = _assigned_names(fn) - set(exprs)
        renames = {}
        for name in sorted(local):
            if name in caller_names:
                renames[name] = self._fresh(name)
            self._introduced.add(renames.get(name, name))
        # a parameter that is re-assigned in the helper becomes a local
        pre: list[ast.stmt] = []
        self.inplace = set()
        for p in list(exprs):
            if p in _assigned_names(fn) and isinstance(
                    exprs[p], ast.Name) and _inplace_only(fn, p):
                # `p |= x` on a container the helper also mutates through a
                # method: in-place, the caller's name refers to the same object
                self.inplace.add(p)
                continue
            if p in _assigned_names(fn):
                new = self._fresh(p)
                pre.append(ast.Assign(targets=[ast.Name(new, ast.Store())],
                                      value=exprs.pop(p), lineno=call.lineno))
                renames[p] = new
        return exprs, pre, renames

    # -- one function ------------------------------------------------------
    def run(self, fi: FuncInfo) -> ast.FunctionDef | None:
        """Normalised clone of fi.node, or None when nothing changed."""
        new = clone(fi.node)
        changed = False
        self._introduced: set[str] = set()
        # functions defined inside fi (closures): inlined at their call sites
        # like helpers outside the inventory; free variables stay as they are
        self._locals = {}
        for st in ast.walk(new):
            if st is not new and isinstance(st, ast.FunctionDef) and \
                    f"{fi.qual}.<local>{st.name}" not in self.keep:
                self._locals[st.name] = st
        for _ in range(MAX_ROUNDS):
            step = self._round(fi, new)
            changed |= step
            if not step:
                break
        if changed and self._locals:
            self._drop_dead_locals(new)
        if not changed:
            return None
        split_tuple_assigns(new)
        ast.fix_missing_locations(new)
        set_parents(new)
        return new

    def _drop_dead_locals(self, fn: ast.FunctionDef) -> None:
        """Removes the `def` of a local function that is no longer referenced
        (all its calls were inlined)."""
        for name, node in self._locals.items():
            refs = [x for x in ast.walk(fn) if isinstance(x, ast.Name)
                    and x.id == name and not any(
                        x is y for y in ast.walk(node))]
            if refs:
                continue
            for holder in ast.walk(fn):
                for f in ("body", "orelse", "finalbody"):
                    lst = getattr(holder, f, None)
                    if isinstance(lst, list) and any(x is node for x in lst):
                        lst[:] = [x for x in lst if x is not node] or [
                            ast.copy_location(ast.Pass(), node)]

    # -- hoisting ------------------------------------------------------------
    def _eval_order(self, e, out):
        """Calls of e in completion order (left-to-right evaluation);
        comprehensions / lambdas / conditional parts are opaque barriers."""
        if e is None:
            return
        if isinstance(e, (ast.ListComp, ast.SetComp, ast.DictComp,
                          ast.GeneratorExp, ast.Lambda, ast.IfExp,
                          ast.BoolOp, ast.NamedExpr, ast.Await, ast.Yield,
                          ast.YieldFrom)):
            out.append(("barrier", e))
            return
        if isinstance(e, ast.Call):
            self._eval_order(e.func, out)
            for a in e.args:
                self._eval_order(a.value if isinstance(a, ast.Starred) else a,
                                 out)
            for k in e.keywords:
                self._eval_order(k.value, out)
            out.append(("call", e))
            return
        for c in ast.iter_child_nodes(e):
            if isinstance(c, ast.expr):
                self._eval_order(c, out)

    def _hoist(self, fi, fn, stmts):
        """`stmt(.. helper(..) ..)` -> `t = helper(..); stmt(.. t ..)` for
        helpers that can only be inlined at statement level, when nothing
        with a side effect is evaluated before the helper call."""
        out, changed = [], False
        for st in stmts:
            for f in ("body", "orelse", "finalbody"):
                sub = getattr(st, f, None)
                if isinstance(sub, list) and sub and isinstance(
                        sub[0], ast.stmt):
                    new, c = self._hoist(fi, fn, sub)
                    setattr(st, f, new)
                    changed |= c
            for h in getattr(st, "handlers", []) or []:
                h.body, c = self._hoist(fi, fn, h.body)
                changed |= c
            value = None
            if isinstance(st, (ast.Return, ast.Expr)):
                value = st.value
            elif isinstance(st, (ast.Assign, ast.AnnAssign, ast.AugAssign)):
                value = st.value
                tg = st.targets if isinstance(st, ast.Assign) else [st.target]
                if not all(isinstance(t, ast.Name) for t in tg):
                    value = None
            pre = []
            if value is not None and not (isinstance(value, ast.Call)
                                          and self.resolve(fi, value)):
                events: list = []
                self._eval_order(value, events)
                for kind, node in events:
                    if kind == "barrier":
                        break
                    target = self.resolve(fi, node)
                    if target is None or _shape(target.node) != "tail":
                        break          # another call completes first
                    name = self._fresh("hoisted")
                    pre.append(ast.copy_location(ast.Assign(
                        targets=[ast.Name(name, ast.Store())],
                        value=node), st))
                    repl = ast.copy_location(ast.Name(name, ast.Load()), node)
                    for holder in ast.walk(st):
                        for fld, v in ast.iter_fields(holder):
                            if v is node:
                                setattr(holder, fld, repl)
                            elif isinstance(v, list):
                                for i, x in enumerate(v):
                                    if x is node:
                                        v[i] = repl
                                    elif isinstance(x, ast.keyword) and \
                                            x.value is node:
                                        x.value = repl
                    self._introduced.add(name)
            if pre:
                changed = True
                ast.fix_missing_locations(st)
            out.extend(pre)
            out.append(st)
        return out, changed

    def _round(self, fi: FuncInfo, fn: ast.FunctionDef) -> bool:
        changed = False
        fn.body, c = self._hoist(fi, fn, fn.body)
        changed |= c
        # statement level first (keeps `x = f()` readable), then expressions
        fn.body, c = self._stmts(fi, fn, fn.body)
        changed |= c
        changed |= self._exprs(fi, fn)
        return changed

    def _stmts(self, fi, fn, stmts) -> tuple[list[ast.stmt], bool]:
        out: list[ast.stmt] = []
        changed = False
        for st in stmts:
            for f in ("body", "orelse", "finalbody"):
                sub = getattr(st, f, None)
                if isinstance(sub, list) and sub and isinstance(
                        sub[0], ast.stmt):
                    new, c = self._stmts(fi, fn, sub)
                    setattr(st, f, new)
                    changed |= c
            for h in getattr(st, "handlers", []) or []:
                h.body, c = self._stmts(fi, fn, h.body)
                changed |= c
            rep = self._stmt(fi, fn, st)
            if rep is None:
                out.append(st)
            else:
                out.extend(rep)
                changed = True
        return out, changed

    def _stmt(self, fi, fn, st) -> list[ast.stmt] | None:
        call = None
        if isinstance(st, ast.Expr) and isinstance(st.value, ast.Call):
            call, kind = st.value, "expr"
        elif isinstance(st, ast.Assign) and isinstance(st.value, ast.Call):
            call, kind = st.value, "assign"
        elif isinstance(st, ast.AnnAssign) and isinstance(st.value, ast.Call):
            call, kind = st.value, "assign"
        elif isinstance(st, ast.Return) and isinstance(st.value, ast.Call):
            call, kind = st.value, "return"
        if call is None:
            return None
        target = self.resolve(fi, call)
        if target is None or _shape(target.node) != "tail":
            return None
        try:
            exprs, pre, renames = self.bind(fn, target, call)
            body = [_Subst(exprs, renames, self.inplace).visit(clone(s))
                    for s in _body(target.node)]

            def sink(value, at):
                v = value if value is not None else ast.Constant(None)
                if kind == "expr":
                    if isinstance(v, ast.Call):
                        return [ast.copy_location(ast.Expr(v), at)]
                    return []
                if kind == "return":
                    return [ast.copy_location(ast.Return(v), at)]
                new = clone(st)
                new.value = v
                return [ast.copy_location(new, at)]

            stmts, done = _tail(body, sink)
            if not done:
                if kind == "assign":
                    new = clone(st)
                    new.value = ast.Constant(None)
                    stmts.append(new)
                elif kind == "return":
                    stmts.append(ast.copy_location(
                        ast.Return(ast.Constant(None)), st))
        except NotInlinable:
            return None
        self.inlined.append((fi.qual, target.qual))
        stmts = self._fold_result_alias(st, stmts)
        # the inlined code is located at the call site (its own line numbers
        # belong to another function, possibly another file)
        for s_ in pre + stmts:
            for n_ in ast.walk(s_):
                if hasattr(n_, "lineno"):
                    n_.lineno = st.lineno
                    n_.end_lineno = getattr(st, "end_lineno", st.lineno)
        return pre + stmts

    @staticmethod
    def _fold_result_alias(st, stmts):
        """`T = helper()` inlined as `...; L__inl = ...; T = L__inl`: the
        helper's result variable simply becomes T."""
        tgt = None
        if isinstance(st, ast.Assign) and len(st.targets) == 1 and isinstance(
                st.targets[0], ast.Name):
            tgt = st.targets[0].id
        elif isinstance(st, ast.AnnAssign) and isinstance(st.target, ast.Name):
            tgt = st.target.id
        if tgt is None:
            return stmts
        finals = [x for s_ in stmts for x in ast.walk(s_)
                  if isinstance(x, (ast.Assign, ast.AnnAssign))
                  and isinstance(x.value, ast.Name)
                  and "__inl_" in x.value.id
                  and ((isinstance(x, ast.Assign) and len(x.targets) == 1
                        and isinstance(x.targets[0], ast.Name)
                        and x.targets[0].id == tgt)
                       or (isinstance(x, ast.AnnAssign) and isinstance(
                           x.target, ast.Name) and x.target.id == tgt))]
        names = {x.value.id for x in finals}
        if len(names) != 1 or any(
                isinstance(x, ast.Name) and x.id == tgt and not any(
                    x is (f.targets[0] if isinstance(f, ast.Assign)
                          else f.target) for f in finals)
                for s_ in stmts for x in ast.walk(s_)):
            return stmts
        old = names.pop()
        drop = {id(f) for f in finals}

        def walk(lst):
            out = []
            for s_ in lst:
                if id(s_) in drop:
                    continue
                for f in ("body", "orelse", "finalbody"):
                    sub = getattr(s_, f, None)
                    if isinstance(sub, list) and sub and isinstance(
                            sub[0], ast.stmt):
                        setattr(s_, f, walk(sub) or ([ast.Pass()]
                                                     if f == "body" else []))
                out.append(s_)
            return out

        stmts = walk(stmts)
        for s_ in stmts:
            for x in ast.walk(s_):
                if isinstance(x, ast.Name) and x.id == old:
                    x.id = tgt
        return stmts

    def _exprs(self, fi, fn) -> bool:
        inl = self
        changed = [False]

        class T(ast.NodeTransformer):
            def visit_Call(self, node):
                self.generic_visit(node)
                target = inl.resolve(fi, node)
                if target is None or _shape(target.node) != "expr":
                    return node
                try:
                    exprs, pre, renames = inl.bind(fn, target, node)
                    if pre or renames:
                        raise NotInlinable("assigned names in an expression")
                    ret = _body(target.node)[0].value
                    # comprehension variables of the helper must not capture
                    # names of the substituted arguments
                    bound = {n.id for c in ast.walk(ret)
                             if isinstance(c, ast.comprehension)
                             for n in ast.walk(c.target)
                             if isinstance(n, ast.Name)}
                    free = {n.id for e in exprs.values() for n in ast.walk(e)
                            if isinstance(n, ast.Name)}
                    table = {}
                    for b in sorted(bound & free):
                        table[b] = inl._fresh(b)
                    new = _Subst(exprs, table).visit(clone(ret))
                except NotInlinable:
                    return node
                inl.inlined.append((fi.qual, target.qual))
                for n_ in ast.walk(new):
                    if hasattr(n_, "lineno"):
                        n_.lineno = node.lineno
                        n_.end_lineno = getattr(node, "end_lineno",
                                                node.lineno)
                changed[0] = True
                return ast.copy_location(new, node)

        T().visit(fn)
        return changed[0]


# --------------------------------------------------------- literal unrolling
def unroll(func: ast.FunctionDef, only: set | None = None
           ) -> tuple[ast.FunctionDef, bool]:
    """for-loops and unpacked generator expressions over literal tuples
    (`only`: restrict to loops whose iterable has one of these texts)."""
    from .core import _Rename
    changed = [False]

    # locals bound once to a dict literal with constant keys and only read
    # through `.items()`: `for k, v in table.items()` unrolls like a loop
    # over the literal pairs (the values are evaluated where the literal
    # stood, so they must be pure)
    dict_tables = {}
    _stores = {}
    for n_ in ast.walk(func):
        if isinstance(n_, ast.Name) and isinstance(n_.ctx, ast.Store):
            _stores[n_.id] = _stores.get(n_.id, 0) + 1
    for n_ in ast.walk(func):
        if isinstance(n_, ast.Assign) and len(n_.targets) == 1 and isinstance(
                n_.targets[0], ast.Name) and isinstance(
                n_.value, ast.Dict) and n_.value.keys and all(
                isinstance(k_, ast.Constant) for k_ in n_.value.keys) and \
                _stores.get(n_.targets[0].id) == 1:
            nm = n_.targets[0].id
            uses = [x for x in ast.walk(func) if isinstance(x, ast.Name)
                    and x.id == nm and isinstance(x.ctx, ast.Load)]
            ok_ = True
            for u_ in uses:
                par = getattr(u_, "_parent", None)
                gp = getattr(par, "_parent", None)
                if not (isinstance(par, ast.Attribute) and par.attr == "items"
                        and isinstance(gp, ast.Call) and gp.func is par):
                    ok_ = False
            if ok_ and uses:
                dict_tables[nm] = n_.value

    def rows_of(tgt, it):
        if isinstance(it, ast.Call) and isinstance(
                it.func, ast.Attribute) and it.func.attr == "items" and \
                not it.args:
            d_ = it.func.value
            if isinstance(d_, ast.Name) and d_.id in dict_tables:
                d_ = dict_tables[d_.id]
            if isinstance(d_, ast.Dict) and d_.keys and all(
                    isinstance(k_, ast.Constant) for k_ in d_.keys):
                it = ast.Tuple([ast.Tuple([k_, v_], ast.Load())
                                for k_, v_ in zip(d_.keys, d_.values)],
                               ast.Load())
        if not isinstance(it, (ast.Tuple, ast.List)) or not it.elts:
            return None
        tables = []
        for row in it.elts:
            if isinstance(row, ast.Starred):
                return None
            table = {}
            if isinstance(tgt, ast.Name):
                table[tgt.id] = row
            elif isinstance(tgt, (ast.Tuple, ast.List)) and isinstance(
                    row, (ast.Tuple, ast.List)) and len(row.elts) == len(
                    tgt.elts) and all(isinstance(t, ast.Name)
                                      for t in tgt.elts):
                for t, r in zip(tgt.elts, row.elts):
                    table[t.id] = r
            else:
                return None
            tables.append(table)
        return tables

    def assigned_in(stmts, names):
        for s in stmts:
            for n in ast.walk(s):
                if isinstance(n, ast.Name) and n.id in names and isinstance(
                        n.ctx, (ast.Store, ast.Del)):
                    return True
        return False

    def expand(stmts):
        out = []
        for st in stmts:
            for f in ("body", "orelse", "finalbody"):
                sub = getattr(st, f, None)
                if isinstance(sub, list) and sub and isinstance(
                        sub[0], ast.stmt):
                    setattr(st, f, expand(sub))
            for h in getattr(st, "handlers", []) or []:
                h.body = expand(h.body)
            if isinstance(st, ast.For) and not st.orelse and (
                    only is None or norm(st.iter, 400) in only) and not any(
                    isinstance(n, (ast.Break, ast.Continue))
                    for b in st.body for n in _own_loop_nodes(b)):
                tables = rows_of(st.target, st.iter)
                if tables is not None and not assigned_in(
                        st.body, set(tables[0])):
                    for table in tables:
                        out.extend(_Rename(table).visit(clone(b))
                                   for b in st.body)
                    changed[0] = True
                    continue
            if isinstance(st, ast.Assign) and len(st.targets) == 1 and \
                    isinstance(st.targets[0], (ast.Tuple, ast.List)) and \
                    isinstance(st.value, (ast.GeneratorExp, ast.ListComp)) and \
                    len(st.value.generators) == 1 and \
                    not st.value.generators[0].ifs:
                gen = st.value.generators[0]
                tables = rows_of(gen.target, gen.iter)
                tg = st.targets[0].elts
                if tables is not None and len(tables) == len(tg) and not any(
                        isinstance(t, ast.Starred) for t in tg):
                    vals = [_Rename(table).visit(clone(st.value.elt))
                            for table in tables]
                    tnames = {n.id for t in tg for n in ast.walk(t)
                              if isinstance(n, ast.Name)}
                    used = {n.id for v in vals for n in ast.walk(v)
                            if isinstance(n, ast.Name)}
                    if tnames & used:   # simultaneous: keep one statement
                        out.append(ast.copy_location(ast.Assign(
                            targets=[clone(st.targets[0])],
                            value=ast.Tuple(vals, ast.Load())), st))
                    else:
                        for t, v in zip(tg, vals):
                            out.append(ast.copy_location(ast.Assign(
                                targets=[clone(t)], value=v), st))
                    changed[0] = True
                    continue
            out.append(st)
        return out

    new = clone(func)
    new.body = expand(new.body)
    if changed[0]:
        new = _ConstGetattr().visit(new)
        new = _ConstSetattr().visit(new)
        ast.fix_missing_locations(new)
        set_parents(new)
    return new, changed[0]


class _LiteralComp(ast.NodeTransformer):
    """[f(x) for x in (a, b, c)] -> [f(a), f(b), f(c)]."""

    def __init__(self):
        self.changed = False

    def visit_ListComp(self, node):
        self.generic_visit(node)
        from .core import _Rename
        if len(node.generators) == 1 and not node.generators[0].ifs and \
                not node.generators[0].is_async:
            g = node.generators[0]
            # `[base[i] for i in (1, 0, 2)]` is the re-ordering idiom the
            # table rules read as a permutation: it stays
            reorder = isinstance(node.elt, ast.Subscript) and isinstance(
                node.elt.slice, ast.Name) and isinstance(
                g.target, ast.Name) and node.elt.slice.id == g.target.id \
                and isinstance(g.iter, (ast.Tuple, ast.List)) and all(
                isinstance(x, ast.Constant) and isinstance(x.value, int)
                for x in g.iter.elts)
            if isinstance(g.iter, (ast.Tuple, ast.List)) and g.iter.elts and \
                    isinstance(g.target, ast.Name) and not reorder and not any(
                    isinstance(e, ast.Starred) for e in g.iter.elts) and \
                    len(g.iter.elts) <= 8:
                self.changed = True
                return ast.copy_location(ast.List(
                    [_Rename({g.target.id: e}).visit(clone(node.elt))
                     for e in g.iter.elts], ast.Load()), node)
        return node


    def visit_Call(self, node):
        """all(p(x) for x in (a, b)) -> p(a) and p(b); any(...) -> or.  Only
        for boolean-valued elements (comparisons, not, isinstance), so the
        value and the left-to-right short circuit are the same."""
        self.generic_visit(node)
        from .core import _Rename
        if isinstance(node.func, ast.Name) and node.func.id in ("all", "any") \
                and len(node.args) == 1 and not node.keywords and isinstance(
                node.args[0], (ast.GeneratorExp, ast.ListComp)) and \
                len(node.args[0].generators) == 1:
            g = node.args[0].generators[0]
            elt = node.args[0].elt
            boolean = isinstance(elt, ast.Compare) or (
                isinstance(elt, ast.UnaryOp) and isinstance(elt.op, ast.Not)) \
                or (isinstance(elt, ast.Call) and isinstance(
                    elt.func, ast.Name) and elt.func.id == "isinstance")
            if boolean and not g.ifs and not g.is_async and isinstance(
                    g.iter, (ast.Tuple, ast.List)) and isinstance(
                    g.target, ast.Name) and 1 <= len(g.iter.elts) <= 8 and \
                    not any(isinstance(e, ast.Starred) for e in g.iter.elts):
                vals = [_Rename({g.target.id: e}).visit(clone(elt))
                        for e in g.iter.elts]
                self.changed = True
                if len(vals) == 1:
                    return ast.copy_location(vals[0], node)
                op = ast.And() if node.func.id == "all" else ast.Or()
                return ast.copy_location(ast.BoolOp(op=op, values=vals), node)
        return node


class _ConstSetattr(ast.NodeTransformer):
    """setattr(x, "name", v) as a statement -> x.name = v."""

    def visit_Expr(self, node):
        c = node.value
        if isinstance(c, ast.Call) and isinstance(c.func, ast.Name) and \
                c.func.id == "setattr" and len(c.args) == 3 and \
                not c.keywords and isinstance(c.args[1], ast.Constant) and \
                isinstance(c.args[1].value, str) and \
                c.args[1].value.isidentifier():
            return ast.copy_location(ast.Assign(
                targets=[ast.Attribute(value=c.args[0], attr=c.args[1].value,
                                       ctx=ast.Store())],
                value=c.args[2]), node)
        return node


class _ConstGetattr(ast.NodeTransformer):
    """getattr(x, "name") -> x.name (what unrolling a loop over attribute names
    leaves behind)."""

    def visit_Call(self, node):
        self.generic_visit(node)
        if isinstance(node.func, ast.Name) and node.func.id == "getattr" and \
                len(node.args) == 2 and not node.keywords and isinstance(
                node.args[1], ast.Constant) and isinstance(
                node.args[1].value, str) and node.args[1].value.isidentifier():
            return ast.copy_location(ast.Attribute(
                value=node.args[0], attr=node.args[1].value, ctx=ast.Load()),
                node)
        return node


def _own_loop_nodes(st):
    """Nodes of st that are not inside a nested loop (whose break/continue
    belong to that loop)."""
    stack = [st]
    while stack:
        n = stack.pop()
        yield n
        for c in ast.iter_child_nodes(n):
            if isinstance(c, (ast.For, ast.While, ast.FunctionDef, ast.Lambda)):
                continue
            stack.append(c)


def split_tuple_assigns(func: ast.FunctionDef) -> None:
    """``a, b = x, y`` with independent sides -> ``a = x; b = y`` (in place;
    only applied to functions that inlining has rewritten)."""

    def walk(stmts):
        out = []
        for st in stmts:
            for f in ("body", "orelse", "finalbody"):
                sub = getattr(st, f, None)
                if isinstance(sub, list) and sub and isinstance(
                        sub[0], ast.stmt):
                    setattr(st, f, walk(sub))
            for h in getattr(st, "handlers", []) or []:
                h.body = walk(h.body)
            if isinstance(st, ast.Assign) and len(st.targets) == 1 and \
                    isinstance(st.targets[0], ast.Tuple) and isinstance(
                    st.value, ast.Tuple) and len(st.value.elts) == len(
                    st.targets[0].elts) and all(
                    isinstance(t, ast.Name) for t in st.targets[0].elts):
                tnames = {t.id for t in st.targets[0].elts}
                used = {n.id for v in st.value.elts for n in ast.walk(v)
                        if isinstance(n, ast.Name)}
                if not (tnames & used):
                    for t, v in zip(st.targets[0].elts, st.value.elts):
                        out.append(ast.copy_location(
                            ast.Assign(targets=[t], value=v), st))
                    continue
            out.append(st)
        return out

    func.body = walk(func.body)


# ------------------------------------------------------------ canonical form
_NEG = {ast.Eq: ast.NotEq, ast.NotEq: ast.Eq, ast.In: ast.NotIn,
        ast.NotIn: ast.In, ast.Is: ast.IsNot, ast.IsNot: ast.Is}


class _Canon(ast.NodeTransformer):
    """Spelling-level canonical form (all rewrites are equivalences):
    constants on the right of == / !=; ``not a == b`` -> ``a != b`` (also in,
    is); ``if not c: B else: A`` -> ``if c: A else: B`` (statements and
    conditional expressions); ``if a: (if b: X)`` without else branches ->
    ``if a and b: X``."""

    def __init__(self):
        self.changed = False

    def visit_Compare(self, node):
        self.generic_visit(node)
        if len(node.ops) == 1 and isinstance(node.ops[0], (ast.Eq, ast.NotEq)):
            l, r = node.left, node.comparators[0]
            if _is_const(l) and not _is_const(r):
                node.left, node.comparators[0] = r, l
                self.changed = True
        return node

    def visit_UnaryOp(self, node):
        self.generic_visit(node)
        if isinstance(node.op, ast.Not) and isinstance(
                node.operand, ast.Compare) and len(node.operand.ops) == 1 and \
                type(node.operand.ops[0]) in _NEG:
            c = node.operand
            c.ops = [_NEG[type(c.ops[0])]()]
            self.changed = True
            return c
        return node

    def visit_If(self, node):
        self.generic_visit(node)
        if isinstance(node.test, ast.UnaryOp) and isinstance(
                node.test.op, ast.Not) and node.orelse:
            node.test = node.test.operand
            node.body, node.orelse = node.orelse, node.body
            self.changed = True
        elif node.orelse and isinstance(node.test, ast.Compare) and len(
                node.test.ops) == 1 and isinstance(
                node.test.ops[0], (ast.NotEq, ast.NotIn, ast.IsNot)):
            # two-armed test on a negative comparison: positive form first
            node.test.ops = [_NEG[type(node.test.ops[0])]()]
            node.body, node.orelse = node.orelse, node.body
            self.changed = True
        # if c: x = A else: x = B   ->   x = A if c else B
        if len(node.body) == 1 and len(node.orelse) == 1 and all(
                isinstance(b, ast.Assign) and len(b.targets) == 1
                and isinstance(b.targets[0], ast.Name)
                for b in (node.body[0], node.orelse[0])) and \
                node.body[0].targets[0].id == node.orelse[0].targets[0].id:
            self.changed = True
            return ast.copy_location(ast.Assign(
                targets=[node.body[0].targets[0]],
                value=ast.copy_location(ast.IfExp(
                    node.test, node.body[0].value, node.orelse[0].value),
                    node)), node)
        if not node.orelse and len(node.body) == 1 and isinstance(
                node.body[0], ast.If) and not node.body[0].orelse:
            inner = node.body[0]
            vals = []
            for t in (node.test, inner.test):
                if isinstance(t, ast.BoolOp) and isinstance(t.op, ast.And):
                    vals += t.values
                else:
                    vals.append(t)
            node.test = ast.copy_location(ast.BoolOp(ast.And(), vals),
                                          node.test)
            node.body = inner.body
            self.changed = True
        return node

    def _guards(self, body):
        """`if c: continue` + REST  ->  `if not c: REST` (loop bodies)."""
        for i, st in enumerate(body):
            if isinstance(st, ast.If) and not st.orelse and len(
                    st.body) == 1 and isinstance(st.body[0], ast.Continue) \
                    and i + 1 < len(body):
                rest = self._guards(body[i + 1:])
                neg = ast.UnaryOp(ast.Not(), st.test)
                if isinstance(st.test, ast.Compare) and len(
                        st.test.ops) == 1 and type(st.test.ops[0]) in _NEG:
                    neg = ast.Compare(st.test.left,
                                      [_NEG[type(st.test.ops[0])]()],
                                      st.test.comparators)
                elif isinstance(st.test, ast.UnaryOp) and isinstance(
                        st.test.op, ast.Not):
                    neg = st.test.operand
                new = ast.copy_location(ast.If(
                    test=ast.copy_location(neg, st.test), body=rest,
                    orelse=[]), st)
                self.changed = True
                return body[:i] + [new]
        return body

    def visit_For(self, node):
        self.generic_visit(node)
        node.body = self._guards(node.body)
        return node

    def visit_While(self, node):
        self.generic_visit(node)
        node.body = self._guards(node.body)
        return node

    def visit_Attribute(self, node):
        self.generic_visit(node)
        if node.attr == "__class__" and isinstance(node.ctx, ast.Load):
            self.changed = True
            return ast.copy_location(ast.Call(
                func=ast.Name("type", ast.Load()), args=[node.value],
                keywords=[]), node)
        return node

    def visit_IfExp(self, node):
        self.generic_visit(node)
        if isinstance(node.test, ast.UnaryOp) and isinstance(
                node.test.op, ast.Not):
            node.test = node.test.operand
            node.body, node.orelse = node.orelse, node.body
            self.changed = True
        elif isinstance(node.test, ast.Compare) and len(
                node.test.ops) == 1 and isinstance(
                node.test.ops[0], (ast.NotEq, ast.NotIn, ast.IsNot)):
            node.test.ops = [_NEG[type(node.test.ops[0])]()]
            node.body, node.orelse = node.orelse, node.body
            self.changed = True
        return node


def _is_const(e) -> bool:
    if isinstance(e, ast.Constant):
        return True
    if isinstance(e, ast.Tuple):
        return all(_is_const(x) for x in e.elts)
    return isinstance(e, ast.UnaryOp) and isinstance(
        e.op, (ast.USub, ast.UAdd)) and isinstance(e.operand, ast.Constant)


def inline_return_temps(func: ast.FunctionDef) -> bool:
    """``t = expr`` immediately followed by ``return t`` where t has no other
    occurrence in the function -> ``return expr`` (in place)."""
    counts: dict[str, int] = {}
    for n in ast.walk(func):
        if isinstance(n, ast.Name):
            counts[n.id] = counts.get(n.id, 0) + 1
    # number of adjacent `t = e; return t` pairs per name
    pairs: dict[str, int] = {}

    def count_pairs(stmts):
        for i, st in enumerate(stmts):
            for f in ("body", "orelse", "finalbody"):
                sub = getattr(st, f, None)
                if isinstance(sub, list) and sub and isinstance(
                        sub[0], ast.stmt):
                    count_pairs(sub)
            for h in getattr(st, "handlers", []) or []:
                count_pairs(h.body)
            nxt = stmts[i + 1] if i + 1 < len(stmts) else None
            if isinstance(st, ast.Assign) and len(st.targets) == 1 and \
                    isinstance(st.targets[0], ast.Name) and isinstance(
                    nxt, ast.Return) and isinstance(nxt.value, ast.Name) and \
                    nxt.value.id == st.targets[0].id and not any(
                    isinstance(x, ast.Name) and x.id == st.targets[0].id
                    for x in ast.walk(st.value)):
                pairs[st.targets[0].id] = pairs.get(st.targets[0].id, 0) + 1

    count_pairs(func.body)
    changed = False

    def walk(stmts):
        nonlocal changed
        out = []
        i = 0
        while i < len(stmts):
            st = stmts[i]
            for f in ("body", "orelse", "finalbody"):
                sub = getattr(st, f, None)
                if isinstance(sub, list) and sub and isinstance(
                        sub[0], ast.stmt):
                    setattr(st, f, walk(sub))
            for h in getattr(st, "handlers", []) or []:
                h.body = walk(h.body)
            nxt = stmts[i + 1] if i + 1 < len(stmts) else None
            if isinstance(st, ast.Assign) and len(st.targets) == 1 and \
                    isinstance(st.targets[0], ast.Name) and isinstance(
                    nxt, ast.Return) and isinstance(nxt.value, ast.Name) and \
                    nxt.value.id == st.targets[0].id and counts.get(
                    st.targets[0].id) == 2 * pairs.get(st.targets[0].id, 0):
                out.append(ast.copy_location(ast.Return(st.value), st))
                changed = True
                i += 2
                continue
            out.append(st)
            i += 1
        return out

    func.body = walk(func.body)
    return changed


def _store_counts(func) -> dict[str, int]:
    out: dict[str, int] = {}
    for n in ast.walk(func):
        if isinstance(n, ast.Name) and isinstance(n.ctx, (ast.Store, ast.Del)):
            out[n.id] = out.get(n.id, 0) + 1
        elif isinstance(n, ast.arg):
            out[n.arg] = out.get(n.arg, 0) + 1
        elif isinstance(n, (ast.Global, ast.Nonlocal)):
            for x in n.names:
                out[x] = out.get(x, 0) + 2
    return out


def _drop_and_subst(func, table: dict[str, ast.AST], drop: set[int]) -> None:
    """Removes the assignment statements whose id() is in drop and replaces
    loads of the names in table by clones of their expressions."""

    def walk(stmts):
        out = []
        for st in stmts:
            if id(st) in drop:
                continue
            for f in ("body", "orelse", "finalbody"):
                sub = getattr(st, f, None)
                if isinstance(sub, list) and sub and isinstance(
                        sub[0], ast.stmt):
                    setattr(st, f, walk(sub) or ([ast.Pass()]
                                                 if f == "body" else []))
            for h in getattr(st, "handlers", []) or []:
                h.body = walk(h.body) or [ast.Pass()]
            out.append(st)
        return out

    func.body = walk(func.body) or [ast.Pass()]

    class T(ast.NodeTransformer):
        def visit_Name(self, node):
            if node.id in table and isinstance(node.ctx, ast.Load):
                return ast.copy_location(clone(table[node.id]), node)
            return node

    T().visit(func)


def propagate_constants(func: ast.FunctionDef) -> bool:
    """A local bound exactly once, to a literal constant (or tuple of them),
    is replaced by the literal."""
    stores = _store_counts(func)
    table, drop = {}, set()
    for n in ast.walk(func):
        if isinstance(n, ast.Assign) and len(n.targets) == 1 and isinstance(
                n.targets[0], ast.Name) and stores.get(
                n.targets[0].id) == 1 and _is_const(n.value) and not (
                isinstance(n.value, ast.Constant) and n.value.value is None):
            table[n.targets[0].id] = n.value
            drop.add(id(n))
    if not table:
        return False
    _drop_and_subst(func, table, drop)
    return True


def propagate_function_aliases(func: ast.FunctionDef,
                               module_funcs: set[str]) -> bool:
    """``f = _module_function`` (bound once) -> calls of f name the function."""
    stores = _store_counts(func)
    table, drop = {}, set()
    for n in ast.walk(func):
        if isinstance(n, ast.Assign) and len(n.targets) == 1 and isinstance(
                n.targets[0], ast.Name) and stores.get(
                n.targets[0].id) == 1 and isinstance(n.value, ast.Name) and \
                n.value.id in module_funcs and stores.get(n.value.id, 0) == 0:
            table[n.targets[0].id] = n.value
            drop.add(id(n))
    if not table:
        return False
    _drop_and_subst(func, table, drop)
    return True


READER_PREFIXES = ("get_", "has_", "is_", "n_")


def _only_read(func: ast.FunctionDef, recv: str, views: set[str]) -> bool:
    """Every use of the parameter `recv` in func is an attribute read of a
    view property / a reader method call (get_*, has_*, is_*), never a store,
    a mutator call or a hand-over to another callable."""
    for n in ast.walk(func):
        if isinstance(n, ast.Name) and n.id == recv:
            par = getattr(n, "_parent", None)
            if not isinstance(n.ctx, ast.Load):
                return False
            if not isinstance(par, ast.Attribute) or par.value is not n:
                # passed on / compared / iterated: only `is None` tests and
                # truth tests are harmless
                if isinstance(par, ast.Compare) and all(isinstance(
                        o, (ast.Is, ast.IsNot)) for o in par.ops):
                    continue
                if isinstance(par, (ast.If, ast.IfExp, ast.BoolOp,
                                    ast.UnaryOp)):
                    continue
                return False
            if not isinstance(par.ctx, ast.Load):
                return False
            if par.attr in views or par.attr.startswith(READER_PREFIXES):
                continue
            return False
    return True


def eliminate_slot_aliases(func: ast.FunctionDef, selfname: str | None,
                           slots: set[str], rebound: set[str],
                           view_props: set[str] = frozenset(),
                           any_views: set[str] = frozenset()) -> bool:
    """``x = obj._slot`` (x bound once; obj a parameter or a local bound once;
    the slot not re-bound by this function or by anything it calls on obj)
    -> uses of x read obj._slot.  For ``self`` also ``x = self.view`` where
    `view` is a property that returns a live view of a slot."""
    stores = _store_counts(func)
    table, drop = {}, set()
    for n in ast.walk(func):
        if not (isinstance(n, ast.Assign) and len(n.targets) == 1
                and isinstance(n.targets[0], ast.Name)
                and stores.get(n.targets[0].id) == 1
                and isinstance(n.value, ast.Attribute)
                and isinstance(n.value.value, ast.Name)):
            continue
        recv, attr = n.value.value.id, n.value.attr
        if stores.get(recv, 0) > 1:
            continue
        if attr in rebound or "*" in rebound:
            continue
        if attr in slots or (recv == selfname and attr in view_props):
            table[n.targets[0].id] = n.value
            drop.add(id(n))
        elif recv != selfname and attr in any_views and \
                stores.get(recv, 0) <= 1 and _only_read(func, recv, any_views):
            # x = other.view for a graph the function only reads
            table[n.targets[0].id] = n.value
            drop.add(id(n))
    if not table:
        return False
    _drop_and_subst(func, table, drop)
    return True


def _simple_context(value: ast.AST, name: str) -> bool:
    """name occurs exactly once in value, reached only through unary
    operators and calls f(name, <names/constants>...) whose callee is a plain
    name / attribute chain: substituting an expression for it keeps the order
    of evaluation of everything with a side effect."""
    if isinstance(value, ast.Name):
        return value.id == name
    if isinstance(value, ast.UnaryOp):
        return _simple_context(value.operand, name)
    if isinstance(value, (ast.ListComp, ast.SetComp, ast.GeneratorExp,
                          ast.DictComp)):
        # the iterable of the first generator is evaluated once, immediately
        g0 = value.generators[0]
        others = [x for x in ast.walk(value) if isinstance(x, ast.Name)
                  and x.id == name]
        return isinstance(g0.iter, ast.Name) and g0.iter.id == name and \
            len(others) == 1
    if isinstance(value, ast.Call) and value.args and dotted(value.func) and \
            not any(isinstance(a, ast.Starred) for a in value.args):
        rest = list(value.args[1:]) + [k.value for k in value.keywords]
        if all(isinstance(a, (ast.Name, ast.Constant)) and not (
                isinstance(a, ast.Name) and a.id == name) for a in rest):
            return _simple_context(value.args[0], name)
    return False


def _pure(e: ast.AST) -> bool:
    """No call, no comprehension, no walrus: reading e twice or later gives
    the same value as long as nothing ran in between."""
    return not any(isinstance(n, (ast.Call, ast.ListComp, ast.SetComp,
                                  ast.DictComp, ast.GeneratorExp, ast.Lambda,
                                  ast.NamedExpr, ast.Await, ast.Yield,
                                  ast.YieldFrom, ast.Starred))
                   for n in ast.walk(e))


def _first_use_before_any_call(header: ast.AST, name: str) -> bool:
    """name is read in header exactly once, outside comprehensions/lambdas,
    and no call has completed before that read (left-to-right evaluation)."""
    state = {"calls_done": 0, "ok": None, "uses": 0}

    def ev(e):
        if e is None:
            return
        if isinstance(e, ast.Name):
            if e.id == name and isinstance(e.ctx, ast.Load):
                state["uses"] += 1
                if state["ok"] is None:
                    state["ok"] = state["calls_done"] == 0
            return
        if isinstance(e, (ast.ListComp, ast.SetComp, ast.DictComp,
                          ast.GeneratorExp, ast.Lambda)):
            if any(isinstance(x, ast.Name) and x.id == name
                   for x in ast.walk(e)):
                state["uses"] += 2          # not substitutable
            state["calls_done"] += 1
            return
        if isinstance(e, ast.Call):
            ev(e.func)
            for a_ in e.args:
                ev(a_.value if isinstance(a_, ast.Starred) else a_)
            for k in e.keywords:
                ev(k.value)
            state["calls_done"] += 1
            return
        for c in ast.iter_child_nodes(e):
            if isinstance(c, (ast.expr_context, ast.operator, ast.cmpop,
                              ast.boolop, ast.unaryop)):
                continue
            ev(c)

    ev(header)
    return state["uses"] == 1 and bool(state["ok"])


def _header(st: ast.stmt):
    if isinstance(st, ast.If) or isinstance(st, ast.While):
        return st.test
    if isinstance(st, (ast.Return, ast.Expr)):
        return st.value
    if isinstance(st, ast.Assign) and len(st.targets) == 1 and isinstance(
            st.targets[0], ast.Name):
        return st.value
    if isinstance(st, ast.For):
        return st.iter
    return None


def inline_pure_temps(func: ast.FunctionDef) -> bool:
    """``t = <pure expression>`` directly followed by a statement whose header
    reads t once before any call completes, t occurring nowhere else -> the
    expression is written in place."""
    counts: dict[str, int] = {}
    for n in ast.walk(func):
        if isinstance(n, ast.Name):
            counts[n.id] = counts.get(n.id, 0) + 1
    changed = False

    def walk(stmts):
        nonlocal changed
        out = []
        i = 0
        while i < len(stmts):
            st = stmts[i]
            for f in ("body", "orelse", "finalbody"):
                sub = getattr(st, f, None)
                if isinstance(sub, list) and sub and isinstance(
                        sub[0], ast.stmt):
                    setattr(st, f, walk(sub))
            for h in getattr(st, "handlers", []) or []:
                h.body = walk(h.body)
            nxt = stmts[i + 1] if i + 1 < len(stmts) else None
            hdr = _header(nxt) if nxt is not None else None
            if isinstance(st, ast.Assign) and len(st.targets) == 1 and \
                    isinstance(st.targets[0], ast.Name) and counts.get(
                    st.targets[0].id) == 2 and hdr is not None and \
                    _pure(st.value) and not isinstance(
                    st.value, (ast.Constant,)) and \
                    _first_use_before_any_call(hdr, st.targets[0].id):
                name, value = st.targets[0].id, st.value

                class T(ast.NodeTransformer):
                    def visit_Name(self, node):
                        if node.id == name and isinstance(node.ctx, ast.Load):
                            return value
                        return node

                new_hdr = T().visit(hdr)
                if isinstance(nxt, (ast.If, ast.While)):
                    nxt.test = new_hdr
                elif isinstance(nxt, ast.For):
                    nxt.iter = new_hdr
                else:
                    nxt.value = new_hdr
                changed = True
                i += 1
                continue
            out.append(st)
            i += 1
        return out

    func.body = walk(func.body)
    return changed


def inline_single_use_temps(func: ast.FunctionDef) -> bool:
    """``t = e`` directly followed by ``return f(t)`` / ``x = f(t)`` where t
    occurs nowhere else -> the expression is used in place."""
    counts: dict[str, int] = {}
    for n in ast.walk(func):
        if isinstance(n, ast.Name):
            counts[n.id] = counts.get(n.id, 0) + 1
    changed = False

    def walk(stmts):
        nonlocal changed
        out = []
        i = 0
        while i < len(stmts):
            st = stmts[i]
            for f in ("body", "orelse", "finalbody"):
                sub = getattr(st, f, None)
                if isinstance(sub, list) and sub and isinstance(
                        sub[0], ast.stmt):
                    setattr(st, f, walk(sub))
            for h in getattr(st, "handlers", []) or []:
                h.body = walk(h.body)
            nxt = stmts[i + 1] if i + 1 < len(stmts) else None
            if isinstance(st, ast.Assign) and len(st.targets) == 1 and \
                    isinstance(st.targets[0], ast.Name) and counts.get(
                    st.targets[0].id) == 2 and isinstance(
                    nxt, (ast.Return, ast.Assign, ast.Expr)) and \
                    nxt.value is not None \
                    and not (isinstance(nxt.value, ast.Name)
                             and isinstance(nxt, ast.Return)) and \
                    _simple_context(nxt.value, st.targets[0].id) and (
                    isinstance(nxt, (ast.Return, ast.Expr)) or (
                        len(nxt.targets) == 1 and not any(
                            isinstance(x, ast.Name)
                            and x.id == st.targets[0].id
                            for x in ast.walk(nxt.targets[0])))):
                name = st.targets[0].id
                value = st.value

                class T(ast.NodeTransformer):
                    def visit_Name(self, node):
                        if node.id == name and isinstance(node.ctx, ast.Load):
                            return value
                        return node

                if isinstance(nxt.value, ast.Name):
                    nxt.value = value
                else:
                    T().visit(nxt)
                changed = True
                i += 1
                continue
            out.append(st)
            i += 1
        return out

    func.body = walk(func.body)
    return changed


def _ends_in_exit(body) -> bool:
    return bool(body) and isinstance(body[-1], (ast.Return, ast.Raise,
                                                 ast.Continue, ast.Break))


def flatten_else_after_exit(func: ast.FunctionDef) -> bool:
    """``if c: ...; return X  else: REST`` -> ``if c: ...; return X`` + REST
    (the else branch of a test whose body always leaves is dedented)."""
    changed = False

    def walk(stmts):
        nonlocal changed
        out = []
        for st in stmts:
            for f in ("body", "orelse", "finalbody"):
                sub = getattr(st, f, None)
                if isinstance(sub, list) and sub and isinstance(
                        sub[0], ast.stmt):
                    setattr(st, f, walk(sub))
            for h in getattr(st, "handlers", []) or []:
                h.body = walk(h.body)
            if isinstance(st, ast.If) and st.orelse and _ends_in_exit(
                    st.body):
                rest = st.orelse
                st.orelse = []
                out.append(st)
                out.extend(rest)
                changed = True
            else:
                out.append(st)
        return out

    func.body = walk(func.body)
    return changed


def loops_to_comprehensions(func: ast.FunctionDef) -> bool:
    """``x = []`` directly followed by ``for t in it: [if c:] x.append(e)``
    (also set / dict building) -> ``x = [e for t in it if c]`` when neither
    the loop variables nor x are needed for anything else."""
    loads: dict[str, int] = {}
    for n in ast.walk(func):
        if isinstance(n, ast.Name) and isinstance(n.ctx, ast.Load):
            loads[n.id] = loads.get(n.id, 0) + 1
    changed = False

    def empty_kind(v):
        if isinstance(v, ast.List) and not v.elts:
            return "list"
        if isinstance(v, ast.Dict) and not v.keys:
            return "dict"
        if isinstance(v, ast.Call) and isinstance(v.func, ast.Name) and \
                not v.args and not v.keywords and v.func.id in (
                "list", "dict", "set"):
            return v.func.id
        return None

    def walk(stmts):
        nonlocal changed
        out = []
        i = 0
        while i < len(stmts):
            st = stmts[i]
            for f in ("body", "orelse", "finalbody"):
                sub = getattr(st, f, None)
                if isinstance(sub, list) and sub and isinstance(
                        sub[0], ast.stmt):
                    setattr(st, f, walk(sub))
            for h in getattr(st, "handlers", []) or []:
                h.body = walk(h.body)
            nxt = stmts[i + 1] if i + 1 < len(stmts) else None
            tgt = None
            if isinstance(st, ast.Assign) and len(st.targets) == 1 and \
                    isinstance(st.targets[0], ast.Name):
                tgt, val = st.targets[0].id, st.value
            elif isinstance(st, ast.AnnAssign) and isinstance(
                    st.target, ast.Name) and st.value is not None:
                tgt, val = st.target.id, st.value
            kind = empty_kind(val) if tgt else None
            if kind and isinstance(nxt, ast.For) and not nxt.orelse:
                conds = []
                body = nxt.body
                while len(body) == 1 and isinstance(body[0], ast.If) and \
                        not body[0].orelse:
                    conds.append(body[0].test)
                    body = body[0].body
                new_val = None
                if len(body) == 1:
                    b = body[0]
                    if kind == "list" and isinstance(b, ast.Expr) and \
                            isinstance(b.value, ast.Call) and isinstance(
                            b.value.func, ast.Attribute) and \
                            b.value.func.attr == "append" and isinstance(
                            b.value.func.value, ast.Name) and \
                            b.value.func.value.id == tgt and len(
                            b.value.args) == 1 and not b.value.keywords:
                        new_val = ast.ListComp(b.value.args[0], [])
                    elif kind == "set" and isinstance(b, ast.Expr) and \
                            isinstance(b.value, ast.Call) and isinstance(
                            b.value.func, ast.Attribute) and \
                            b.value.func.attr == "add" and isinstance(
                            b.value.func.value, ast.Name) and \
                            b.value.func.value.id == tgt and len(
                            b.value.args) == 1:
                        new_val = ast.SetComp(b.value.args[0], [])
                    elif kind == "dict" and isinstance(b, ast.Assign) and \
                            len(b.targets) == 1 and isinstance(
                            b.targets[0], ast.Subscript) and isinstance(
                            b.targets[0].value, ast.Name) and \
                            b.targets[0].value.id == tgt:
                        new_val = ast.DictComp(b.targets[0].slice, b.value, [])
                if new_val is not None:
                    loop_names = {n.id for n in ast.walk(nxt.target)
                                  if isinstance(n, ast.Name)}
                    inside = [n for n in ast.walk(nxt)
                              if isinstance(n, ast.Name)]
                    # x only as the receiver; loop variables not used outside
                    uses_x = sum(1 for n in inside if n.id == tgt)
                    outside_ok = all(
                        loads.get(v, 0) == sum(
                            1 for n in inside if n.id == v
                            and isinstance(n.ctx, ast.Load))
                        for v in loop_names)
                    no_effects = not any(isinstance(
                        n, (ast.NamedExpr, ast.Yield, ast.YieldFrom,
                            ast.Await)) for n in ast.walk(nxt))
                    if uses_x == 1 and outside_ok and no_effects and \
                            len(loop_names) > 0:
                        new_val.generators = [ast.comprehension(
                            nxt.target, nxt.iter, conds, 0)]
                        new = clone(st)
                        new.value = ast.copy_location(new_val, nxt)
                        out.append(new)
                        changed = True
                        i += 2
                        continue
            out.append(st)
            i += 1
        return out

    func.body = walk(func.body)
    return changed


def dispatch_tables_to_if(func: ast.FunctionDef) -> bool:
    """``table[a, b](args)`` at statement level, where `table` is a dict
    literal (inline, or a local bound once and only ever subscripted) whose
    keys are constants and whose key expression is made of pure boolean
    tests, becomes the if / elif chain over the keys (no match: KeyError, as
    the look-up would raise)."""
    stores = _store_counts(func)
    tables: dict[str, tuple[ast.Assign, ast.Dict]] = {}
    for n in ast.walk(func):
        if isinstance(n, ast.Assign) and len(n.targets) == 1 and isinstance(
                n.targets[0], ast.Name) and isinstance(n.value, ast.Dict) \
                and stores.get(n.targets[0].id) == 1:
            tables[n.targets[0].id] = (n, n.value)
    # the local must only be used as `name[...]`
    for name in list(tables):
        for x in ast.walk(func):
            if isinstance(x, ast.Name) and x.id == name and isinstance(
                    x.ctx, ast.Load):
                par = getattr(x, "_parent", None)
                if not (isinstance(par, ast.Subscript) and par.value is x
                        and isinstance(par.ctx, ast.Load)):
                    tables.pop(name, None)
                    break

    def boolean(e) -> bool:
        if isinstance(e, ast.Compare):
            return _pure(e)
        if isinstance(e, ast.UnaryOp) and isinstance(e.op, ast.Not):
            return _pure(e.operand)
        if isinstance(e, ast.BoolOp):
            return all(boolean(v) for v in e.values)
        return False

    changed = [False]
    used: set[str] = set()

    def rewrite(st):
        if not (isinstance(st, ast.Expr) and isinstance(st.value, ast.Call)
                and isinstance(st.value.func, ast.Subscript)):
            return None
        call = st.value
        base = call.func.value
        if isinstance(base, ast.Dict):
            d, name = base, None
        elif isinstance(base, ast.Name) and base.id in tables:
            d, name = tables[base.id][1], base.id
        else:
            return None
        key = call.func.slice
        comps = list(key.elts) if isinstance(key, ast.Tuple) else [key]
        if not comps or not all(boolean(c) for c in comps):
            return None
        rows = []
        for k, v in zip(d.keys, d.values):
            if k is None:
                return None
            try:
                kv = ast.literal_eval(k)
            except Exception:
                return None
            kv = kv if isinstance(key, ast.Tuple) else (kv,)
            if not (isinstance(kv, tuple) and len(kv) == len(comps)
                    and all(isinstance(x, bool) for x in kv)):
                return None
            if not _pure(v):
                return None
            rows.append((kv, v))
        if not rows:
            return None
        chain: list[ast.stmt] = [ast.Raise(
            exc=ast.Call(func=ast.Name("KeyError", ast.Load()), args=[],
                         keywords=[]), cause=None)]
        for kv, v in reversed(rows):
            tests = [clone(c) if want else ast.UnaryOp(ast.Not(), clone(c))
                     for c, want in zip(comps, kv)]
            test = tests[0] if len(tests) == 1 else ast.BoolOp(
                ast.And(), tests)
            body = [ast.Expr(ast.Call(func=clone(v),
                                      args=[clone(a) for a in call.args],
                                      keywords=[clone(k_) for k_ in
                                                call.keywords]))]
            chain = [ast.If(test=test, body=body, orelse=chain)]
        if name:
            used.add(name)
        changed[0] = True
        return [ast.copy_location(chain[0], st)]

    def walk(stmts):
        out = []
        for st in stmts:
            for f in ("body", "orelse", "finalbody"):
                sub = getattr(st, f, None)
                if isinstance(sub, list) and sub and isinstance(
                        sub[0], ast.stmt):
                    setattr(st, f, walk(sub))
            for h in getattr(st, "handlers", []) or []:
                h.body = walk(h.body)
            rep = rewrite(st)
            out.extend(rep if rep is not None else [st])
        return out

    func.body = walk(func.body)
    if changed[0]:
        # a table that is no longer read disappears
        drop = set()
        for name in used:
            still = [x for x in ast.walk(func) if isinstance(x, ast.Name)
                     and x.id == name and isinstance(x.ctx, ast.Load)]
            if not still:
                drop.add(id(tables[name][0]))
        if drop:
            _drop_and_subst(func, {}, drop)
        ast.fix_missing_locations(func)
        set_parents(func)
    return changed[0]


class _Beta(ast.NodeTransformer):
    """(lambda x, y: E)(a, b) -> E[x := a, y := b] for pure arguments (what
    inlining a helper that takes a callable leaves behind)."""

    def __init__(self):
        self.changed = False

    def visit_Call(self, node):
        self.generic_visit(node)
        f = node.func
        if isinstance(f, ast.Lambda) and not node.keywords and not any(
                isinstance(a, ast.Starred) for a in node.args):
            a = f.args
            if a.vararg or a.kwarg or a.kwonlyargs or a.defaults or \
                    len(a.posonlyargs + a.args) != len(node.args):
                return node
            params = [x.arg for x in a.posonlyargs + a.args]
            if not all(_pure(x) for x in node.args):
                return node
            # a parameter that is re-bound inside the body (comprehension
            # variable of the same name) is left alone
            bound = {x.id for c in ast.walk(f.body) if isinstance(
                c, ast.comprehension) for x in ast.walk(c.target)
                if isinstance(x, ast.Name)}
            if bound & set(params):
                return node
            from .core import _Rename
            self.changed = True
            return ast.copy_location(_Rename(dict(zip(
                params, node.args))).visit(clone(f.body)), node)
        return node


def canonicalise(func: ast.FunctionDef, selfname: str | None = None,
                 slots: set[str] = frozenset(),
                 rebound: set[str] = frozenset(),
                 module_funcs: set[str] = frozenset(),
                 view_props: set[str] = frozenset(),
                 any_views: set[str] = frozenset(),
                 ) -> tuple[ast.FunctionDef, bool]:
    new = clone(func)
    set_parents(new)
    ch = dispatch_tables_to_if(new)
    b_ = _Beta()
    new = b_.visit(new)
    ch |= b_.changed
    ch |= flatten_else_after_exit(new)
    c = _Canon()
    new = c.visit(new)
    ch |= c.changed
    ch |= flatten_else_after_exit(new)
    ch |= loops_to_comprehensions(new)
    ch |= propagate_constants(new)
    ch |= propagate_function_aliases(new, module_funcs)
    set_parents(new)
    ch |= eliminate_slot_aliases(new, selfname, slots, rebound, view_props,
                                 any_views)
    ch |= inline_return_temps(new)
    ch |= inline_single_use_temps(new)
    ch |= inline_pure_temps(new)
    lc = _LiteralComp()
    new = lc.visit(new)
    ch |= lc.changed
    if ch:
        ast.fix_missing_locations(new)
        set_parents(new)
    return new, ch


def _new_level_names(prog, keep: set[str]) -> dict[str, ast.AST | None]:
    """Module / class level names outside the inventory -> their value node
    when it is a literal of constants that nothing in the module mutates
    (tuple / frozenset / dict / list of constants and names of classes or
    functions), else None."""
    out: dict[str, ast.AST | None] = {}
    # class level name -> classes that define it (inventory included)
    definers: dict[str, set[str]] = {}
    for mname, mod in prog.modules.items():
        level = [(None, st) for st in mod.tree.body]
        for st in mod.tree.body:
            if isinstance(st, ast.ClassDef):
                level += [(st.name, s2) for s2 in st.body]
        for cname, st in level:
            tgt = val = None
            if isinstance(st, ast.Assign) and len(st.targets) == 1 and \
                    isinstance(st.targets[0], ast.Name):
                tgt, val = st.targets[0].id, st.value
            elif isinstance(st, ast.AnnAssign) and isinstance(
                    st.target, ast.Name) and st.value is not None:
                tgt, val = st.target.id, st.value
            if tgt is None or tgt.startswith("__"):
                continue
            q = f"{mname}:={cname + '.' if cname else ''}{tgt}"
            if cname:
                definers.setdefault(tgt, set()).add(f"{mname}:{cname}")
            if q in keep:
                continue
            out[q] = val if _literal_table(val) and not _mutated(
                mod.tree, tgt) else None
    # a class level name that several classes of one hierarchy define is
    # configuration read through self / cls: which value a method sees
    # depends on the receiver's class, so it is no constant of the method
    # (Program.specialise resolves it per class)
    by_attr: dict[str, list[str]] = {}
    for q in out:
        rhs = q.split(":=")[1]
        if "." in rhs:
            by_attr.setdefault(rhs.split(".")[-1], []).append(q)
    for attr, qs in by_attr.items():
        if len(qs) > 1 or len(definers.get(attr, ())) > 1:
            for q in qs:
                out[q] = None
    return out


def _literal_table(v: ast.AST, depth: int = 0) -> bool:
    if depth > 4:
        return False
    if isinstance(v, ast.Constant):
        return True
    if isinstance(v, (ast.Tuple, ast.List, ast.Set)):
        return all(_literal_table(e, depth + 1) for e in v.elts)
    if isinstance(v, ast.Dict):
        return all(k is not None and _literal_table(k, depth + 1)
                   and _literal_table(x, depth + 1)
                   for k, x in zip(v.keys, v.values))
    if isinstance(v, ast.UnaryOp) and isinstance(v.op, (ast.USub, ast.UAdd)):
        return _literal_table(v.operand, depth + 1)
    if isinstance(v, (ast.Name, ast.Attribute)):
        return dotted(v) is not None        # class / function / enum member
    if isinstance(v, ast.Call) and dotted(v.func) in (
            "frozenset", "tuple", "MappingProxyType",
            "types.MappingProxyType") and len(v.args) == 1 and \
            not v.keywords:
        return _literal_table(v.args[0], depth + 1)
    return False


def _mutated(tree: ast.AST, name: str) -> bool:
    for n in ast.walk(tree):
        if isinstance(n, (ast.Subscript, ast.Attribute)) and isinstance(
                n.ctx, (ast.Store, ast.Del)):
            base = n.value
            if (isinstance(base, ast.Name) and base.id == name) or (
                    isinstance(base, ast.Attribute) and base.attr == name):
                return True
        if isinstance(n, ast.Call) and isinstance(n.func, ast.Attribute) and \
                n.func.attr in MUTATORS | {"sort", "reverse"}:
            base = n.func.value
            if (isinstance(base, ast.Name) and base.id == name) or (
                    isinstance(base, ast.Attribute) and base.attr == name):
                return True
    return False


def _inline_literal_tables(fi: FuncInfo, tables: dict[str, ast.AST]
                           ) -> ast.FunctionDef | None:
    """Reads of new literal tables (module level by name, class level through
    self / cls / the class name) are replaced by the literal."""
    mname = fi.module.name
    by_name = {q.split(":=")[1]: v for q, v in tables.items()
               if q.startswith(mname + ":=") and "." not in q.split(":=")[1]}
    by_attr = {q.split(":=")[1].split(".")[1]: (q.split(":=")[1].split(".")[0],
                                                v)
               for q, v in tables.items() if "." in q.split(":=")[1]}
    if not by_name and not by_attr:
        return None
    local = {n.id for n in ast.walk(fi.node) if isinstance(n, ast.Name)
             and isinstance(n.ctx, (ast.Store, ast.Del))} | set(fi.params())
    changed = [False]
    recv_ok = set(fi.params()[:1])

    class T(ast.NodeTransformer):
        def visit_Name(self, node):
            if isinstance(node.ctx, ast.Load) and node.id in by_name and \
                    node.id not in local:
                changed[0] = True
                return ast.copy_location(clone(by_name[node.id]), node)
            return node

        def visit_Attribute(self, node):
            self.generic_visit(node)
            if isinstance(node.ctx, ast.Load) and node.attr in by_attr and \
                    isinstance(node.value, ast.Name):
                cname, v = by_attr[node.attr]
                if node.value.id in recv_ok or node.value.id == cname or \
                        node.value.id == "cls":
                    changed[0] = True
                    return ast.copy_location(clone(v), node)
            return node

    new = T().visit(clone(fi.node))
    if not changed[0]:
        return None
    ast.fix_missing_locations(new)
    set_parents(new)
    return new


def _rebinders(prog) -> dict[str, set[str]]:
    """method name -> attributes of self that a method of that name (in any
    class) re-binds, directly or through the self/super calls it makes."""
    direct: dict[str, set[str]] = {}
    calls: dict[str, set[str]] = {}
    for fi in prog.functions.values():
        if fi.cls is None or not fi.params():
            continue
        me = fi.params()[0]
        d = direct.setdefault(fi.name, set())
        c = calls.setdefault(fi.name, set())
        for n in ast.walk(fi.node):
            if isinstance(n, ast.Attribute) and isinstance(
                    n.ctx, (ast.Store, ast.Del)) and isinstance(
                    n.value, ast.Name) and n.value.id == me:
                d.add(n.attr)
            elif isinstance(n, ast.Call) and isinstance(n.func, ast.Attribute):
                v = n.func.value
                if (isinstance(v, ast.Name) and v.id == me) or (
                        isinstance(v, ast.Call) and isinstance(
                        v.func, ast.Name) and v.func.id == "super"):
                    c.add(n.func.attr)
            # setattr(self, name, ...) / object.__setattr__: anything
            if isinstance(n, ast.Call) and dotted(n.func) in (
                    "setattr", "object.__setattr__"):
                d.add("*")
    closed = {k: set(v) for k, v in direct.items()}
    for _ in range(len(closed)):
        changed = False
        for name, cs in calls.items():
            for c in cs:
                extra = closed.get(c, set()) - closed[name]
                if extra:
                    closed[name] |= extra
                    changed = True
        if not changed:
            break
    return closed


def _rebound_slots(prog, fi, rebinders) -> set[str]:
    """Attributes that may be re-bound while fi runs: by fi itself (on any
    receiver) or by a method of that name called on any object in fi."""
    out: set[str] = set()
    for n in ast.walk(fi.node):
        if isinstance(n, ast.Attribute) and isinstance(
                n.ctx, (ast.Store, ast.Del)):
            out.add(n.attr)
        elif isinstance(n, ast.Call) and isinstance(n.func, ast.Attribute):
            out |= rebinders.get(n.func.attr, set())
        elif isinstance(n, ast.Call) and dotted(n.func) in (
                "setattr", "object.__setattr__"):
            out.add("*")
    return out


def _view_properties(prog) -> dict[str, set[str]]:
    """class -> properties (along its MRO) whose body is one return of a
    live view of a slot: self._s, self._s.keys()/.values()/.items(),
    MappingProxyType(self._s)."""
    out: dict[str, set[str]] = {}
    for cname in prog.classes:
        try:
            mro = prog.mro(cname)
        except Exception:
            continue
        props: set[str] = set()
        for c in mro:
            ci = prog.classes.get(c)
            if ci is None:
                continue
            for name, m in ci.methods.items():
                if not m.is_property() or not m.params():
                    continue
                body = _body(m.node)
                if len(body) != 1 or not isinstance(body[0], ast.Return) or \
                        body[0].value is None:
                    continue
                e = body[0].value
                me = m.params()[0]
                if isinstance(e, ast.Call) and dotted(e.func) in (
                        "MappingProxyType", "types.MappingProxyType") and \
                        len(e.args) == 1:
                    e = e.args[0]
                if isinstance(e, ast.Call) and isinstance(
                        e.func, ast.Attribute) and e.func.attr in (
                        "keys", "values", "items") and not e.args:
                    e = e.func.value
                if isinstance(e, ast.Attribute) and isinstance(
                        e.value, ast.Name) and e.value.id == me:
                    props.add(name)
        out[cname] = props
    return out


# ------------------------------------------------------------------- driver
def normalise_program(prog, *, inline: bool = True,
                      unroll_loops: bool = False,
                      canonical: bool = True) -> dict:
    """Rewrites prog.functions / class method tables / module trees in place.
    Returns a report for the evidence files."""
    keep = baseline()
    inl = Inliner(prog, keep)
    report = {"inlined": [], "unrolled": [], "new_functions": [],
              "canonicalised": [], "new_names": [], "tables_inlined": []}
    quals = list(prog.functions)
    report["new_functions"] = sorted(q for q in quals if q not in keep)
    new_tables = _new_level_names(prog, keep)
    # a literal that package code writes at run time is a cache, no constant
    from .caches import table_writes
    for q_, lit_ in list(new_tables.items()):
        if lit_ is not None and table_writes(prog, q_):
            new_tables[q_] = None
    report["new_names"] = sorted(q for q, lit in new_tables.items()
                                 if lit is None)
    literal_tables = {q: lit for q, lit in new_tables.items()
                      if lit is not None}
    report["tables_inlined"] = sorted(literal_tables)
    # inline bottom-up enough: MAX_ROUNDS rounds per function cover nesting
    originals = {q: prog.functions[q].node for q in quals}
    touched: set[str] = set()
    rebinders = _rebinders(prog) if canonical else {}
    all_slots: set[str] = set()
    for ci in prog.classes.values():
        all_slots |= set(ci.slots or ())
    view_props = _view_properties(prog) if canonical else {}
    any_views: set[str] = set()
    for c_, ps_ in view_props.items():
        if c_ in ("MolGraph", "StereoMolGraph", "CondensedReactionGraph",
                  "StereoCondensedReactionGraph"):
            any_views |= ps_
    def process(q):
        fi = prog.functions[q]
        node = fi.node
        if literal_tables:
            t_new = _inline_literal_tables(fi, literal_tables)
            if t_new is not None:
                fi.node = node = t_new
                touched.add(q)
        has_local = any(n is not fi.node and isinstance(n, ast.FunctionDef)
                        for n in ast.walk(fi.node))
        new = inl.run(fi) if inline and (
            report["new_functions"] or has_local) else None
        if new is not None:
            node = new
        # Class.__slots__ is a literal of the class statement
        if any(isinstance(x, ast.Attribute) and x.attr == "__slots__"
               and isinstance(x.value, ast.Name)
               and x.value.id in prog.classes for x in ast.walk(node)):
            class _Slots(ast.NodeTransformer):
                hit = False

                def visit_Attribute(self, n):
                    if n.attr == "__slots__" and isinstance(
                            n.value, ast.Name) and \
                            n.value.id in prog.classes and isinstance(
                            n.ctx, ast.Load):
                        lit = prog.classes[n.value.id].assigns.get("__slots__")
                        if isinstance(lit, (ast.Tuple, ast.List)) and all(
                                isinstance(e, ast.Constant)
                                for e in lit.elts):
                            self.hit = True
                            return ast.copy_location(ast.Tuple(
                                [clone(e) for e in lit.elts], ast.Load()), n)
                    self.generic_visit(n)
                    return n
            t_ = _Slots()
            new_node = t_.visit(clone(node))
            if t_.hit:
                ast.fix_missing_locations(new_node)
                set_parents(new_node)
                node = new_node
                touched.add(q)
        if unroll_loops:
            u, ch = unroll(node)
            if ch:
                node = u
                if q not in report["unrolled"]:
                    report["unrolled"].append(q)
        pending_iters = {norm(n_.iter, 400) for n_ in ast.walk(node)
                         if isinstance(n_, ast.For) and isinstance(
                             n_.iter, (ast.Tuple, ast.List)) and any(
                             isinstance(x, ast.Continue)
                             for x in ast.walk(n_))}
        if canonical:
            selfname, vprops = None, set()
            if fi.cls is not None and not fi.is_staticmethod() and \
                    not fi.is_classmethod() and fi.params():
                selfname = fi.params()[0]
                vprops = view_props.get(fi.cls.name, set())
            rebound = _rebound_slots(prog, fi, rebinders)
            mfuncs = {f.name for f in prog.functions.values()
                      if f.module is fi.module and f.cls is None}
            u, ch = canonicalise(node, selfname, all_slots, rebound, mfuncs,
                                 vprops, any_views)
            if ch:
                node = u
                if q not in report["canonicalised"]:
                    report["canonicalised"].append(q)
            # loops over a literal that could not unroll because of a
            # `continue` (now a guard) can unroll after canonicalisation
            # ... and loops over a local literal of (name, callable) rows
            # that constant propagation has just moved into the loop header
            # (tables of plain constants stay: table rules read them)
            for n_ in ast.walk(node):
                if isinstance(n_, ast.For) and isinstance(
                        n_.iter, (ast.Tuple, ast.List)) and any(
                        not isinstance(x, (ast.Constant, ast.Tuple, ast.List,
                                           ast.Load, ast.UnaryOp, ast.USub))
                        for x in ast.walk(n_.iter)):
                    pending_iters.add(norm(n_.iter, 400))
            if unroll_loops and pending_iters:
                u2, ch2 = unroll(node, only=pending_iters)
                if ch2:
                    node = u2
                    if q not in report["unrolled"]:
                        report["unrolled"].append(q)
                    u3, ch3 = canonicalise(node, selfname, all_slots, rebound,
                                           mfuncs, vprops, any_views)
                    if ch3:
                        node = u3
        if node is not originals.get(q, fi.node) or q in touched:
            return node
        return None

    def install(q, node):
        fi = prog.functions[q]
        old = originals[q]
        par = getattr(old, "_parent", None)
        if par is not None:
            for f in ("body", "orelse", "finalbody"):
                lst = getattr(par, f, None)
                if isinstance(lst, list):
                    for i, x in enumerate(lst):
                        if x is old:
                            lst[i] = node
            node._parent = par
        fi.node = node
        originals[q] = node

    # helpers outside the inventory first, and installed at once: a helper
    # whose canonical form is a single return expression can then be inlined
    # at expression positions of its callers
    first = [q for q in quals if q not in keep]
    for q in first:
        node = process(q)
        if node is not None:
            install(q, node)
    replacements: dict[str, ast.FunctionDef] = {}
    for q in quals:
        if q in first:
            continue
        node = process(q)
        if node is not None:
            replacements[q] = node
    for q, node in replacements.items():
        install(q, node)
    report["inlined"] = sorted(set(inl.inlined))
    return report
