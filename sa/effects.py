"""A4/A5 -- path-ordered effect analysis of the graph mutators.

A syntax-directed walk over a method body (calls to ``self.m`` / ``super().m``
are inlined through the receiver class's MRO) that tracks

  * which *validation facts* hold on the current path
      atom:<expr>            <expr> is an atom of the graph
      bond:<e1>|<e2>         {e1, e2} is a bond of the graph (=> both atoms)
      key:<slot>:<expr>      <expr> is a key of self.<slot>
      distinct:<e1>|<e2>     e1 != e2
      elem:<expr>            <expr> passed the periodic-table lookup
  * whether a write to ``self`` may already have happened (``written``)

and reports every *may-raise* node that can execute after a write
(R-VALIDATE-FIRST) plus, at every normal exit, which facts hold (used by
R-GUARD-EXISTS).
"""
from __future__ import annotations

import ast
import re
from dataclasses import dataclass, field

from .core import (AnalysisError, FuncInfo, Program, call_name, dotted, norm)

ATOM_SLOTS = ("_atom_attrs", "_neighbors")
BOND_SLOTS = ("_bond_attrs",)
WRITE_METHODS = {"add", "discard", "remove", "pop", "update", "clear",
                 "setdefault", "append", "extend", "popitem", "insert",
                 "intersection_update", "difference_update"}


@dataclass
class State:
    facts: frozenset = frozenset()
    written: tuple = ()            # sites of earlier writes (may)
    alias: dict = field(default_factory=dict)   # local name -> expr text

    def with_facts(self, *fs):
        return State(self.facts | frozenset(fs), self.written, dict(self.alias))

    def copy(self):
        return State(self.facts, self.written, dict(self.alias))


def join_states(a: State | None, b: State | None) -> State | None:
    if a is None:
        return b
    if b is None:
        return a
    alias = {k: v for k, v in a.alias.items() if b.alias.get(k) == v}
    written = tuple(dict.fromkeys(a.written + b.written))
    return State(a.facts & b.facts, written, alias)


@dataclass
class Violation:
    func: str
    where: str
    raise_site: str
    write_site: str
    path: tuple


@dataclass
class Exit:
    func: str
    kind: str                # 'normal'
    facts: frozenset
    written: tuple


class Walker:
    def __init__(self, prog: Program, cls: str, autoviv_slots: set[str]):
        self.prog = prog
        self.cls = cls
        self.autoviv = autoviv_slots
        self.violations: list[Violation] = []
        self.stack: list[str] = []
        self.raise_sites: list[tuple[str, str, frozenset]] = []
        self.unmodelled: list[str] = []
        self.root_params: set[str] = set()
        self.visited: list[str] = []     # quals of every function walked

    # ------------------------------------------------------------------
    def run(self, fi: FuncInfo, param_facts=()) -> list[Exit]:
        self.root_params = set(fi.params()[1:]) if fi.cls is not None \
            else set(fi.params())
        st = State(frozenset(param_facts))
        exits: list[Exit] = []
        end = self.func(fi, st, {}, exits)
        return exits

    def func(self, fi: FuncInfo, st: State, argmap: dict[str, str],
             exits: list[Exit] | None) -> State | None:
        """Walk fi's body; argmap renames callee parameter -> caller expr.
        Returns the state at normal exit (None if no normal exit)."""
        if len(self.stack) > 8 or self.stack.count(fi.qual) > 1:
            self.unmodelled.append(f"inline bound at {fi.qual}")
            return st
        self.stack.append(fi.qual)
        if fi.qual not in self.visited:
            self.visited.append(fi.qual)
        try:
            ctx = Ctx(self, fi, argmap)
            out = ctx.block(fi.node.body, st)
            end = join_states(out, ctx.returned)
            if exits is not None and end is not None:
                exits.append(Exit(fi.short, "normal", end.facts, end.written))
            return end
        finally:
            self.stack.pop()


class Ctx:
    def __init__(self, w: Walker, fi: FuncInfo, argmap: dict[str, str]):
        self.w = w
        self.fi = fi
        self.argmap = argmap
        self.returned: State | None = None
        self.selfn = fi.params()[0] if fi.params() else "self"

    # -- naming: canonical text of an expression in the *root* frame --------
    def canon(self, e: ast.AST, st: State) -> str:
        t = norm(e)
        if isinstance(e, ast.Name):
            if e.id in st.alias:
                return st.alias[e.id]
            if e.id in self.argmap:
                return self.argmap[e.id]
        return self._subst(t, e, st)

    def _subst(self, t: str, e: ast.AST, st: State) -> str:
        # textual canonicalisation of simple names inside small expressions
        names = {n.id for n in ast.walk(e) if isinstance(n, ast.Name)}
        import re
        for n in sorted(names, key=len, reverse=True):
            rep = st.alias.get(n) or self.argmap.get(n)
            if rep and rep != n:
                t = re.sub(rf"\b{re.escape(n)}\b", rep.replace("\\", "\\\\"), t)
        return t

    def slot_of(self, e: ast.AST) -> str | None:
        """self.<slot> -> slot ; also self.atoms/bonds properties."""
        if isinstance(e, ast.Attribute) and isinstance(e.value, ast.Name) \
                and e.value.id == self.selfn:
            if e.attr.startswith("_"):
                return e.attr
            return {"atoms": "_atom_attrs", "bonds": "_bond_attrs",
                    "neighbors": "_neighbors",
                    "atoms_with_attributes": "_atom_attrs",
                    "bonds_with_attributes": "_bond_attrs",
                    "atom_stereo": "_atom_stereo",
                    "bond_stereo": "_bond_stereo",
                    "atom_stereo_changes": "_atom_stereo_change",
                    "bond_stereo_changes": "_bond_stereo_change"}.get(e.attr)
        return None

    def bond_members(self, e: ast.AST, st: State) -> tuple[str, str] | None:
        """Bond((a, b)) / Bond({a, b}) / frozenset(...) -> (canon a, canon b)"""
        if isinstance(e, ast.Name) and e.id in st.alias:
            t = st.alias[e.id]
            if t.startswith("BOND(") and "|" in t:
                a, b = t[5:-1].split("|", 1)
                return a, b
        if isinstance(e, ast.Call) and call_name(e) in ("Bond", "frozenset") \
                and len(e.args) == 1 and isinstance(
                e.args[0], (ast.Tuple, ast.Set, ast.List)) and len(
                e.args[0].elts) == 2:
            a, b = e.args[0].elts
            return self.canon(a, st), self.canon(b, st)
        return None

    def key_valid(self, slot: str, key: ast.AST, st: State) -> bool:
        k = self.canon(key, st)
        if f"key:{slot}:{k}" in st.facts:
            return True
        # Bond(x) / frozenset(x) of something that already is a key
        if isinstance(key, ast.Call) and call_name(key) in (
                "Bond", "frozenset") and len(key.args) == 1 and isinstance(
                key.args[0], (ast.Name, ast.Attribute)):
            if f"key:{slot}:{self.canon(key.args[0], st)}" in st.facts:
                return True
        if slot in ATOM_SLOTS and f"atom:{k}" in st.facts:
            return True
        if slot in BOND_SLOTS:
            bm = self.bond_members(key, st)
            if bm and (f"bond:{bm[0]}|{bm[1]}" in st.facts
                       or f"bond:{bm[1]}|{bm[0]}" in st.facts):
                return True
            if f"bondkey:{k}" in st.facts:
                return True
        return False

    def facts_for_key(self, slot: str, key: ast.AST, st: State) -> list[str]:
        k = self.canon(key, st)
        out = [f"key:{slot}:{k}"]
        if slot in ATOM_SLOTS:
            out.append(f"atom:{k}")
        if slot in BOND_SLOTS:
            out.append(f"bondkey:{k}")
            bm = self.bond_members(key, st)
            if bm:
                out += [f"bond:{bm[0]}|{bm[1]}", f"atom:{bm[0]}",
                        f"atom:{bm[1]}"]
        return out

    # -- raising / writing -------------------------------------------------
    def from_request(self, key: ast.AST, st: State) -> bool:
        """Does the key derive from a parameter of the analysed mutator (the
        request)?  Keys drawn from the graph's own containers are consistent
        by the representation invariants and cannot make a lookup fail."""
        k = self.canon(key, st)
        words = set(re.findall(r"[A-Za-z_][A-Za-z_0-9]*", k))
        return bool(words & self.w.root_params)

    def may_raise(self, node: ast.AST, st: State, what: str) -> None:
        site = f"{self.fi.short}: {norm(node, 100)} [{what}]"
        self.w.raise_sites.append((site, self.fi.loc(node), st.facts))
        if st.written:
            self.w.violations.append(Violation(
                self.fi.short, self.fi.loc(node), site, st.written[0],
                tuple(self.w.stack)))

    def wrote(self, node: ast.AST, st: State) -> State:
        site = f"{self.fi.short}: {norm(node, 100)}"
        return State(st.facts, st.written + (site,), dict(st.alias))

    # -- conditions --------------------------------------------------------
    def cond_facts(self, test: ast.AST, st: State, truth: bool) -> list[str]:
        """Facts implied by test being `truth`."""
        out: list[str] = []
        if isinstance(test, ast.UnaryOp) and isinstance(test.op, ast.Not):
            return self.cond_facts(test.operand, st, not truth)
        if isinstance(test, ast.BoolOp):
            conj = isinstance(test.op, ast.And)
            if conj == truth:     # (A and B) true  /  (A or B) false
                for v in test.values:
                    out += self.cond_facts(v, st, truth)
            return out
        if isinstance(test, ast.Compare) and len(test.ops) == 1:
            op = test.ops[0]
            l, r = test.left, test.comparators[0]
            if isinstance(l, ast.NamedExpr):
                l = l.target
            if isinstance(op, (ast.In, ast.NotIn)):
                pos = isinstance(op, ast.In) == truth
                slot = self.slot_of(r)
                if slot and pos:
                    out += self.facts_for_key(slot, l, st)
            elif isinstance(op, (ast.Eq, ast.NotEq)):
                ne = isinstance(op, ast.NotEq) == truth
                if ne:
                    a, b = self.canon(l, st), self.canon(r, st)
                    out += [f"distinct:{a}|{b}", f"distinct:{b}|{a}",
                            f"ne:{a}:{b}", f"ne:{b}:{a}"]
                    # len(x) != 1 false  => len(x) == 1 handled below
                else:
                    a, b = self.canon(l, st), self.canon(r, st)
                    out += [f"eq:{a}:{b}", f"eq:{b}:{a}"]
            return out
        if isinstance(test, ast.Call):
            cn = call_name(test)
            if cn == f"{self.selfn}.has_atom" and truth and test.args:
                out += self.facts_for_key("_atom_attrs", test.args[0], st)
            elif cn == f"{self.selfn}.has_bond" and truth and len(test.args) == 2:
                a, b = (self.canon(x, st) for x in test.args)
                out += [f"bond:{a}|{b}", f"atom:{a}", f"atom:{b}"]
            elif cn == "isinstance" and len(test.args) == 2:
                out.append(f"{'isinstance' if truth else 'notinstance'}:"
                           f"{self.canon(test.args[0], st)}:{norm(test.args[1])}")
        return out

    def cond_known(self, test: ast.AST, st: State):
        """True / False when the facts on this path decide the test."""
        if isinstance(test, ast.UnaryOp) and isinstance(test.op, ast.Not):
            k = self.cond_known(test.operand, st)
            return None if k is None else (not k)
        if isinstance(test, ast.BoolOp):
            ks = [self.cond_known(v, st) for v in test.values]
            if isinstance(test.op, ast.And):
                if any(k is False for k in ks):
                    return False
                return True if all(k is True for k in ks) else None
            if any(k is True for k in ks):
                return True
            return False if all(k is False for k in ks) else None
        if isinstance(test, ast.Call):
            cn = call_name(test)
            if cn == f"{self.selfn}.has_atom" and test.args and \
                    self.key_valid("_atom_attrs", test.args[0], st):
                return True
            if cn == f"{self.selfn}.has_bond" and len(test.args) == 2:
                a, b = (self.canon(x, st) for x in test.args)
                if f"bond:{a}|{b}" in st.facts or f"bond:{b}|{a}" in st.facts:
                    return True
        if isinstance(test, ast.Compare) and len(test.ops) == 1 and isinstance(
                test.ops[0], (ast.Eq, ast.NotEq)):
            a = self.canon(test.left, st)
            b = self.canon(test.comparators[0], st)
            if f"distinct:{a}|{b}" in st.facts or f"ne:{a}:{b}" in st.facts:
                return isinstance(test.ops[0], ast.NotEq)
            if f"eq:{a}:{b}" in st.facts:
                return isinstance(test.ops[0], ast.Eq)
        if isinstance(test, ast.Compare) and len(test.ops) == 1 and isinstance(
                test.ops[0], (ast.In, ast.NotIn)) and isinstance(
                test.left, ast.Constant) and isinstance(
                test.comparators[0], ast.Name):
            got = [f for f in st.facts if f.startswith(
                f"kwkeys:{test.comparators[0].id}:")]
            if got:
                keys = set(filter(None, got[0].split(":", 2)[2].split(",")))
                present = test.left.value in keys
                return present == isinstance(test.ops[0], ast.In)
            sub = [f for f in st.facts if f.startswith(
                f"kwsub:{test.comparators[0].id}:")]
            if sub:     # upper bound of the keys: only absence is certain
                keys = set(filter(None, sub[0].split(":", 2)[2].split(",")))
                if test.left.value not in keys:
                    return isinstance(test.ops[0], ast.NotIn)
        if isinstance(test, ast.Compare) and len(test.ops) == 1 and isinstance(
                test.ops[0], (ast.In, ast.NotIn)):
            slot = self.slot_of(test.comparators[0])
            l = test.left.target if isinstance(
                test.left, ast.NamedExpr) else test.left
            if slot and self.key_valid(slot, l, st):
                return isinstance(test.ops[0], ast.In)
        return None

    # -- blocks ------------------------------------------------------------
    def block(self, stmts, st: State | None) -> State | None:
        for s in stmts:
            if st is None:
                return None
            st = self.stmt(s, st)
            if st is not None and not isinstance(
                    s, (ast.If, ast.For, ast.While, ast.Try, ast.With)):
                st = self._kill_kw_facts(s, st)
        return st

    @staticmethod
    def _kill_kw_facts(s: ast.AST, st: State) -> State:
        """A dictionary whose keys were recorded is stored into / updated:
        the recorded key set is stale."""
        if not any(f.startswith(("kwkeys:", "kwsub:")) for f in st.facts):
            return st
        touched = set()
        for n in ast.walk(s):
            if isinstance(n, ast.Subscript) and isinstance(
                    n.ctx, (ast.Store, ast.Del)) and isinstance(
                    n.value, ast.Name):
                touched.add(n.value.id)
            elif isinstance(n, ast.Call) and isinstance(
                    n.func, ast.Attribute) and isinstance(
                    n.func.value, ast.Name) and n.func.attr in (
                    "update", "setdefault", "pop", "popitem", "clear",
                    "__setitem__", "__delitem__"):
                touched.add(n.func.value.id)
            elif isinstance(n, ast.AugAssign) and isinstance(
                    n.target, ast.Name):
                touched.add(n.target.id)
        if not touched:
            return st
        st = st.copy()
        st.facts = frozenset(
            f for f in st.facts if not (f.startswith(("kwkeys:", "kwsub:"))
                                        and f.split(":")[1] in touched))
        return st

    def stmt(self, s: ast.AST, st: State) -> State | None:
        if isinstance(s, ast.Raise):
            if s.exc is not None:
                st = self.expr(s.exc, st)
            self.may_raise(s, st, "raise")
            return None
        if isinstance(s, ast.Assert):
            st = self.expr(s.test, st)
            self.may_raise(s, st, "assert")
            return st.with_facts(*self.cond_facts(s.test, st, True))
        if isinstance(s, ast.Return):
            if s.value is not None:
                st = self.expr(s.value, st)
            self.returned = join_states(self.returned, st)
            return None
        if isinstance(s, ast.If):
            st = self.expr(s.test, st)
            known = self.cond_known(s.test, st)
            t = st.with_facts(*self.cond_facts(s.test, st, True))
            f = st.with_facts(*self.cond_facts(s.test, st, False))
            if known is True:
                return self.block(s.body, t)
            if known is False:
                return self.block(s.orelse, f)
            return join_states(self.block(s.body, t), self.block(s.orelse, f))
        if isinstance(s, ast.Assign):
            st = self.expr(s.value, st)
            for t in s.targets:
                st = self.assign(t, s.value, st, s)
            # keys of a dictionary literal that is later forwarded as **kwargs
            if len(s.targets) == 1 and isinstance(s.targets[0], ast.Name):
                alts = _dict_literal_keys(s.value)
                if alts is not None:
                    name = s.targets[0].id
                    if len({frozenset(a) for a in alts}) == 1:
                        st = st.with_facts(
                            f"kwkeys:{name}:{','.join(sorted(alts[0]))}")
                    else:
                        st = st.with_facts("kwsub:%s:%s" % (name, ",".join(
                            sorted(set().union(*alts)))))
            return st
        if isinstance(s, ast.AnnAssign):
            if s.value is not None:
                st = self.expr(s.value, st)
                st = self.assign(s.target, s.value, st, s)
            return st
        if isinstance(s, ast.AugAssign):
            st = self.expr(s.value, st)
            if self.is_self_state(s.target, st):
                st = self.wrote(s, st)
            return st
        if isinstance(s, ast.Expr):
            return self.expr(s.value, st)
        if isinstance(s, ast.Delete):
            for t in s.targets:
                st = self.delete(t, st, s)
            return st
        if isinstance(s, (ast.For,)):
            st = self.expr(s.iter, st)
            body_in = st.with_facts(*self.iter_facts(s.target, s.iter, st))
            # elements of a collection that an earlier loop has validated
            key = f"@forall:{norm(s.iter)}"
            if key in st.alias:
                tgt_txt, facts = st.alias[key]
                if tgt_txt == norm(s.target):
                    body_in = body_in.with_facts(*facts)
            body_in.alias = {k: v for k, v in body_in.alias.items()
                             if k not in _names(s.target)}
            out1 = self.block(s.body, body_in)
            # second trip: writes of the first trip are now "earlier"
            if out1 is not None and out1.written != st.written:
                again = State(body_in.facts, out1.written, dict(body_in.alias))
                out2 = self.block(s.body, again)
                out1 = join_states(out1, out2)
            after = join_states(st, State(st.facts, out1.written, dict(st.alias))
                                if out1 is not None else None)
            # a pure validation loop (no write) establishes its exit facts
            # for every element of the iterated collection
            if out1 is not None and out1.written == st.written and \
                    isinstance(s.iter, ast.Name) and after is not None:
                names = _names(s.target)
                gained = tuple(f for f in out1.facts - st.facts
                               if _fact_exprs(f) <= names | {
                                   x for f2 in [f] for x in _fact_exprs(f2)}
                               and any(_mentions(f, n) for n in names))
                after = after.copy()
                after.alias[f"@forall:{norm(s.iter)}"] = (norm(s.target), gained)
            return self.block(s.orelse, after) if s.orelse else after
        if isinstance(s, ast.While):
            st = self.expr(s.test, st)
            out1 = self.block(s.body, st.copy())
            if out1 is not None and out1.written != st.written:
                out1 = join_states(out1, self.block(
                    s.body, State(st.facts, out1.written, dict(st.alias))))
            return join_states(st, State(st.facts, out1.written, dict(st.alias))
                               if out1 is not None else None)
        if isinstance(s, ast.Try):
            # a handler that converts the exception: lookups in the body that
            # may raise are re-raised by the handler's own raise statement
            body_out = self.block(s.body, st)
            outs = [body_out]
            for h in s.handlers:
                outs.append(self.block(h.body, st.copy()))
            out = None
            for o in outs:
                out = join_states(out, o)
            if s.orelse:
                out = self.block(s.orelse, out) if out is not None else None
            if s.finalbody:
                out = self.block(s.finalbody, out) if out is not None else None
            return out
        if isinstance(s, ast.With):
            for item in s.items:
                st = self.expr(item.context_expr, st)
            return self.block(s.body, st)
        if isinstance(s, (ast.Pass, ast.Import, ast.ImportFrom, ast.Global,
                          ast.Nonlocal, ast.FunctionDef, ast.ClassDef)):
            return st
        if isinstance(s, (ast.Break, ast.Continue)):
            return st
        self.w.unmodelled.append(f"statement {type(s).__name__} in "
                                 f"{self.fi.short}")
        return st

    def iter_facts(self, target: ast.AST, it: ast.AST, st: State) -> list[str]:
        """Facts about loop variables drawn from the graph's own containers."""
        out: list[str] = []
        core = it
        while isinstance(core, ast.Call) and call_name(core) in (
                "tuple", "list", "set", "frozenset", "sorted", "iter") \
                and len(core.args) == 1:
            core = core.args[0]
        view = None
        if isinstance(core, ast.Call) and isinstance(core.func, ast.Attribute) \
                and core.func.attr in ("items", "keys", "values", "copy") \
                and not core.args:
            view = core.func.attr
            inner = core.func.value
            if view == "copy":
                view = "keys"
            if isinstance(inner, ast.Call) and isinstance(
                    inner.func, ast.Attribute) and inner.func.attr == "copy":
                inner = inner.func.value
            core2 = inner
        else:
            core2 = core
            view = "keys"
        slot = self.slot_of(core2)
        if slot:
            keyt = target
            if view == "items" and isinstance(target, ast.Tuple) and len(
                    target.elts) == 2:
                keyt = target.elts[0]
            elif view == "values":
                keyt = None
            if isinstance(keyt, ast.Name):
                out += [f"key:{slot}:{keyt.id}"]
                if slot in ATOM_SLOTS:
                    out.append(f"atom:{keyt.id}")
                if slot in BOND_SLOTS:
                    out.append(f"bondkey:{keyt.id}")
            elif isinstance(keyt, ast.Tuple) and slot in BOND_SLOTS and len(
                    keyt.elts) == 2 and all(isinstance(x, ast.Name)
                                            for x in keyt.elts):
                a, b = keyt.elts[0].id, keyt.elts[1].id
                out += [f"bond:{a}|{b}", f"atom:{a}", f"atom:{b}"]
            return out
        # elements of self._neighbors[X] / self.bonded_to(X)
        base = None
        if isinstance(core2, ast.Subscript) and self.slot_of(
                core2.value) == "_neighbors":
            base = core2.slice
        elif isinstance(core2, ast.Call) and call_name(core2) == \
                f"{self.selfn}.bonded_to" and len(core2.args) == 1:
            base = core2.args[0]
        if base is not None and isinstance(target, ast.Name):
            x = self.canon(base, st)
            n = target.id
            out += [f"atom:{n}", f"bond:{x}|{n}", f"bond:{n}|{x}"]
        return out

    def is_self_state(self, target: ast.AST, st: State) -> bool:
        """Does the store target live in self's containers?"""
        node = target
        while isinstance(node, (ast.Subscript, ast.Attribute)):
            if self.slot_of(node):
                return True
            node = node.value
        if isinstance(node, ast.Name) and st.alias.get(node.id, "").startswith(
                f"{self.selfn}._"):
            return True
        return False

    def assign(self, target, value, st: State, stmt) -> State:
        if isinstance(target, ast.Name):
            st = st.copy()
            bm = self.bond_members(value, st) if isinstance(
                value, ast.Call) else None
            if bm:
                st.alias[target.id] = f"BOND({bm[0]}|{bm[1]})"
            elif isinstance(value, (ast.Name, ast.Attribute, ast.Subscript)):
                st.alias[target.id] = self.canon(value, st)
            elif isinstance(value, ast.NamedExpr):
                st.alias.pop(target.id, None)
            else:
                st.alias.pop(target.id, None)
                # drop stale facts about the rebound name
            st.facts = frozenset(f for f in st.facts
                                 if not _mentions(f, target.id)) | frozenset(
                self.value_facts(target.id, value, st))
            return st
        if isinstance(target, (ast.Tuple, ast.List)):
            st = st.copy()
            for n in _names(target):
                st.alias.pop(n, None)
                st.facts = frozenset(f for f in st.facts if not _mentions(f, n))
            # a1, a2 = bond  (bond validated) => members are atoms of a bond
            if isinstance(value, ast.Name) and len(target.elts) == 2 and all(
                    isinstance(x, ast.Name) for x in target.elts):
                v = self.canon(value, st)
                if f"bondkey:{v}" in st.facts or f"key:_bond_attrs:{v}" in st.facts:
                    a, b = target.elts[0].id, target.elts[1].id
                    st.facts |= {f"bond:{a}|{b}", f"atom:{a}", f"atom:{b}"}
            return st
        if isinstance(target, ast.Attribute):
            if self.slot_of(target):
                return self.wrote(stmt, st)
            return st
        if isinstance(target, ast.Subscript):
            st = self.expr(target.value, st)     # inner lookups may raise
            st = self.expr(target.slice, st)
            if self.is_self_state(target, st):
                slot = self.slot_of(target.value)
                st = self.wrote(stmt, st)
                if slot:
                    # a store CREATES the key: later lookups do not raise,
                    # but nothing about the request has been validated
                    st = st.with_facts(
                        f"key:{slot}:{self.canon(target.slice, st)}")
            return st
        return st

    def value_facts(self, name: str, value: ast.AST, st: State) -> list[str]:
        out = []
        # x = PERIODIC_TABLE[y]  -> y is an element (lookup raised otherwise)
        if isinstance(value, ast.Subscript) and norm(value.value) == \
                "PERIODIC_TABLE":
            out.append(f"elem:{name}")
        return out

    def delete(self, t, st: State, stmt) -> State:
        if isinstance(t, ast.Subscript):
            st = self.expr(t.value, st)
            slot = self.slot_of(t.value)
            if slot:
                if not self.key_valid(slot, t.slice, st) and \
                        slot not in self.w.autoviv and \
                        self.from_request(t.slice, st):
                    self.may_raise(stmt, st, f"KeyError from del {slot}[...]")
                elif not self.key_valid(slot, t.slice, st):
                    pass
                st = st.with_facts(*self.facts_for_key(slot, t.slice, st))
                return self.wrote(stmt, st)
            if self.is_self_state(t, st):
                self.may_raise(stmt, st, "KeyError from del on inner dict")
                return self.wrote(stmt, st)
        return st

    # -- expressions (left-to-right, raising lookups and write calls) -------
    def expr(self, e: ast.AST, st: State) -> State:
        if isinstance(e, ast.NamedExpr):
            st = self.expr(e.value, st)
            return self.assign(e.target, e.value, st, e)
        if isinstance(e, ast.BoolOp):
            # short circuit: later operands see facts of earlier ones
            cur = st
            truth = isinstance(e.op, ast.And)
            for v in e.values:
                cur = self.expr(v, cur)
                cur = cur.with_facts(*self.cond_facts(v, cur, truth))
            return State(st.facts, cur.written, dict(cur.alias))
        if isinstance(e, ast.IfExp):
            st = self.expr(e.test, st)
            a = self.expr(e.body, st.with_facts(*self.cond_facts(e.test, st, True)))
            b = self.expr(e.orelse, st.with_facts(*self.cond_facts(e.test, st, False)))
            j = join_states(a, b)
            return State(st.facts, j.written, dict(st.alias))
        if isinstance(e, (ast.ListComp, ast.SetComp, ast.GeneratorExp,
                          ast.DictComp)):
            cur = st
            for g in e.generators:
                cur = self.expr(g.iter, cur)
                cur = cur.with_facts(*self.iter_facts(g.target, g.iter, cur))
                for c in g.ifs:
                    cur = self.expr(c, cur)
                    cur = cur.with_facts(*self.cond_facts(c, cur, True))
            if isinstance(e, ast.DictComp):
                cur = self.expr(e.key, cur)
                cur = self.expr(e.value, cur)
            else:
                cur = self.expr(e.elt, cur)
            return State(st.facts, cur.written, dict(st.alias))
        if isinstance(e, ast.Subscript):
            st = self.expr(e.value, st)
            st = self.expr(e.slice, st)
            slot = self.slot_of(e.value)
            if slot and isinstance(e.ctx, ast.Load):
                if slot in self.w.autoviv:
                    if not self.key_valid(slot, e.slice, st):
                        st = self.wrote(e, st)       # auto-vivification
                else:
                    if not self.key_valid(slot, e.slice, st) and \
                            self.from_request(e.slice, st):
                        self.may_raise(e, st, f"KeyError from {slot}[...]")
                    st = st.with_facts(*self.facts_for_key(slot, e.slice, st))
            elif norm(e.value) == "PERIODIC_TABLE":
                k = self.canon(e.slice, st)
                if f"elem:{k}" not in st.facts and not self._in_try(e):
                    self.may_raise(e, st, "KeyError from PERIODIC_TABLE[...]")
                st = st.with_facts(f"elem:{k}")
            return st
        if isinstance(e, ast.Call):
            return self.call(e, st)
        for child in ast.iter_child_nodes(e):
            if isinstance(child, ast.expr):
                st = self.expr(child, st)
        return st

    def _in_try(self, node: ast.AST) -> bool:
        from .core import ancestors
        prev = node
        for a in ancestors(node):
            if isinstance(a, ast.Try) and prev in a.body and a.handlers:
                return True
            if isinstance(a, ast.FunctionDef):
                return False
            prev = a
        return False

    def call(self, e: ast.Call, st: State) -> State:
        f = e.func
        for a in e.args:
            st = self.expr(a.value if isinstance(a, ast.Starred) else a, st)
        for k in e.keywords:
            st = self.expr(k.value, st)
        # super().m(...) / self.m(...)
        target = None
        if isinstance(f, ast.Attribute):
            if isinstance(f.value, ast.Call) and call_name(f.value) == "super":
                if self.fi.cls is not None:
                    target = self.w.prog.resolve_method(
                        self.w.cls, f.attr, after=self.fi.cls.name)
            elif isinstance(f.value, ast.Name) and f.value.id == self.selfn:
                target = self.w.prog.resolve_method(self.w.cls, f.attr)
                if target is not None and target.is_property():
                    target = None
            else:
                st = self.expr(f.value, st)
        if target is not None:
            return self.inline(target, e, st)
        if isinstance(f, ast.Attribute):
            meth = f.attr
            recv = f.value
            if self.is_self_state(recv, st) or self.slot_of(recv):
                slot = self.slot_of(recv)
                if meth in ("pop",) and slot and len(e.args) == 1 and \
                        not self.key_valid(slot, e.args[0], st) and \
                        slot not in self.w.autoviv and \
                        self.from_request(e.args[0], st):
                    self.may_raise(e, st, f"KeyError from {slot}.pop(k)")
                if meth in ("pop", "remove") and not slot and len(e.args) == 1 \
                        and meth in WRITE_METHODS and self.from_request(
                            e.args[0], st):
                    # inner container .pop(k)/.remove(k): raises if absent
                    self.may_raise(e, st, f"KeyError from .{meth}(k)")
                if meth in WRITE_METHODS:
                    st = self.wrote(e, st)
                    if slot and meth in ("setdefault",) and e.args:
                        st = st.with_facts(
                            f"key:{slot}:{self.canon(e.args[0], st)}")
        return st

    def inline(self, target: FuncInfo, e: ast.Call, st: State) -> State:
        params = target.params()
        if target.cls is not None and not target.is_staticmethod():
            params = params[1:]
        argmap: dict[str, str] = {}
        pos = [a for a in e.args]
        for p, a in zip(params, pos):
            if isinstance(a, ast.Starred):
                break
            argmap[p] = self.canon(a, st)
        # f(*bond): members of a validated bond
        if len(pos) == 1 and isinstance(pos[0], ast.Starred) and len(params) >= 2:
            v = self.canon(pos[0].value, st)
            argmap[params[0]] = f"{v}[0]"
            argmap[params[1]] = f"{v}[1]"
            if f"bondkey:{v}" in st.facts or f"key:_bond_attrs:{v}" in st.facts:
                st = st.with_facts(f"bond:{v}[0]|{v}[1]", f"atom:{v}[0]",
                                   f"atom:{v}[1]")
        for k in e.keywords:
            if k.arg:
                argmap[k.arg] = self.canon(k.value, st)
        # keys of the callee's **kwargs dictionary, when the call site fixes
        # them (explicit keywords, or forwarding of a dictionary with known
        # keys)
        kwname = target.node.args.kwarg.arg if target.node.args.kwarg else None
        if kwname:
            explicit = [k.arg for k in e.keywords if k.arg
                        and k.arg not in params]
            stars = [k.value for k in e.keywords if k.arg is None]
            keys = set(explicit)
            known = exact = True
            for sv in stars:
                got = [f for f in st.facts if f.startswith(
                    f"kwkeys:{self.canon(sv, st)}:")]
                sub = [f for f in st.facts if f.startswith(
                    f"kwsub:{self.canon(sv, st)}:")]
                lit = _dict_literal_keys(sv)
                if got:
                    keys |= set(filter(None, got[0].split(":", 2)[2].split(",")))
                elif sub:
                    keys |= set(filter(None, sub[0].split(":", 2)[2].split(",")))
                    exact = False
                elif lit is not None:
                    keys |= set().union(*lit)
                    if len({frozenset(a) for a in lit}) != 1:
                        exact = False
                else:
                    known = False
            if known:
                st = st.with_facts(("kwkeys" if exact else "kwsub")
                                   + f":{kwname}:{','.join(sorted(keys))}")
        # callee works on a state whose aliases are hidden
        inner = State(st.facts, st.written, {})
        out = self.w.func(target, inner, argmap, None)
        if out is None:
            # callee never returns normally (always raises)
            return State(st.facts, st.written, dict(st.alias))
        argvals = set(argmap.values())
        kept = {f for f in out.facts if f in st.facts
                or _fact_exprs(f) <= argvals}
        return State(frozenset(kept), out.written, dict(st.alias))


def _dict_literal_keys(e: ast.AST) -> list[set[str]] | None:
    """Key sets of the alternatives of a dictionary literal / conditional
    expression of dictionary literals with constant string keys."""
    if isinstance(e, ast.Dict):
        keys = set()
        for k in e.keys:
            if not (isinstance(k, ast.Constant) and isinstance(k.value, str)):
                return None
            keys.add(k.value)
        return [keys]
    if isinstance(e, ast.Call) and call_name(e) == "dict" and not e.args and \
            all(k.arg for k in e.keywords):
        return [{k.arg for k in e.keywords}]
    if isinstance(e, ast.IfExp):
        a, b = _dict_literal_keys(e.body), _dict_literal_keys(e.orelse)
        if a is None or b is None:
            return None
        return a + b
    return None


def _fact_exprs(f: str) -> set[str]:
    kind, _, rest = f.partition(":")
    if kind in ("kwkeys", "kwsub"):
        return {"@kw"}
    if kind == "key":
        _, _, rest = rest.partition(":")
    if kind in ("eq", "ne", "isinstance", "notinstance"):
        return {rest.split(":")[0]}
    return set(rest.split("|"))


def _names(t: ast.AST) -> set[str]:
    return {n.id for n in ast.walk(t) if isinstance(n, ast.Name)}


def _mentions(fact: str, name: str) -> bool:
    import re
    kind, _, rest = fact.partition(":")
    if kind == "key":
        _, _, rest = rest.partition(":")
    return re.search(rf"(?<![\w.]){re.escape(name)}(?![\w])", rest) is not None
