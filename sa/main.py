"""Entry point:  ./check <ID> [--tier quick|thorough] [--replay <path>]

exit 0  property's static obligations all discharged
exit 1  VIOLATION property=<ID> replay=<path>
exit 2  ANALYSIS-ERROR (anchor vanished / obligation not evaluable / crash)
"""
from __future__ import annotations

import argparse
import importlib
import json
import os
import sys
import time
import traceback

from .core import AnalysisError, Program
from .report import Result, finish


def run_property(prop: str, tier: str, prog: Program | None = None) -> Result:
    mod = importlib.import_module(f"sa.rules.{prop}")
    if prog is None:
        prog = Program()
    res = Result(prop)
    res.units = prog.stats()
    try:
        mod.run(prog, res, tier)
    except AnalysisError as e:
        res.error(str(e))
    except Exception as e:   # a crash is an analysis failure, never a verdict
        tb = traceback.extract_tb(e.__traceback__)[-1]
        res.error(f"checker crashed: {type(e).__name__}: {e} at "
                  f"{tb.filename.split('/')[-1]}:{tb.lineno}")
    try:
        from . import caches
        caches.report(prog, res, prop)
    except AnalysisError as e:
        res.error(str(e))
    _downgrade_opaque(prog, res)
    return res


def _downgrade_opaque(prog: Program, res: Result) -> None:
    """A finding located in a function that delegates to helpers / tables the
    rules cannot see through (outside the rule inventory and not reducible by
    the normal form) is not a verdict: it becomes an analysis error naming
    the obstacle.  Findings elsewhere are untouched."""
    if not res.findings:
        return
    keep = []
    # slots the graph classes declare beyond the seven the rules know:
    # auxiliary state (memo cells, caches) whose observability is not decided
    inventory_slots = {"_atom_attrs", "_neighbors", "_bond_attrs",
                       "_atom_stereo", "_bond_stereo", "_atom_stereo_change",
                       "_bond_stereo_change"}
    new_slots: set[str] = set()
    for c in ("MolGraph", "StereoMolGraph", "CondensedReactionGraph",
              "StereoCondensedReactionGraph"):
        if c in prog.classes:
            try:
                new_slots |= set(prog.all_slots(c)) - inventory_slots
            except Exception:
                pass
    for f in res.findings:
        if f.rule.startswith("R-CACHE-") or f.rule == "R-MEMO-INVALIDATE" \
                or "<decided>" in f.context:
            keep.append(f)
            continue
        if new_slots and not f.rule.endswith("-STATELESS"):
            import re as _re
            hit = sorted(s_ for s_ in new_slots if _re.search(
                rf"(?<![A-Za-z0-9_]){_re.escape(s_)}(?![A-Za-z0-9_])",
                f.msg + " " + f.key))
            if hit:
                res.unrecognised(
                    f.rule, f.key[:120], f.where,
                    "the rule reported `" + f.msg[:160] + "`, which is about "
                    f"the slot {hit[0]}: it is outside the rule inventory "
                    "(auxiliary state of a refactored class); whether it is "
                    "observable state of the graph is not decided")
                continue
        path, _, line = f.where.rpartition(":")
        try:
            fi = prog.function_at(path, int(line))
        except ValueError:
            fi = None
        reasons = []
        if fi is not None:
            cands = [fi]
            if fi.cls is not None:
                # the same method further up the MRO (super() chains)
                for c in prog.mro(fi.cls.name)[1:]:
                    m = prog.classes[c].methods.get(fi.name) \
                        if c in prog.classes else None
                    if m is not None:
                        cands.append(m)
            for c in cands:
                # a finding located at the `def` line speaks about the
                # whole function; one with its own line about that statement
                precise = c is fi and line.isdigit() and int(line) != getattr(
                    fi.node, "lineno", -1) and "<local>" in f.context
                reasons += prog.opaque_context(
                    c, int(line) if precise else None)
        for q in f.context:
            if q in prog.functions:
                reasons += prog.opaque_context(prog.functions[q])
        # helpers the rule's model was read through (stated by the rule)
        through = {q[len("<sees:"):-1] for q in f.context
                   if q.startswith("<sees:")}
        if through:
            reasons = [r for r in reasons if not any(
                r.startswith(f"calls {q} (not inlinable)")
                or r.startswith(f"calls {q.split(':')[-1]} (not inlinable)")
                for q in through)]
        if "<specialised>" in f.context:
            # the rule read the method with its class level configuration
            # resolved for the receiver's class (Program.specialise)
            def resolvable(r: str) -> bool:
                if not r.startswith("reads the table "):
                    return False
                rhs = r[len("reads the table "):].split(":=")[1]
                if "." not in rhs:
                    return False
                cname, attr = rhs.split(".")[0], rhs.split(".")[-1]
                return prog.class_constant(cname, attr) is not None
            reasons = [r for r in reasons if not resolvable(r)]
        if reasons and _standing(prog, f, reasons):
            keep.append(f)
            continue
        if reasons:
            res.unrecognised(f.rule, f.key[:120], f.where,
                             "the rule reported `" + f.msg[:160] + "`, but "
                             f"{fi.short if fi else f.context[0]} " + "; ".join(sorted(set(reasons))[:3])
                             + ": shape rules cannot see through that")
            # the obligation stays undischarged, the finding is withdrawn
        else:
            keep.append(f)
    res.findings = keep


_DEFECTS: dict = {}


def _standing(prog: Program, f, reasons: list[str]) -> bool:
    """The only obstacle is a run-time cache outside the inventory, and that
    cache has a decidable defect (sa/caches.py: key does not determine the
    value / cached object modified and returned), or the rule is about state
    kept between calls and the table *is* that state: the finding stands and
    names the defect."""
    from . import caches
    tables = []
    for r in set(reasons):
        if not r.startswith("reads the table "):
            return False
        tables.append(r[len("reads the table "):])
    notes = []
    for q in tables:
        key = (id(prog), q)
        if key not in _DEFECTS:
            _DEFECTS[key] = (caches.is_runtime_cache(prog, q),
                             caches.cache_defects(prog, q))
        runtime, defects = _DEFECTS[key]
        if not runtime:
            return False
        defects = [d for d in defects
                   if not d.startswith("[R-CACHE-UNDECIDED]")]
        if defects:
            notes += defects
        elif f.rule.endswith("-STATELESS"):
            notes.append(f"`{q}` is written at run time")
        else:
            return False
    f.msg += " {run-time cache outside the inventory: " + "; ".join(
        notes[:2]) + "}"
    return True


def main(argv: list[str] | None = None) -> int:
    ap = argparse.ArgumentParser(prog="check")
    ap.add_argument("prop")
    ap.add_argument("--tier", default=os.environ.get("VERIF_TIER") or "quick",
                    choices=["quick", "thorough"])
    ap.add_argument("--replay", default=None)
    args = ap.parse_args(argv)
    prop = args.prop.upper()
    t0 = time.time()
    try:
        res = run_property(prop, args.tier)
        if args.tier == "thorough":
            from . import selftest
            selftest.run(prop, res)
        if args.replay:
            want = json.loads(open(args.replay).read())
            ident = f"{want['rule']}|{want['key']}"
            hit = [f for f in res.findings if f.ident() == ident]
            print(f"replay {ident}: "
                  f"{'STILL PRESENT' if hit else 'not present any more'}")
        mod = importlib.import_module(f"sa.rules.{prop}")
        return finish(res, args.tier, t0, getattr(mod, "LEVEL_TEXT", ""))
    except ModuleNotFoundError as e:
        print(f"ANALYSIS-ERROR property={prop} no checker: {e}")
        return 2
    except Exception:  # never let a crash look like a violation
        traceback.print_exc()
        print(f"ANALYSIS-ERROR property={prop} checker crashed")
        return 2


if __name__ == "__main__":
    sys.exit(main())
