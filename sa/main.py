"""Entry point:  ./check <ID> [--tier quick|thorough] [--replay <path>]

exit 0  property's static obligations all discharged
exit 1  VIOLATION property=<ID> replay=<path>
exit 2  ANALYSIS-ERROR (anchor vanished / obligation not evaluable / crash)
"""
from __future__ import annotations

import argparse
import importlib
import json
import os
import sys
import time
import traceback

from .core import AnalysisError, Program
from .report import Result, finish


def run_property(prop: str, tier: str, prog: Program | None = None) -> Result:
    mod = importlib.import_module(f"sa.rules.{prop}")
    if prog is None:
        prog = Program()
    res = Result(prop)
    res.units = prog.stats()
    try:
        mod.run(prog, res, tier)
    except AnalysisError as e:
        res.error(str(e))
    except Exception as e:   # a crash is an analysis failure, never a verdict
        tb = traceback.extract_tb(e.__traceback__)[-1]
        res.error(f"checker crashed: {type(e).__name__}: {e} at "
                  f"{tb.filename.split('/')[-1]}:{tb.lineno}")
    return res


def main(argv: list[str] | None = None) -> int:
    ap = argparse.ArgumentParser(prog="check")
    ap.add_argument("prop")
    ap.add_argument("--tier", default=os.environ.get("VERIF_TIER") or "quick",
                    choices=["quick", "thorough"])
    ap.add_argument("--replay", default=None)
    args = ap.parse_args(argv)
    prop = args.prop.upper()
    t0 = time.time()
    try:
        res = run_property(prop, args.tier)
        if args.tier == "thorough":
            from . import selftest
            selftest.run(prop, res)
        if args.replay:
            want = json.loads(open(args.replay).read())
            ident = f"{want['rule']}|{want['key']}"
            hit = [f for f in res.findings if f.ident() == ident]
            print(f"replay {ident}: "
                  f"{'STILL PRESENT' if hit else 'not present any more'}")
        mod = importlib.import_module(f"sa.rules.{prop}")
        return finish(res, args.tier, t0, getattr(mod, "LEVEL_TEXT", ""))
    except ModuleNotFoundError as e:
        print(f"ANALYSIS-ERROR property={prop} no checker: {e}")
        return 2
    except Exception:  # never let a crash look like a violation
        traceback.print_exc()
        print(f"ANALYSIS-ERROR property={prop} checker crashed")
        return 2


if __name__ == "__main__":
    sys.exit(main())
