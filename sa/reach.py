"""Which functions a property's anchors can reach.

sa/anchor_functions.json freezes, per property, the functions the anchors of
properties.jsonl point at (resolved once against the pinned commit, by
qualified name).  Reachability follows a name-based call graph of the current
tree (a call `x.f(..)` / `f(..)` / a property read `x.f` reaches every package
function called f): an over-approximation of the real call graph, which is
what "may this cache influence the property" needs.
"""
from __future__ import annotations

import ast
import json
from pathlib import Path

_ANCHORS = json.loads(
    (Path(__file__).parent / "anchor_functions.json").read_text())


def anchor_functions(prog, prop: str) -> set[str]:
    out = set()
    for q in _ANCHORS.get(prop, []):
        if q.endswith(".<class>"):
            cname = q.split(":")[1].split(".")[0]
            ci = prog.classes.get(cname)
            if ci is not None:
                out |= {m.qual for m in ci.methods.values()}
        elif q in prog.functions:
            out.add(q)
    return out


def _graph(prog):
    """Resolved calls only: f(..) to a function of the same module or one it
    imports, self / cls / super() calls to methods of that name in the class
    hierarchy of the caller, Class(..) and Class.m(..).  Calls through other
    receivers and operator dispatch are not followed (a name-based closure
    reaches the whole package and says nothing)."""
    mod_funcs: dict[tuple[str, str], str] = {}
    by_name: dict[str, set[str]] = {}
    for q, fi in prog.functions.items():
        if fi.cls is None:
            mod_funcs[(fi.module.name, fi.name)] = q
            by_name.setdefault(fi.name, set()).add(q)
    imported: dict[str, set[str]] = {}
    for mname, mod in prog.modules.items():
        names = set()
        for st in ast.walk(mod.tree):
            if isinstance(st, ast.ImportFrom):
                names |= {a.asname or a.name for a in st.names}
        imported[mname] = names

    def family(cname: str) -> set[str]:
        fam = set(prog.mro(cname)) if cname in prog.classes else {cname}
        fam |= set(prog.subclasses(cname))
        return fam

    edges: dict[str, set[str]] = {}
    for q, fi in prog.functions.items():
        tgt: set[str] = set()
        me = None
        if fi.cls is not None and fi.params() and not fi.is_staticmethod():
            me = fi.params()[0]
        for n in ast.walk(fi.node):
            f = n.func if isinstance(n, ast.Call) else None
            if isinstance(f, ast.Name):
                hit = mod_funcs.get((fi.module.name, f.id))
                if hit:
                    tgt.add(hit)
                elif f.id in imported.get(fi.module.name, ()):
                    tgt |= by_name.get(f.id, set())
                if f.id in prog.classes:
                    for c in prog.mro(f.id):
                        ci = prog.classes.get(c)
                        for m in ("__init__", "__new__", "__post_init__"):
                            if ci and m in ci.methods:
                                tgt.add(ci.methods[m].qual)
            attr = None
            if isinstance(n, ast.Attribute) and isinstance(n.value, ast.Name):
                # method call or property read through self / cls / a class
                recv = n.value.id
                if recv == me and fi.cls is not None:
                    fam = family(fi.cls.name)
                elif recv in prog.classes:
                    fam = family(recv)
                else:
                    fam = set()
                attr = n.attr
            elif isinstance(n, ast.Attribute) and isinstance(
                    n.value, ast.Call) and isinstance(
                    n.value.func, ast.Name) and n.value.func.id in (
                    "super", "type") and fi.cls is not None:
                fam = family(fi.cls.name)
                attr = n.attr
            if attr is not None:
                for c in fam:
                    ci = prog.classes.get(c)
                    if ci is not None and attr in ci.methods:
                        tgt.add(ci.methods[attr].qual)
        edges[q] = tgt
    return edges


def reachable(prog, prop: str) -> set[str]:
    cache = getattr(prog, "_reach_cache", None)
    if cache is None:
        cache = prog._reach_cache = {}
    if prop in cache:
        return cache[prop]
    edges = getattr(prog, "_reach_edges", None)
    if edges is None:
        edges = prog._reach_edges = _graph(prog)
    seen = set(anchor_functions(prog, prop))
    work = list(seen)
    while work:
        q = work.pop()
        for t in edges.get(q, ()):
            if t not in seen:
                seen.add(t)
                work.append(t)
    cache[prop] = seen
    return seen
