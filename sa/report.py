"""Findings, obligations, evidence files, known-findings handling."""
from __future__ import annotations

import json
import os
import re
import time
from dataclasses import dataclass, field
from pathlib import Path

VERIF = Path(__file__).resolve().parent.parent
KNOWN_FILE = VERIF / "known_findings.json"


@dataclass
class Finding:
    rule: str            # e.g. "R-OWN"
    key: str             # construct key: qualified function + normalised text
    where: str           # file:line (informational; NOT part of the key)
    msg: str
    path: list[str] = field(default_factory=list)   # call/inlining path
    # qualified names of the functions the verdict was derived from (beyond
    # the one `where` lies in); consulted by the opaque-context downgrade
    context: list[str] = field(default_factory=list)

    def ident(self) -> str:
        return f"{self.rule}|{self.key}"


@dataclass
class Obligation:
    rule: str
    instance: str
    where: str
    ok: bool
    note: str = ""


class Result:
    def __init__(self, prop: str):
        self.prop = prop
        self.obligations: list[Obligation] = []
        self.findings: list[Finding] = []
        self.errors: list[str] = []        # analysis errors -> exit 2
        self.notes: list[str] = []
        self.rules: dict[str, str] = {}    # rule -> one-line statement
        self.trusted: list[str] = []
        self.units: dict = {}
        self.extra: dict = {}
        self.exhaustive = False
        self._seen: set[str] = set()

    # -- recording ----------------------------------------------------------
    def rule(self, name: str, text: str) -> None:
        self.rules[name] = text

    def ok(self, rule: str, instance: str, where: str = "", note: str = ""):
        self.obligations.append(Obligation(rule, instance, where, True, note))

    def bad(self, rule: str, key: str, where: str, msg: str,
            path: list[str] | None = None, instance: str | None = None,
            context: list[str] | None = None):
        self.obligations.append(
            Obligation(rule, instance or key, where, False, msg))
        f = Finding(rule, key, where, msg, path or [], context or [])
        if f.ident() not in self._seen:
            self._seen.add(f.ident())
            self.findings.append(f)

    def error(self, msg: str) -> None:
        self.errors.append(msg)

    def unrecognised(self, rule: str, instance: str, where: str,
                     msg: str) -> None:
        """The construct the rule is about was not found in a form the
        analysis understands: an ANALYSIS-ERROR (exit 2), never a VIOLATION
        -- a behaviour-preserving rewrite must not raise an alarm."""
        self.obligations.append(Obligation(rule, instance, where, False,
                                           "unrecognised: " + msg))
        self.errors.append(f"{rule} {instance}: idiom not recognised at "
                           f"{where}: {msg}")

    def need(self, rule: str, got: int, at_least: int, what: str) -> None:
        """Vacuity guard: a rule that matches fewer sites than were confirmed
        by hand is an analysis failure, never a pass."""
        if got < at_least:
            self.error(f"{rule}: only {got} {what} found, expected >= "
                       f"{at_least} (anchor vanished or idiom not recognised)")

    def count(self, rule: str) -> int:
        return sum(1 for o in self.obligations if o.rule == rule)


def load_known() -> list[dict]:
    if not KNOWN_FILE.exists():
        return []
    data = json.loads(KNOWN_FILE.read_text())
    return data.get("findings", [])


def _slug(s: str) -> str:
    return re.sub(r"[^A-Za-z0-9_.-]+", "_", s)[:80]


def finish(res: Result, tier: str, t0: float, level_text: str = "",
           quiet: bool = False) -> int:
    """Print the report, write evidence + replay files, return exit code."""
    prop = res.prop
    known = [k for k in load_known()
             if k.get("property") == prop and k.get("status") == "known"]
    known_ids = {f"{k['rule']}|{k['key']}" for k in known}

    out_dir = VERIF / "out" / prop
    violations: list[tuple[Finding, str]] = []
    known_hits: list[Finding] = []
    for f in res.findings:
        if f.ident() in known_ids:
            known_hits.append(f)
        else:
            if os.environ.get("VERIF_NO_EVIDENCE"):
                out_dir = Path("/tmp/verif_seed_out") / prop
            out_dir.mkdir(parents=True, exist_ok=True)
            rp = out_dir / f"{_slug(f.rule)}-{_slug(f.key)}.json"
            rp.write_text(json.dumps({
                "property": prop, "rule": f.rule, "key": f.key,
                "where": f.where, "message": f.msg, "path": f.path,
                "rule_text": res.rules.get(f.rule, ""),
            }, indent=1))
            violations.append((f, str(rp)))

    n_obl = len(res.obligations)
    n_ok = sum(1 for o in res.obligations if o.ok)
    distinct = len({(o.rule, o.instance) for o in res.obligations})
    wall = time.time() - t0

    samples = []
    per_rule_seen: dict[str, int] = {}
    for o in res.obligations:
        c = per_rule_seen.get(o.rule, 0)
        if c < 4:
            per_rule_seen[o.rule] = c + 1
            samples.append({"rule": o.rule, "instance": o.instance,
                            "where": o.where,
                            "verdict": "discharged" if o.ok else "violated",
                            **({"note": o.note} if o.note else {})})
    per_rule = {}
    for o in res.obligations:
        d = per_rule.setdefault(o.rule, {"obligations": 0, "discharged": 0})
        d["obligations"] += 1
        d["discharged"] += int(o.ok)

    evidence = {
        "property_id": prop,
        "tier": tier,
        "seed": int(os.environ.get("VERIF_SEED", "0") or 0),
        "level": "other",
        "coverage": {
            "explanation": level_text or (
                "static analysis: obligations enumerated from the current "
                "source of /repo and discharged by repository-specific rules; "
                "nothing is imported or executed"),
            "obligations": n_obl,
            "discharged": n_ok,
            "evaluations": max(n_obl, 1),
            "distinct_nontrivial": distinct,
            "rule": "one evaluation = one (rule, construct) obligation found "
                    "in the parsed source; distinct = distinct (rule, "
                    "instance) pairs; all are non-trivial (each names a real "
                    "construct of the current tree)",
            "rules": res.rules,
            "per_rule": per_rule,
            "samples": samples,
            "trusted_base": res.trusted,
            "units_analysed": res.units,
            "exhaustive": res.exhaustive,
            "checker_cmd": f"./check {prop} --tier {tier}",
            "known_findings_reported": [f.ident() for f in known_hits],
            "analysis_errors": res.errors,
            "notes": res.notes,
            **res.extra,
        },
        "assumptions": res.trusted,
        "wall_s": round(wall, 3),
        "violations": len(violations),
    }
    if not os.environ.get("VERIF_NO_EVIDENCE"):      # (seed evaluation runs)
        ev_dir = VERIF / "evidence"
        ev_dir.mkdir(exist_ok=True)
        (ev_dir / f"{prop}.json").write_text(json.dumps(evidence, indent=1))

    if not quiet:
        print(f"== {prop} [{tier}] {n_ok}/{n_obl} obligations discharged, "
              f"{distinct} distinct, {len(res.rules)} rules, "
              f"{wall:.2f}s")
        for r, d in sorted(per_rule.items()):
            print(f"   {r:<22} {d['discharged']}/{d['obligations']}")
        for n in res.notes:
            print(f"   note: {n}")
    for f in known_hits:
        print(f"KNOWN-FINDING: property={prop} {f.rule} {f.key} -- {f.msg}")
    for e in res.errors:
        print(f"ANALYSIS-ERROR property={prop} {e}")
    for f, rp in violations:
        print(f"  {f.where}: [{f.rule}] {f.msg}")
        if f.path:
            print("      via " + " -> ".join(f.path))
        print(f"VIOLATION property={prop} replay={rp}")
    if violations:
        return 1
    if res.errors:
        return 2
    return 0
