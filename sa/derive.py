"""Enumeration of the derivation operations of the graph classes and their
abstract execution (shared by C06, C09, C10, C11, C17)."""
from __future__ import annotations

from .absint import (IMM, INF, ClassRef, Const, Cont, In, Interp, Obj, Shared,
                     Unknown, Value, depth)
from .core import GRAPH_CLASSES, SHORT, AnalysisError, Program

STEREO = ("StereoMolGraph", "StereoCondensedReactionGraph")
REACTION = ("CondensedReactionGraph", "StereoCondensedReactionGraph")


def operations(prog: Program):
    """(op label, receiver class, callable(interp) -> Value)"""
    ops = []
    for K in GRAPH_CLASSES:
        ops.append(("copy", K, None,
                    lambda I, K=K: I.call_method(K, "copy", I.input(K, "self"))))
        for G in GRAPH_CLASSES:
            ops.append(("__init__(graph)", K, G,
                        lambda I, K=K, G=G: construct(I, K, [I.input(G, "src")])))
        ops.append(("relabel_atoms(copy=True)", K, None,
                    lambda I, K=K: I.call_method(
                        K, "relabel_atoms", I.input(K, "self"),
                        [IMM, Const(True)])))
        ops.append(("subgraph", K, None,
                    lambda I, K=K: I.call_method(
                        K, "subgraph", I.input(K, "self"), [IMM])))
        for G in GRAPH_CLASSES:
            ops.append(("compose", K, G,
                        lambda I, K=K, G=G: I.call_method(
                            K, "compose", ClassRef(K),
                            [I.input_iter(G, "mol_graphs")])))
        ops.append(("json_deserialize", K, None,
                    lambda I, K=K: json_deser(I, K)))
        ops.append(("from_rdmol", K, None,
                    lambda I, K=K: I.call_method(
                        K, "from_rdmol", ClassRef(K), [IMM])))
    for K in STEREO:
        ops.append(("enantiomer", K, None,
                    lambda I, K=K: I.call_method(K, "enantiomer",
                                                 I.input(K, "self"))))
    for K in REACTION:
        for m in ("reverse_reaction", "reactant", "product", "_ts"):
            ops.append((m, K, None,
                        lambda I, K=K, m=m: I.call_method(
                            K, m, I.input(K, "self"))))
        G = "StereoMolGraph" if K in STEREO else "MolGraph"
        ops.append(("from_graphs", K, G,
                    lambda I, K=K, G=G: I.call_method(
                        K, "from_graphs", ClassRef(K),
                        [I.input(G, "reactant_graph"),
                         I.input(G, "product_graph"),
                         I.input(G, "ts_graph")])))
    return ops


def construct(I: Interp, cls: str, args) -> Value:
    obj = Obj(cls)
    init = I.prog.resolve_method(cls, "__init__")
    if init is None:
        raise AnalysisError(f"{cls}.__init__ does not resolve")
    I.exec_func(init, cls, obj, args, {})
    return obj


def json_deser(I: Interp, K: str) -> Value:
    ci = I.prog.cls("JSONHandler")
    fi = ci.methods.get("json_deserialize")
    if fi is None:
        raise AnalysisError("JSONHandler.json_deserialize vanished")
    I.choice = K
    return I.exec_func(fi, "JSONHandler", ClassRef("JSONHandler"), [IMM], {})


def describe(v: Value) -> str:
    if isinstance(v, Cont):
        lv = []
        x: Value = v
        while isinstance(x, Cont):
            lv.append("fresh" if x.fresh else "shared")
            x = x.inner
        lv.append(repr(x))
        return " / ".join(lv)
    return repr(v)


def weakest_site(v: Value) -> str:
    """Site that made the value weakest (the deepest container whose inner is
    not fresh)."""
    site = ""
    x: Value = v
    while isinstance(x, Cont):
        if x.why:
            site = x.why
        if not isinstance(x.inner, Cont):
            break
        x = x.inner
    return site




def required_inner_class(prog: Program, cls: str, slot: str) -> str | None:
    """For a slot annotated dict[K, ChangeDict[...]] the class the contained
    containers must have (None when they are plain builtins / immutable)."""
    import ast as _ast
    ann = prog.slot_annotation(cls, slot)
    if isinstance(ann, _ast.Subscript) and isinstance(ann.slice, _ast.Tuple) \
            and len(ann.slice.elts) == 2:
        v = ann.slice.elts[1]
        if isinstance(v, _ast.Subscript):
            v = v.value
        if isinstance(v, _ast.Name) and v.id in prog.classes:
            return v.id
    return None


def check_container_kinds(prog: Program, res, only=None) -> None:
    """I5: containers stored inside a slot have the class the slot's
    annotation names (e.g. ChangeDict, whose __missing__ the readers rely
    on), for every derivation operation and every mutator."""
    from .absint import Cont
    res.rule("R-CONTAINER-KIND", "a container stored inside a slot has the "
             "class the slot annotation names (ChangeDict for the change "
             "dictionaries: reactant()/product()/hash index it with every "
             "Change member and rely on ChangeDict.__missing__)")
    n = 0
    for label, K, G, thunk in operations(prog):
        if only is not None and not only(label):
            continue
        I = Interp(prog)
        out = thunk(I)
        tag = f"{SHORT[K]}.{label}" + (f"[arg {SHORT[G]}]" if G else "")
        targets = []
        if isinstance(out, Obj):
            for s, v in out.slots.items():
                targets.append((out.cls, s, v, out.why.get(s, "")))
        for ev in I.events:
            if ev.kind == "rebind" and ev.vkinds:
                cls = I.labels.get(ev.owner, K)
                targets.append((cls, ev.slot, ev, ev.stmt))
        for cls, s, v, why in targets:
            try:
                need = required_inner_class(prog, cls, s)
            except AnalysisError:
                need = None
            if need is None:
                continue
            kinds = set(v.kinds) if isinstance(v, Cont) else set(
                getattr(v, "vkinds", ()))
            n += 1
            inst = f"{tag} -> {s} holds {need}"
            badk = {k for k in kinds if k not in (need, "<src>", "<elem>")}
            if "<unknown>" in badk:
                site = getattr(v, "why", "") or why
                res.unrecognised("R-CONTAINER-KIND", inst, "",
                                 f"the containers stored in {s} come from a "
                                 f"call the interpreter cannot follow "
                                 f"(`{site}`)")
            elif badk:
                site = getattr(v, "why", "") or why
                res.bad("R-CONTAINER-KIND", f"{site} => {s} {sorted(badk)}",
                        "", f"{inst}: the result stores {sorted(badk)} "
                        f"containers in {s} (built at `{site}`); lookups of "
                        "an absent role then raise KeyError", instance=inst)
            else:
                res.ok("R-CONTAINER-KIND", inst, "")
    res.need("R-CONTAINER-KIND", n, 4, "slot obligations")
