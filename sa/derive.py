"""Enumeration of the derivation operations of the graph classes and their
abstract execution (shared by C06, C09, C10, C11, C17)."""
from __future__ import annotations

from .absint import (IMM, INF, ClassRef, Const, Cont, In, Interp, Obj, Shared,
                     Unknown, Value, depth)
from .core import GRAPH_CLASSES, SHORT, AnalysisError, Program

STEREO = ("StereoMolGraph", "StereoCondensedReactionGraph")
REACTION = ("CondensedReactionGraph", "StereoCondensedReactionGraph")


def operations(prog: Program):
    """(op label, receiver class, callable(interp) -> Value)"""
    ops = []
    for K in GRAPH_CLASSES:
        ops.append(("copy", K, None,
                    lambda I, K=K: I.call_method(K, "copy", I.input(K, "self"))))
        for G in GRAPH_CLASSES:
            ops.append(("__init__(graph)", K, G,
                        lambda I, K=K, G=G: construct(I, K, [I.input(G, "src")])))
        ops.append(("relabel_atoms(copy=True)", K, None,
                    lambda I, K=K: I.call_method(
                        K, "relabel_atoms", I.input(K, "self"),
                        [IMM, Const(True)])))
        ops.append(("subgraph", K, None,
                    lambda I, K=K: I.call_method(
                        K, "subgraph", I.input(K, "self"), [IMM])))
        for G in GRAPH_CLASSES:
            ops.append(("compose", K, G,
                        lambda I, K=K, G=G: I.call_method(
                            K, "compose", ClassRef(K),
                            [I.input_iter(G, "mol_graphs")])))
        ops.append(("json_deserialize", K, None,
                    lambda I, K=K: json_deser(I, K)))
        ops.append(("from_rdmol", K, None,
                    lambda I, K=K: I.call_method(
                        K, "from_rdmol", ClassRef(K), [IMM])))
    for K in STEREO:
        ops.append(("enantiomer", K, None,
                    lambda I, K=K: I.call_method(K, "enantiomer",
                                                 I.input(K, "self"))))
    for K in REACTION:
        for m in ("reverse_reaction", "reactant", "product", "_ts"):
            ops.append((m, K, None,
                        lambda I, K=K, m=m: I.call_method(
                            K, m, I.input(K, "self"))))
        G = "StereoMolGraph" if K in STEREO else "MolGraph"
        ops.append(("from_graphs", K, G,
                    lambda I, K=K, G=G: I.call_method(
                        K, "from_graphs", ClassRef(K),
                        [I.input(G, "reactant_graph"),
                         I.input(G, "product_graph"),
                         I.input(G, "ts_graph")])))
    return ops


def construct(I: Interp, cls: str, args) -> Value:
    obj = Obj(cls)
    init = I.prog.resolve_method(cls, "__init__")
    if init is None:
        raise AnalysisError(f"{cls}.__init__ does not resolve")
    I.exec_func(init, cls, obj, args, {})
    return obj


def json_deser(I: Interp, K: str) -> Value:
    ci = I.prog.cls("JSONHandler")
    fi = ci.methods.get("json_deserialize")
    if fi is None:
        raise AnalysisError("JSONHandler.json_deserialize vanished")
    I.choice = K
    return I.exec_func(fi, "JSONHandler", ClassRef("JSONHandler"), [IMM], {})


def describe(v: Value) -> str:
    if isinstance(v, Cont):
        lv = []
        x: Value = v
        while isinstance(x, Cont):
            lv.append("fresh" if x.fresh else "shared")
            x = x.inner
        lv.append(repr(x))
        return " / ".join(lv)
    return repr(v)


def weakest_site(v: Value) -> str:
    """Site that made the value weakest (the deepest container whose inner is
    not fresh)."""
    site = ""
    x: Value = v
    while isinstance(x, Cont):
        if x.why:
            site = x.why
        if not isinstance(x.inner, Cont):
            break
        x = x.inner
    return site


