"""C05 -- isomorphism enumeration is exact."""
from __future__ import annotations

from .. import iso
from ..core import Program
from ..report import Result

LEVEL_TEXT = (
    "static path and kind analysis of the explicit-stack search: paired "
    "updates of mapping / inverted_mapping and exactly-one-of "
    "{undo, yield+undo, descend} on every loop path; fresh yields; fresh and "
    "sound candidate sets; side-kind correctness and mirrored handling of "
    "the two graphs; placeholder-aware stereo predicates; label maps of the "
    "right type at every call site. Exactness of the enumeration (no "
    "missing / duplicate mapping) as an algorithmic fact is not decided.")


def run(prog: Program, res: Result, tier: str) -> None:
    res.trusted += ["event vocabulary of the search loop (sa/iso.py)"]
    iso.check_main_loop(prog, res)
    iso.check_candidates(prog, res)
    iso.check_side(prog, res)
    iso.check_mirror(prog, res)
    iso.check_feasibility(prog, res)
    iso.check_both_sides(prog, res)
    iso.check_state_shape(prog, res)
    iso.check_revert(prog, res)
    iso.check_stereo_index(prog, res)
    iso.check_prechecks(prog, res)
    iso.check_label_type(prog, res)
    iso.check_symmetry_number(prog, res)
