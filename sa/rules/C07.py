"""C07 -- perception from coordinates depends only on the 3D shape."""
from __future__ import annotations

import ast
import re
from ..core import utext

from ..core import AnalysisError, Program, call_name, norm, parent
from ..geo import B, I, K, N, PS, S, Geo
from ..report import Result

LEVEL_TEXT = (
    "static geometric-kind analysis (abstract interpretation over point / "
    "vector / pseudo-vector / scalar / pseudo-scalar kinds) of the numpy "
    "code in coords.py and of the five perception functions: coordinates are "
    "used only through differences of rows, vectors only through cross / dot "
    "/ norm idioms, every decision is a scalar (invariant under all "
    "isometries) and every chiral parity a pseudo-scalar (negated exactly by "
    "reflections); descriptors are built from atom identifiers, not "
    "positions; the planarity test must be symmetric in its points. In exact "
    "arithmetic and off the thresholds this gives translation / rotation "
    "invariance and reflection = enantiomer for an unchanged atom order; "
    "invariance under reordering of the input atoms, thresholds and the "
    "axial / trans-pair heuristics are not decided.")

COORDS = "coords"
XYZ = "xyz2graph"


def analyse(prog, mod, name, env, summ):
    fi = prog.fn(f"{mod}:{name}")
    return fi, Geo(prog, fi, env, summ).run()


def run(prog: Program, res: Result, tier: str) -> None:
    res.rule("R-GEO", "coordinates enter only through differences of rows; "
             "vectors only through cross / dot / norm; every decision (if "
             "test, boolean result, argmax) has kind Scalar; the parity of a "
             "chiral descriptor has kind PseudoScalar, achiral descriptors "
             "get the literal 0; nothing on a decision path is frame "
             "dependent (Tainted)")
    res.rule("R-SET-ORDER", "the order of the entries of a descriptor's atom "
             "tuple never comes from iterating a set (set / frozenset / set "
             "algebra): that order follows hash values, not the order the "
             "geometry was measured in")
    res.rule("R-POS-ID", "each _*_from_coords(atoms, coords) hands the "
             "descriptor constructor atom identifiers (elements of `atoms`), "
             "never raw positions")
    res.rule("R-GEO-SYM", "the planarity decision is a symmetric function of "
             "its points: the off-plane role ranges over all four points of "
             "every 4-subset (a local that is rotated / mutated but never "
             "read means the symmetrisation is not connected to the "
             "computation)")
    P1 = K("P", 1)
    summ: dict[str, K] = {}
    # ---- coords.py primitives (result kinds become call summaries) -------
    table = [("are_planar", {"points": P1, "threshold": N}, "B"),
             ("are_planar_volume", {"coords": P1, "threshold": N}, "B"),
             ("handedness", {"coords": P1}, "PS"),
             ("angle_from_coords", {"coords": P1, "out": N}, "S"),
             ("pairwise_distances", {"coords": P1}, "S")]
    for name, env, want in table:
        fi, g = analyse(prog, COORDS, name, env, summ)
        rk = {k.k for _, k in g.returns}
        inst = f"coords.{name} returns {want}"
        bad_dec = [(n, k, w) for n, k, w in g.decisions
                   if k.k not in ("B", "N", "I", "S")]
        if g.taints:
            n0, why = g.taints[0]
            res.bad("R-GEO", f"coords.{name}: {norm(n0, 80)}", fi.loc(n0),
                    f"coords.{name}: `{norm(n0, 80)}` is frame dependent "
                    f"({why}): the result changes under rigid motion",
                    instance=inst)
        elif bad_dec:
            n0, k, w = bad_dec[0]
            res.bad("R-GEO", f"coords.{name}: decision {norm(n0, 60)}",
                    fi.loc(n0), f"coords.{name}: the {w} test "
                    f"`{norm(n0, 80)}` has kind {k}, not Scalar",
                    instance=inst)
        elif rk - {want, "N"} or (want not in rk and not (
                want == "B" and rk == {"N"} and any(
                    k.k == "B" for _, k, _ in g.decisions))):
            res.bad("R-GEO", f"coords.{name}: result kind {sorted(rk)}",
                    fi.loc(), f"{inst}: returns kind(s) {sorted(rk)}"
                    + (": a pseudo-scalar decision flips under reflection"
                       if "PS" in rk and want != "PS" else "")
                    + (": a scalar cannot distinguish mirror images"
                       if want == "PS" and "S" in rk else ""), instance=inst)
        else:
            res.ok("R-GEO", inst, fi.loc(),
                   f"{len(g.decisions)} decisions scalar")
        summ[name] = K(want)
    # ---- perception functions ------------------------------------------------
    ATOMS = K("I")
    percep = [("_tetrahedral_from_coords", "Tetrahedral", "PS"),
              ("_square_planar_from_coords", "SquarePlanar", "0"),
              ("_trigonal_bipyramidal_from_coords", "TrigonalBipyramidal", "PS"),
              ("_octahedral_from_coords", "Octahedral", "PS"),
              ("_planar_bond_from_coords", "PlanarBond", "0")]
    for name, cls, want in percep:
        fi, g = analyse(prog, XYZ, name, {"atoms": ATOMS, "coords": P1}, summ)
        inst = f"{name}: decisions scalar, parity {want}"
        ctor = [(c, ks) for c, ks in g.ctor_calls if call_name(c) == cls]
        if not ctor:
            raise AnalysisError(f"{name}: {cls}(...) call not found")
        problems = []
        for n0, why in g.taints:
            problems.append((n0, f"`{norm(n0, 80)}` is frame dependent ({why})"))
        for n0, k, w in g.decisions:
            if k.k not in ("B", "N", "I", "S"):
                problems.append((n0, f"the {w} test `{norm(n0, 80)}` has kind "
                                     f"{k} (not a scalar decision)"))
        for c, ks in ctor:
            kw = {x.arg: x.value for x in c.keywords}
            pe = c.args[1] if len(c.args) > 1 else kw.get("parity")
            if pe is None:
                problems.append((c, "no parity argument"))
                continue
            pk = g._ev(pe)
            if want == "0":
                if not (isinstance(pe, ast.Constant) and pe.value == 0):
                    problems.append((c, f"achiral descriptor gets parity "
                                        f"`{norm(pe)}` instead of the literal 0"))
            elif pk.k != "PS":
                problems.append((c, f"parity `{norm(pe)}` has kind {pk}, not "
                                    "PseudoScalar: reflection does not "
                                    "negate it / it depends on the frame"))
        if problems:
            n0, msg = problems[0]
            res.bad("R-GEO", f"{name}: {msg[:90]}", fi.loc(n0),
                    f"{name}: {msg}", instance=inst)
        else:
            res.ok("R-GEO", inst, fi.loc(),
                   f"{len(g.decisions)} decisions, {len(ctor)} constructor(s)")
        # R-POS-ID -----------------------------------------------------------
        for c, _ in ctor:
            kw = {x.arg: x.value for x in c.keywords}
            ae = c.args[0] if c.args else kw.get("atoms")
            so = set_ordered(fi, ae)
            inst3 = f"{name}: order of the {cls} atoms is a measured order"
            if so is None:
                res.ok("R-SET-ORDER", inst3, fi.loc(c))
            else:
                res.bad("R-SET-ORDER", f"{name}: order from `{so}`",
                        fi.loc(c), f"{name}: the atom tuple takes the order "
                        f"of its entries from iterating the set `{so}`; the "
                        "iteration order of a set follows the hash values of "
                        "the identifiers, not the positions the handedness / "
                        "angles were measured in, so the descriptor depends "
                        "on how the atoms are numbered", instance=inst3)
            inst2 = f"{name}: {cls} atoms `{norm(ae, 60)}` are identifiers"
            ok, why = atoms_are_ids(fi, ae)
            if ok:
                res.ok("R-POS-ID", inst2, fi.loc(c))
            elif ok is None:
                res.unrecognised("R-POS-ID", inst2, fi.loc(c),
                                 f"provenance of `{why}` not followed")
            else:
                res.bad("R-POS-ID", f"{name}: {norm(ae, 70)}", fi.loc(c),
                        f"{name}: the descriptor is built from `{why}`, a "
                        "position in the neighbour tuple, not the atom "
                        "identifier atoms[position]: wrong for any "
                        "identifiers other than 0..n", instance=inst2)
    # dispatcher: decisions of atom_stereo_from_coords; the perception
    # functions analysed above return descriptor objects (not geometry)
    for name, _cls, _want in percep:
        summ.setdefault(name, K("N"))
    fi, g = analyse(prog, XYZ, "atom_stereo_from_coords",
                    {"atoms": ATOMS, "coords": P1}, summ)
    inst = "atom_stereo_from_coords: dispatch on counts and planarity only"
    bad = [(n0, k) for n0, k, _ in g.decisions if k.k not in ("B", "N", "I")]
    if bad or g.taints:
        n0 = (bad[0][0] if bad else g.taints[0][0])
        res.bad("R-GEO", f"atom_stereo_from_coords: {norm(n0, 70)}",
                fi.loc(n0), f"{inst}: `{norm(n0, 80)}`", instance=inst)
    else:
        res.ok("R-GEO", inst, fi.loc())
    check_symmetry(prog, res)
    check_planar_equivariance(prog, res)
    check_stero_from_geometry(prog, res)
    check_ring_orders(prog, res)
    check_stateless(prog, res)
    res.trusted += ["transfer functions of sa/geo.py for the numpy idioms "
                    "used (row re-indexing, differences, cross, dot / einsum "
                    "/ sum of products over the last axis, norm, abs, sign)",
                    "exact real arithmetic, geometries off the thresholds"]


def set_ordered(fi, ae: ast.AST):
    """Text of a set-valued expression whose iteration order ends up in the
    (ordered) atom tuple ae, or None."""
    from ..core import reaching_defs

    def is_set(e, depth=0):
        if depth > 12:
            return False
        if isinstance(e, (ast.Set, ast.SetComp)):
            return True
        if isinstance(e, ast.Call) and call_name(e) in ("set", "frozenset"):
            return True
        if isinstance(e, ast.BinOp) and isinstance(
                e.op, (ast.Sub, ast.BitAnd, ast.BitOr, ast.BitXor)):
            return is_set(e.left, depth + 1) or is_set(e.right, depth + 1)
        if isinstance(e, ast.Call) and isinstance(
                e.func, ast.Attribute) and e.func.attr in (
                "difference", "union", "intersection",
                "symmetric_difference") and is_set(e.func.value, depth + 1):
            return True
        if isinstance(e, ast.Name):
            defs = reaching_defs(fi.node, e)
            return bool(defs) and all(kind == "assign" and is_set(v, depth + 1)
                                      for v, kind in defs)
        return False

    def walk(e, depth=0):
        if depth > 20 or e is None:
            return None
        if isinstance(e, ast.Starred):
            if is_set(e.value):
                return norm(e.value, 60)
            return walk(e.value, depth + 1)
        if isinstance(e, (ast.Tuple, ast.List)):
            for x in e.elts:
                r = walk(x, depth + 1)
                if r:
                    return r
            return None
        if isinstance(e, ast.Call) and call_name(e) in ("tuple", "list") \
                and e.args:
            if is_set(e.args[0]):
                return norm(e.args[0], 60)
            return walk(e.args[0], depth + 1)
        if isinstance(e, (ast.ListComp, ast.GeneratorExp)):
            for g in e.generators:
                if is_set(g.iter):
                    return norm(g.iter, 60)
            return None
        if isinstance(e, ast.BinOp) and isinstance(e.op, ast.Add):
            return walk(e.left, depth + 1) or walk(e.right, depth + 1)
        if isinstance(e, ast.IfExp):
            return walk(e.body, depth + 1) or walk(e.orelse, depth + 1)
        if isinstance(e, ast.Name):
            for v, kind in reaching_defs(fi.node, e):
                if kind == "assign":
                    r = walk(v, depth + 1)
                    if r:
                        return r
        return None
    return walk(ae)


def atoms_are_ids(fi, ae: ast.AST):
    """The atom tuple consists of atoms[...] elements (or `atoms` itself /
    re-indexings of it)."""
    from ..core import reaching_defs

    def ok(e, depth=0):
        if depth > 30:
            return False, norm(e)
        if isinstance(e, ast.Name):
            if e.id == "atoms":
                # the parameter or a rebinding of it
                defs = reaching_defs(fi.node, e)
                if not defs:
                    return True, ""
                for v, kind in defs:
                    r = ok(v, depth + 1)
                    if not r[0]:
                        return r
                return True, ""
            defs = reaching_defs(fi.node, e)
            if not defs:
                return False, e.id
            for v, kind in defs:
                if kind == "iter":
                    return False, f"{e.id} (element of {norm(v, 40)})"
                if kind == "unpack":
                    return False, f"{e.id} (unpacked from {norm(v, 40)})"
                r = ok(v, depth + 1)
                if not r[0]:
                    return r
            return True, ""
        if isinstance(e, ast.Subscript):
            if norm(e.value) in ("atoms",):
                return True, ""
            return ok(e.value, depth + 1)
        if isinstance(e, (ast.Tuple, ast.List)):
            for x in e.elts:
                r = ok(x.value if isinstance(x, ast.Starred) else x, depth + 1)
                if not r[0]:
                    return r
            return True, ""
        if isinstance(e, (ast.GeneratorExp, ast.ListComp)):
            return ok(e.elt, depth + 1)
        if isinstance(e, ast.Call) and call_name(e) in ("tuple", "list") \
                and e.args:
            return ok(e.args[0], depth + 1)
        if isinstance(e, ast.Call) and call_name(e) in ("max", "min") \
                and e.args and not any(isinstance(a, ast.Starred)
                                       for a in e.args):
            # selects one of the candidates: every candidate must qualify
            if len(e.args) == 1:
                return ok(e.args[0], depth + 1)
            for a in e.args:
                r = ok(a, depth + 1)
                if not r[0]:
                    return r
            return True, ""
        if isinstance(e, ast.Constant) and e.value is None:
            return True, ""
        if isinstance(e, ast.IfExp):
            for x in (e.body, e.orelse):
                r = ok(x, depth + 1)
                if not r[0]:
                    return r
            return True, ""
        if isinstance(e, ast.BinOp) and isinstance(e.op, ast.Add):
            for x in (e.left, e.right):
                r = ok(x, depth + 1)
                if not r[0]:
                    return r
            return True, ""
        if isinstance(e, ast.Constant) and isinstance(e.value, int):
            return False, norm(e, 50)
        return None, norm(e, 50)
    return ok(ae)


def check_symmetry(prog: Program, res: Result) -> None:
    fi = prog.fn(f"{COORDS}:are_planar")
    # locals that are mutated by a method call but never read
    reads: dict[str, int] = {}
    muts: dict[str, ast.AST] = {}
    for node in ast.walk(fi.node):
        if isinstance(node, ast.Name) and isinstance(node.ctx, ast.Load):
            par = parent(node)
            is_mut = isinstance(par, ast.Attribute) and par.attr in (
                "rotate", "append", "appendleft", "reverse", "sort") and \
                isinstance(parent(par), ast.Call)
            if is_mut:
                muts[node.id] = node
            else:
                reads[node.id] = reads.get(node.id, 0) + 1
    dead = [n for n in muts if reads.get(n, 0) == 0]
    inst = "are_planar: every 4-subset is examined with each point off-plane"
    if dead:
        n0 = muts[dead[0]]
        res.bad("R-GEO-SYM", "are_planar: rotated work queue is never read",
                fi.loc(n0), f"are_planar: the local `{dead[0]}` is rotated "
                "but never read, so only the LAST point of each 4-subset is "
                "ever tested against the plane of the first three: the "
                "answer depends on the order of the points", instance=inst)
        return
    # symmetric forms: the rotation feeds the points used, or a volume form
    t = utext(fi.node)
    if (re.search(r"p1, p2, p3, p4 = \w+\b", t) or "are_planar_volume(" in t
            or "itertools.permutations(" in t or "permutations(" in t):
        res.ok("R-GEO-SYM", inst, fi.loc())
    else:
        res.error("R-GEO-SYM: symmetrisation idiom of are_planar not "
                  "recognised")


def check_planar_equivariance(prog: Program, res: Result) -> None:
    """Swapping the two substituents of one end must flip the sign of the
    orientation test (the perceived PlanarBond then re-orders accordingly):
    the test vectors must be the differences of the two substituents of the
    same end."""
    res.rule("R-EQUIVARIANT", "the cis/trans test of _planar_bond_from_coords "
             "is sign(dot(c0 - c1, c4 - c5)): each vector is antisymmetric in "
             "the two substituents of one end, so renumbering the atoms "
             "changes the descriptor only by a symmetry-equivalent ordering")
    fi = prog.fn(f"{XYZ}:_planar_bond_from_coords")
    from ..core import DefUse
    du = DefUse(fi.node)
    dots = [n for n in ast.walk(fi.node) if isinstance(n, ast.Call)
            and call_name(n) in ("np.dot", "np.vdot", "np.inner")
            and len(n.args) == 2]
    inst = "_planar_bond_from_coords: orientation vectors pair the substituents of each end"
    if not dots:
        res.unrecognised("R-EQUIVARIANT", inst, fi.loc(), "no dot product")
        return
    pairs = []
    for a in dots[0].args:
        idx = set()
        for d in du.dep_nodes(a):
            for n in ast.walk(d):
                if isinstance(n, ast.BinOp) and isinstance(n.op, ast.Sub):
                    for side in (n.left, n.right):
                        if isinstance(side, ast.Subscript) and norm(
                                side.value) == "coords" and isinstance(
                                side.slice, ast.Constant):
                            idx.add(side.slice.value)
        pairs.append(frozenset(idx))
    want = {frozenset({0, 1}), frozenset({4, 5})}
    if set(pairs) == want:
        res.ok("R-EQUIVARIANT", inst, fi.loc(dots[0]))
    elif all(len(p) >= 2 for p in pairs):
        res.bad("R-EQUIVARIANT", f"_planar_bond_from_coords vectors "
                f"{sorted(map(sorted, pairs))}", fi.loc(dots[0]),
                f"{inst}: the vectors are built from positions "
                f"{sorted(map(sorted, pairs))} instead of (0,1) and (4,5); "
                "swapping the two substituents of one end no longer just "
                "flips the sign, so the perceived descriptor depends on the "
                "numbering of the atoms (strained rings)", instance=inst)
    else:
        res.unrecognised("R-EQUIVARIANT", inst, fi.loc(dots[0]),
                         f"vector index sets {pairs}")


def check_ring_orders(prog: Program, res: Result) -> None:
    res.rule("T-RING-ORDERS", "the candidate ring orders tried by "
             "_square_planar_from_coords contain every one of the three ways "
             "to pair four ligands into trans pairs ({1,3|2,4}, {1,2|3,4}, "
             "{1,4|2,3}); otherwise the true arrangement is never tried for "
             "some numberings of the neighbours and cis / trans swap")
    fi = prog.fn(f"{XYZ}:_square_planar_from_coords")
    tables = []
    for n in ast.walk(fi.node):
        if isinstance(n, (ast.Tuple, ast.List)) and len(n.elts) >= 2 and all(
                isinstance(e, (ast.Tuple, ast.List)) and len(e.elts) == 4
                for e in n.elts):
            try:
                rows = [tuple(ast.literal_eval(e)) for e in n.elts]
            except Exception:
                continue
            if all(sorted(r) == [1, 2, 3, 4] for r in rows):
                tables.append((n, rows))
    # the table may live at module level (wrapped in np.array / tuple ..)
    if not tables:
        used = {x.id for x in ast.walk(fi.node) if isinstance(x, ast.Name)}
        for st in fi.module.tree.body:
            tgt = val = None
            if isinstance(st, ast.Assign) and len(st.targets) == 1 and \
                    isinstance(st.targets[0], ast.Name):
                tgt, val = st.targets[0].id, st.value
            elif isinstance(st, ast.AnnAssign) and isinstance(
                    st.target, ast.Name) and st.value is not None:
                tgt, val = st.target.id, st.value
            if tgt not in used or val is None:
                continue
            while isinstance(val, ast.Call) and len(val.args) >= 1 and (
                    call_name(val) or "").split(".")[-1] in (
                    "array", "asarray", "tuple", "list", "frozenset"):
                val = val.args[0]
            if isinstance(val, (ast.Tuple, ast.List)) and len(
                    val.elts) >= 2 and all(
                    isinstance(e, (ast.Tuple, ast.List)) and len(e.elts) == 4
                    for e in val.elts):
                try:
                    rows = [tuple(ast.literal_eval(e)) for e in val.elts]
                except Exception:
                    continue
                if all(sorted(r) == [1, 2, 3, 4] for r in rows):
                    tables.append((st, rows))
    inst = "_square_planar_from_coords: ring orders cover the 3 trans pairings"
    if len(tables) != 1:
        res.unrecognised("T-RING-ORDERS", inst, fi.loc(),
                         f"{len(tables)} literal tables of ring orders over "
                         "the neighbour positions 1..4")
        return
    node, rows = tables[0]
    # ring order (a, b, c, d): a-c and b-d are trans
    pairings = {frozenset((frozenset((r[0], r[2])), frozenset((r[1], r[3]))))
                for r in rows}
    want = {frozenset((frozenset((1, 3)), frozenset((2, 4)))),
            frozenset((frozenset((1, 2)), frozenset((3, 4)))),
            frozenset((frozenset((1, 4)), frozenset((2, 3))))}
    if pairings == want:
        res.ok("T-RING-ORDERS", inst, fi.loc(node), f"{len(rows)} orders")
    else:
        missing = [sorted(sorted(p) for p in m) for m in want - pairings]
        res.bad("T-RING-ORDERS", f"ring orders {rows}", fi.loc(node),
                f"{inst}: the table {rows} never tries the trans pairing(s) "
                f"{missing}: a square-planar centre whose neighbours are "
                "numbered that way is perceived as the wrong isomer",
                instance=inst)


def check_stateless(prog: Program, res: Result) -> None:
    res.rule("R-PERCEPTION-STATELESS", "perception keeps nothing between "
             "calls: no function of xyz2graph.py / coords.py stores an "
             "attribute on one of its arguments (a Geometry is mutable: a "
             "cached connectivity would survive a change of its coordinates) "
             "and none is memoised")
    n = 0
    for fi in prog.functions.values():
        if fi.module.name not in (XYZ, COORDS):
            continue
        n += 1
        params = set(fi.params())
        me = fi.params()[0] if fi.cls is not None and fi.params() and \
            not fi.is_staticmethod() else None
        stores = []
        for x in ast.walk(fi.node):
            if isinstance(x, ast.Attribute) and isinstance(
                    x.ctx, (ast.Store, ast.Del)) and isinstance(
                    x.value, ast.Name) and x.value.id in params and \
                    x.value.id != me:
                stores.append(x)
            elif isinstance(x, ast.Call) and call_name(x) in (
                    "setattr", "object.__setattr__") and x.args and norm(
                    x.args[0]) in params - {me}:
                stores.append(x)
        cached = [d for d in fi.node.decorator_list if re.search(
            r"cache|lru", norm(d))]
        inst = f"{fi.short} keeps no state on its arguments"
        if stores or cached:
            site = (stores or cached)[0]
            res.bad("R-PERCEPTION-STATELESS", f"{fi.short}: {norm(site, 60)}",
                    fi.loc(site), f"{inst}: `{norm(site, 80)}` "
                    + ("memoises the function" if cached and not stores else
                       "stores on an argument") + "; the next call may "
                    "answer from stale data although the coordinates changed",
                    instance=inst)
        else:
            res.ok("R-PERCEPTION-STATELESS", inst, fi.loc())
    res.need("R-PERCEPTION-STATELESS", n, 15, "functions of xyz2graph / "
             "coords")


def check_stero_from_geometry(prog: Program, res: Result) -> None:
    """The neighbour tuples handed to the perception functions carry real
    identifiers and the coordinates of exactly those atoms."""
    fi = prog.fn(f"{XYZ}:stero_from_geometry")
    t = utext(fi.node)
    # the coordinates handed to a perception function are those of exactly
    # the atoms handed to it, in the same order
    n = 0
    for c in ast.walk(fi.node):
        if isinstance(c, ast.Call) and call_name(c) in (
                "atom_stereo_from_coords", "_planar_bond_from_coords"):
            b_ = prog.bound_args(c)
            if b_ is not None and {"atoms", "coords"} <= set(b_):
                ids, co = b_["atoms"], b_["coords"]
            elif len(c.args) == 2:
                ids, co = c.args
            else:
                continue
            n += 1
            inst = f"stero_from_geometry: {call_name(c)}: coordinates of exactly the atoms passed"
            m = None
            if isinstance(co, ast.Call) and isinstance(co.func, ast.Attribute) \
                    and co.func.attr == "take" and co.args:
                m = norm(co.args[0])
            elif isinstance(co, ast.Subscript):
                m = norm(co.slice)
            if m is None:
                res.unrecognised("R-POS-ID", inst, fi.loc(c),
                                 f"coordinate selection `{norm(co, 60)}`")
            elif m in (norm(ids), f"list({norm(ids)})", f"[*{norm(ids)}]"):
                res.ok("R-POS-ID", inst, fi.loc(c))
            else:
                res.bad("R-POS-ID", f"stero_from_geometry: {norm(c, 80)}",
                        fi.loc(c), f"{inst}: atoms `{norm(ids)}` but "
                        f"coordinates of `{m}`", instance=inst)
    if n < 2:
        res.unrecognised("R-POS-ID", "stero_from_geometry perception calls",
                         fi.loc(), f"{n} calls found")
    from ..pe import resolve
    atom_ok = planar_ok = False
    for c in ast.walk(fi.node):
        if not (isinstance(c, ast.Call) and call_name(c) in (
                "atom_stereo_from_coords", "_planar_bond_from_coords")):
            continue
        b_ = prog.bound_args(c)
        ids = b_.get("atoms") if b_ else (c.args[0] if c.args else None)
        if ids is None:
            continue
        full = re.sub(r"\s", "", norm(resolve(ids, fi.node), 400))
        if call_name(c) == "atom_stereo_from_coords" and re.fullmatch(
                r"\((\w+),\*(\w+)\.bonded_to\(\1\)\)", full):
            atom_ok = True
        if call_name(c) == "_planar_bond_from_coords" and re.fullmatch(
                r"\(\*(\w+)\.bonded_to\((\w+)\)\.difference\(\{(\w+)\}\),"
                r"\2,\3,\*\1\.bonded_to\(\3\)\.difference\(\{\2\}\)\)",
                full):
            planar_ok = True
    for what, ok in (
            ("atom tuple = (atom, *bonded neighbours)", atom_ok),
            ("planar-bond tuple = (nbrs of atom, atom, nbr, nbrs of nbr)",
             planar_ok)):
        inst = f"stero_from_geometry: {what}"
        if ok:
            res.ok("R-POS-ID", inst, fi.loc())
        else:
            res.unrecognised("R-POS-ID", inst, fi.loc(), "construction of "
                             "the neighbour tuple not recognised")
