"""C15 -- JSON serialisation round-trips every graph losslessly.

Writer/reader schema agreement, entirely structural.
"""
from __future__ import annotations

import ast
from ..core import utext
import re

from ..core import (DESCRIPTOR_CLASSES, GRAPH_CLASSES, AnalysisError, DefUse,
                    Program, ancestors, call_name, const, norm)
from ..report import Result

LEVEL_TEXT = (
    "static writer/reader agreement: the sections written by as_dict under "
    "each class guard are exactly those read by json_deserialize under the "
    "same guard; every member of Change has a bond section that is written "
    "from get_<role>_bonds and read through add_<role>_bond, and the plain "
    "bond section excludes all of them; class registries are complete and "
    "keyed by the class names the writer emits; the descriptor payload "
    "carries (class name, atoms, parity), atoms are restored None-"
    "preservingly and the parity unchanged. Equality and hash of the result "
    "follow from losslessness together with C01/C03.")

MOD = "experimental"


def guards_of(node: ast.AST, func: ast.AST) -> tuple[str, ...]:
    """Class names of the enclosing `if isinstance(graph, K)` guards."""
    out = []
    prev = node
    for a in ancestors(node):
        if a is func:
            break
        if isinstance(a, ast.If) and any(prev is b or _in(b, prev)
                                         for b in a.body):
            t = a.test
            if isinstance(t, ast.Call) and call_name(t) == "isinstance" and \
                    len(t.args) == 2:
                out.append(norm(t.args[1]))
        prev = a
    return tuple(sorted(out))


def _in(tree, node):
    return any(x is node for x in ast.walk(tree))


def _writer_roles(w) -> dict[str, str]:
    table: dict[str, str] = {}
    # the section dictionary: the local that receives `X["Section"] = ...`
    stores: dict[str, int] = {}
    for n in ast.walk(w.node):
        if isinstance(n, ast.Subscript) and isinstance(
                n.ctx, ast.Store) and isinstance(
                n.value, ast.Name) and isinstance(
                n.slice, ast.Constant) and isinstance(n.slice.value, str):
            stores[n.value.id] = stores.get(n.value.id, 0) + 1
    if stores:
        table[max(stores, key=stores.get)] = "data"
    for l in ast.walk(w.node):
        if not (isinstance(l, ast.For) and isinstance(l.target, ast.Tuple)
                and len(l.target.elts) == 2
                and all(isinstance(e, ast.Name) for e in l.target.elts)):
            continue
        it = norm(l.iter)
        k_, v_ = (e.id for e in l.target.elts)
        if re.fullmatch(r"graph\.(atom|bond)_stereo\.items\(\)", it):
            table[v_] = "stereo"
        elif re.fullmatch(r"graph\.(atom|bond)_stereo_changes\.items\(\)", it):
            table[v_] = "change_dict"
    for l in ast.walk(w.node):
        if isinstance(l, ast.For) and isinstance(l.target, ast.Tuple) and \
                len(l.target.elts) == 2 and all(
                isinstance(e, ast.Name) for e in l.target.elts) and \
                isinstance(l.iter, ast.Call) and isinstance(
                l.iter.func, ast.Attribute) and l.iter.func.attr == "items" \
                and isinstance(l.iter.func.value, ast.Name) and table.get(
                l.iter.func.value.id, l.iter.func.value.id) == "change_dict":
            table[l.target.elts[0].id] = "change"
            table[l.target.elts[1].id] = "stereo"
    return table


def _reader_roles(r) -> dict[str, str]:
    table: dict[str, str] = {}
    for n in ast.walk(r.node):
        if isinstance(n, ast.Assign) and len(n.targets) == 1 and isinstance(
                n.targets[0], ast.Tuple) and len(n.targets[0].elts) == 2 and \
                all(isinstance(e, ast.Name) for e in n.targets[0].elts) and \
                re.fullmatch(r"next\(iter\(json\.loads\(\w+\)\.items\(\)\)\)",
                             norm(n.value)):
            table[n.targets[0].elts[0].id] = "graph_type"
            table[n.targets[0].elts[1].id] = "graph_payload"
    recv = {}
    for c in ast.walk(r.node):
        if isinstance(c, ast.Call) and isinstance(c.func, ast.Attribute) and \
                c.func.attr == "add_atom" and isinstance(
                c.func.value, ast.Name):
            recv[c.func.value.id] = recv.get(c.func.value.id, 0) + 1
    if len(recv) == 1:
        table[next(iter(recv))] = "graph"
    return table


def _payload_roles(pl) -> dict[str, str]:
    table: dict[str, str] = {}
    params = pl.params()
    if params:
        table[params[-1]] = "payload"
    for n in ast.walk(pl.node):
        if isinstance(n, ast.Assign) and len(n.targets) == 1 and isinstance(
                n.targets[0], ast.Tuple) and len(n.targets[0].elts) == 2 and \
                isinstance(n.targets[0].elts[0], ast.Name) and isinstance(
                n.targets[0].elts[1], ast.Tuple) and len(
                n.targets[0].elts[1].elts) == 2 and all(
                isinstance(e, ast.Name)
                for e in n.targets[0].elts[1].elts) and re.fullmatch(
                r"next\(iter\(\w+\.items\(\)\)\)", norm(n.value)):
            table[n.targets[0].elts[0].id] = "class_name"
            table[n.targets[0].elts[1].elts[0].id] = "atoms"
            table[n.targets[0].elts[1].elts[1].id] = "parity"
    return table


def run(prog: Program, res: Result, tier: str) -> None:
    from .common import check_setter_once
    check_setter_once(prog, res, [prog.fn(
        "experimental:JSONHandler.json_deserialize")], "JSON reader")
    res.rule("J-SECTIONS", "for every class guard, the set of section keys "
             "written by as_dict equals the set read by json_deserialize")
    res.rule("J-ENUM", "every member of Change has a bond section written "
             "from get_<role>_bonds() and read through add_<role>_bond(); "
             "the plain bond section excludes every role section; the role "
             "names read for stereo changes are exactly the member names")
    res.rule("J-REGISTRY", "STEREO_CLASSES contains every concrete descriptor "
             "class under its own name; the graph-class registry contains "
             "the four graph classes under their own names")
    res.rule("J-PAYLOAD", "the descriptor payload is {class name: (atoms, "
             "parity)}; the reader restores atoms None-preservingly and "
             "passes parity through unchanged")
    res.rule("J-COVER", "as_dict reads every part of the state of each class "
             "(atoms+types, bonds, atom/bond stereo, atom/bond stereo "
             "changes) and json_deserialize restores each through the public "
             "mutators")
    ci = prog.cls("JSONHandler")
    w = ci.methods.get("as_dict")
    r = ci.methods.get("json_deserialize")
    pl = ci.methods.get("_stereo_from_payload")
    if not (w and r and pl):
        raise AnalysisError("JSONHandler.as_dict / json_deserialize / "
                            "_stereo_from_payload vanished")
    from ..core import FuncInfo, unroll_literal_loops
    r = FuncInfo(r.qual, r.module, unroll_literal_loops(r.node), r.cls)
    w = FuncInfo(w.qual, w.module, unroll_literal_loops(w.node), w.cls)
    # role based names: the text patterns below must not depend on what the
    # locals happen to be called
    from ..iso import rename_locals
    w = rename_locals(w, _writer_roles(w))
    r = rename_locals(r, _reader_roles(r))
    pl = rename_locals(pl, _payload_roles(pl))
    # -- sections -------------------------------------------------------------
    written: dict[tuple, set] = {}
    write_nodes = {}
    for node in ast.walk(w.node):
        if isinstance(node, ast.Assign) and isinstance(
                node.targets[0], ast.Subscript) and norm(
                node.targets[0].value) == "data" and isinstance(
                node.targets[0].slice, ast.Constant):
            g = tuple(x for x in guards_of(node, w.node))
            written.setdefault(g, set()).add(node.targets[0].slice.value)
            write_nodes[node.targets[0].slice.value] = node
        elif isinstance(node, ast.Dict) and isinstance(
                next(iter(ancestors(node)), None), (ast.AnnAssign, ast.Assign)):
            a = next(iter(ancestors(node)))
            tgt = a.target if isinstance(a, ast.AnnAssign) else a.targets[0]
            if norm(tgt) == "data":
                for k in node.keys:
                    if isinstance(k, ast.Constant):
                        written.setdefault((), set()).add(k.value)
                        write_nodes[k.value] = a
    read: dict[tuple, set] = {}
    read_nodes = {}
    for node in ast.walk(r.node):
        if isinstance(node, ast.Call) and norm(node.func) == "graph_payload.get" \
                and node.args and isinstance(node.args[0], ast.Constant):
            g = guards_of(node, r.node)
            read.setdefault(g, set()).add(node.args[0].value)
            read_nodes[node.args[0].value] = node
        elif isinstance(node, ast.Subscript) and norm(node.value) == \
                "graph_payload" and isinstance(node.slice, ast.Constant):
            g = guards_of(node, r.node)
            read.setdefault(g, set()).add(node.slice.value)
            read_nodes[node.slice.value] = node

    def flat(d):
        return {(g, s) for g, ss in d.items() for s in ss}
    # writer puts "Bonds" under both branches of the CRG guard: normalise
    wflat = set()
    for g, s in flat(written):
        if s in ("Atoms", "Bonds"):
            g = ()
        wflat.add((g, s))
    rflat = {(() if s in ("Atoms", "Bonds") else g, s) for g, s in flat(read)}
    for g, s in sorted(wflat | rflat):
        inst = f"section {s!r} under guard {list(g) or 'none'}"
        if (g, s) in wflat and (g, s) in rflat:
            res.ok("J-SECTIONS", inst, w.loc(write_nodes.get(s, w.node)))
        elif (g, s) in wflat:
            res.bad("J-SECTIONS", f"written not read: {s} {list(g)}",
                    w.loc(write_nodes.get(s, w.node)),
                    f"{inst} is written by as_dict but never read by "
                    "json_deserialize under the same guard", instance=inst)
        else:
            res.bad("J-SECTIONS", f"read not written: {s} {list(g)}",
                    r.loc(read_nodes.get(s, r.node)),
                    f"{inst} is read by json_deserialize but never written",
                    instance=inst)
    res.need("J-SECTIONS", len(wflat), 8, "sections")
    # -- enum -------------------------------------------------------------------
    change = prog.cls("Change")
    members = [t.id for st in change.node.body if isinstance(st, ast.Assign)
               for t in st.targets if isinstance(t, ast.Name)]
    if len(members) < 3:
        raise AnalysisError("Change members not found")
    wtxt = utext(w.node)
    rtxt = utext(r.node)
    excl = None
    for node in ast.walk(w.node):
        if isinstance(node, (ast.GeneratorExp, ast.ListComp)) and norm(
                node.generators[0].iter) == "graph.bonds" and \
                node.generators[0].ifs:
            excl = node.generators[0].ifs[0]
            node_of_excl = node
    for m in members:
        role = m.lower()
        section = f"{m.capitalize()} Bonds"
        inst = f"Change.{m}: bond section {section!r}"
        wn = write_nodes.get(section)
        ok_w = wn is not None and f"get_{role}_bonds()" in " ".join(
            norm(d, 300) for d in DefUse(w.node).dep_nodes(wn.value))
        loops = [n for n in ast.walk(r.node) if isinstance(n, ast.For)
                 and f"'{section}'" in norm(n.iter)]
        ok_r = any(f"add_{role}_bond(" in utext(l) for l in loops)
        if ok_w and ok_r:
            res.ok("J-ENUM", inst, w.loc(wn))
        else:
            res.bad("J-ENUM", f"Change.{m} bond section", w.loc(),
                    f"{inst}: {'not written from get_' + role + '_bonds()' if not ok_w else 'not read through add_' + role + '_bond()'}"
                    f"; {role} bonds come back as plain bonds or are lost",
                    instance=inst)
        inst = f"Change.{m}: excluded from the plain bond section"
        du = DefUse(w.node)
        ex_dep = ""
        if excl is not None:
            # one level of definitions of the names used in the filter
            # (flow-insensitive closures would drag in unrelated loops)
            # (set unions of such names are followed, up to three levels)
            own = {x.id for g_ in node_of_excl.generators
                   for x in ast.walk(g_.target) if isinstance(x, ast.Name)}
            work = [(nm, 0) for nm in {x.id for x in ast.walk(excl)
                                       if isinstance(x, ast.Name)} - own]
            seen_nm = set()
            while work:
                nm, lvl = work.pop()
                if nm in seen_nm or lvl > 3:
                    continue
                seen_nm.add(nm)
                for d in du.defs.get(nm, ()):
                    if isinstance(d, ast.Call):
                        ex_dep += " " + norm(d, 300)
                    elif isinstance(d, (ast.BinOp, ast.Name)):
                        work += [(x.id, lvl + 1) for x in ast.walk(d)
                                 if isinstance(x, ast.Name)]
        if excl is not None and f"get_{role}_bonds()" in ex_dep and \
                " not in " in norm(excl):
            res.ok("J-ENUM", inst, w.loc(excl))
        else:
            res.bad("J-ENUM", f"Change.{m} not excluded from Bonds", w.loc(),
                    f"{inst}: {role} bonds are also written as plain bonds "
                    "and the role is lost / overwritten on reading",
                    instance=inst)
        inst = f"Change.{m}: stereo-change role name read back"
        if rtxt.count(f".get('{m}')") >= 2 and "change.name" in wtxt:
            res.ok("J-ENUM", inst, r.loc())
        else:
            res.bad("J-ENUM", f"Change.{m} role name", r.loc(),
                    f"{inst}: the reader does not look up '{m}' for both "
                    "atom and bond changes (writer emits change.name)",
                    instance=inst)
    # reader hands the three roles to the right keywords
    for kind in ("atom", "bond"):
        calls = [n for n in ast.walk(r.node) if isinstance(n, ast.Call)
                 and norm(n.func) == f"graph.set_{kind}_stereo_change"]
        inst = f"reader: set_{kind}_stereo_change keyword <- same role"
        good = False
        du = DefUse(r.node)
        for c in calls:
            kw = {k.arg: k.value for k in c.keywords}
            good = {k for k in kw if k} == {m.lower() for m in members}
            for role, v in kw.items():
                if role is None:
                    good = False
                    continue
                defs = [norm(d, 200) for d in du.dep_nodes(v)]
                # every definition of the local must look up the same role
                own = [d for d in defs if "_stereo_from_payload(" in d]
                if not own or not all(f".get('{role.upper()}')" in d
                                      for d in own):
                    good = False
        if good:
            res.ok("J-ENUM", inst, r.loc())
        else:
            res.bad("J-ENUM", f"reader set_{kind}_stereo_change roles",
                    r.loc(), f"{inst}: a role is restored under a different "
                    "keyword or missing", instance=inst)
    # -- registries -----------------------------------------------------------
    reg = prog.module_assign(MOD, "STEREO_CLASSES")
    if not isinstance(reg, ast.Dict):
        raise AnalysisError("STEREO_CLASSES is not a dict literal")
    pairs = {k.value: norm(v) for k, v in zip(reg.keys, reg.values)
             if isinstance(k, ast.Constant)}
    for c in DESCRIPTOR_CLASSES:
        inst = f"STEREO_CLASSES[{c!r}] is {c}"
        if pairs.get(c) == c:
            res.ok("J-REGISTRY", inst, prog.module(MOD).loc(reg))
        else:
            res.bad("J-REGISTRY", f"STEREO_CLASSES {c}",
                    prog.module(MOD).loc(reg),
                    f"{inst}: registered as {pairs.get(c)!r}; descriptors of "
                    "this class cannot be restored (or restore as another "
                    "class)", instance=inst)
    gdict = [n for n in ast.walk(r.node) if isinstance(n, ast.Dict)
             and any(isinstance(k, ast.Constant) and k.value == "MolGraph"
                     for k in n.keys)]
    if not gdict:
        # the registry may live at module level and be indexed by name
        for nm in {x.id for x in ast.walk(r.node) if isinstance(x, ast.Name)}:
            try:
                cand = prog.module_assign(MOD, nm)
            except Exception:
                continue
            if isinstance(cand, ast.Dict) and any(
                    isinstance(k, ast.Constant) and k.value == "MolGraph"
                    for k in cand.keys):
                gdict = [cand]
    gp = {k.value: norm(v) for k, v in zip(gdict[0].keys, gdict[0].values)} \
        if gdict else {}
    for c in GRAPH_CLASSES:
        inst = f"graph registry[{c!r}] is {c}"
        if gp.get(c) == c:
            res.ok("J-REGISTRY", inst, r.loc())
        else:
            res.bad("J-REGISTRY", f"graph registry {c}", r.loc(),
                    f"{inst}: found {gp.get(c)!r}", instance=inst)
    # a payload helper of the handler the writer calls for every descriptor
    helper = None
    helper_calls = []
    for c in ast.walk(w.node):
        if isinstance(c, ast.Call) and isinstance(c.func, ast.Attribute) \
                and isinstance(c.func.value, ast.Name) and c.func.value.id in (
                "JSONHandler", "cls", "self") and len(c.args) == 1 and \
                norm(c.args[0]) == "stereo":
            h = prog.classes["JSONHandler"].methods.get(c.func.attr) \
                if "JSONHandler" in prog.classes else None
            if h is not None and len(h.params()) >= 1:
                helper = h
                helper_calls.append(c)
    if helper is not None:
        from ..core import _Rename, clone
        par = [p_ for p_ in helper.params() if p_ not in ("self", "cls")][0]
        hnode = _Rename({par: ast.Name("stereo", ast.Load())}).visit(
            clone(helper.node))
        wtxt = wtxt + "\n" + utext(hnode)
    inst = "writer emits type(graph).__name__ / stereo.__class__.__name__"
    if "type(graph).__name__" in wtxt and (
            "stereo.__class__.__name__" in wtxt
            or "type(stereo).__name__" in wtxt):
        res.ok("J-REGISTRY", inst, w.loc())
    else:
        res.unrecognised("J-REGISTRY", inst, w.loc(),
                         "how the writer names classes")
    # -- payload ----------------------------------------------------------------
    n_payload = 0
    for node in ast.walk(w.node):
        if isinstance(node, ast.Dict) and len(node.keys) == 1 and norm(
                node.keys[0]) in ("stereo.__class__.__name__",
                                  "type(stereo).__name__"):
            n_payload += 1
            inst = f"writer payload at line {node.lineno}"
            if norm(node.values[0]) == "(stereo.atoms, stereo.parity)":
                res.ok("J-PAYLOAD", inst, w.loc(node))
            else:
                res.bad("J-PAYLOAD", f"writer payload {norm(node.values[0])}",
                        w.loc(node), f"{inst}: payload is "
                        f"`{norm(node.values[0])}`, expected (stereo.atoms, "
                        "stereo.parity)", instance=inst)
    if helper is not None and n_payload < 4:
        singles = {}
        for a in ast.walk(hnode):
            if isinstance(a, ast.Assign) and len(a.targets) == 1 and \
                    isinstance(a.targets[0], ast.Name):
                singles.setdefault(a.targets[0].id, []).append(a.value)
        for node in ast.walk(hnode):
            if not (isinstance(node, ast.Dict) and len(node.keys) == 1 and norm(
                    node.keys[0]) in ("stereo.__class__.__name__",
                                      "type(stereo).__name__")):
                continue
            n_payload += len(helper_calls)
            inst = f"writer payload in {helper.short}"
            v = node.values[0]
            if norm(v) == "(stereo.atoms, stereo.parity)":
                res.ok("J-PAYLOAD", inst, helper.loc())
                continue
            a0 = v.elts[0] if isinstance(v, ast.Tuple) and len(
                v.elts) == 2 else None
            if isinstance(a0, ast.Name) and len(singles.get(a0.id, [])) == 1:
                a0 = singles[a0.id][0]
            if a0 is not None and norm(v.elts[1]) == "stereo.parity" and \
                    isinstance(a0, ast.Call) and call_name(a0) in (
                    "min", "max", "next") and a0.args and \
                    "stereo._perm_atoms()" in norm(a0.args[0]):
                # an element of the orbit: for an unspecified parity the
                # orbit is every permutation of the atoms
                pa = prog.classes["_StereoMixin"].methods.get("_perm_atoms") \
                    if "_StereoMixin" in prog.classes else None
                if pa is not None and "permutations(" in utext(pa.node):
                    res.bad("J-PAYLOAD", f"writer payload {norm(a0, 60)}",
                            helper.loc(), f"{inst}: the atoms written are "
                            f"`{norm(a0, 80)}`; for a descriptor of "
                            "unspecified parity `_perm_atoms` runs over ALL "
                            "permutations of the atoms, so the centre / bond "
                            "atoms leave their positions and the descriptor "
                            "read back is over the same atoms but a different "
                            "centre", instance=inst, context=["<decided>"])
                    continue
            res.unrecognised("J-PAYLOAD", inst, helper.loc(),
                             f"payload `{norm(v, 80)}`")
    res.need("J-PAYLOAD", n_payload, 4, "payload sites in as_dict")
    ptxt = utext(pl.node)
    rets = [n for n in ast.walk(pl.node) if isinstance(n, ast.Return)
            and isinstance(n.value, ast.Call)]
    inst = "reader: _stereo_from_payload(class(atoms, parity))"
    ok = False
    why = "constructor call not found"
    for rt in rets:
        c = rt.value
        if len(c.args) == 2:
            a0, a1 = c.args
            atoms_txt = norm(a0)
            none_ok = ("None if" in atoms_txt or "is None" in atoms_txt
                       or atoms_txt in ("tuple(atoms)", "atoms"))
            if norm(a1) != "parity":
                why = f"parity is passed as `{norm(a1)}`"
            elif "int(" in atoms_txt and not none_ok:
                why = (f"`{atoms_txt}` converts the None placeholder with "
                       "int(): any lone-pair descriptor makes deserialisation "
                       "raise TypeError")
            else:
                ok = True
    if ok and "STEREO_CLASSES[class_name]" in ptxt and \
            "class_name, (atoms, parity) = next(iter(payload.items()))" in ptxt:
        res.ok("J-PAYLOAD", inst, pl.loc())
    else:
        res.bad("J-PAYLOAD", "reader payload", pl.loc(), f"{inst}: {why}",
                instance=inst)
    # the reader returns None only for an absent payload
    for rt in ast.walk(pl.node):
        if isinstance(rt, ast.Return) and (rt.value is None or norm(
                rt.value) == "None"):
            guards = [norm(a.test) for a in ancestors(rt)
                      if isinstance(a, ast.If)]
            inst = f"reader: `return None` under {guards}"
            if guards and all(g in ("not payload", "payload is None")
                              for g in guards):
                res.ok("J-PAYLOAD", inst, pl.loc(rt))
            else:
                res.bad("J-PAYLOAD", f"reader drops payload under {guards}",
                        pl.loc(rt), f"{inst}: a stored descriptor is "
                        "discarded on reading (e.g. every descriptor with a "
                        "None placeholder when the test compares its atoms "
                        "with the graph's atoms)", instance=inst)
    # a restored descriptor is attached unconditionally: the only guard a
    # setter call may sit under (besides the class guard and the section
    # loops) is the presence test of the restored object itself
    for c in ast.walk(r.node):
        if not (isinstance(c, ast.Call) and isinstance(c.func, ast.Attribute)
                and c.func.attr in ("set_atom_stereo", "set_bond_stereo",
                                    "set_atom_stereo_change",
                                    "set_bond_stereo_change")):
            continue
        vals = [norm(a_) for a_ in c.args] + [norm(k.value)
                                              for k in c.keywords]
        tests = []
        prev = c
        for a_ in ancestors(c):
            if isinstance(a_, ast.If):
                tests.append(a_.test)
            if isinstance(a_, ast.FunctionDef):
                break
        odd = []
        for t in tests:
            parts = t.values if isinstance(t, ast.BoolOp) and isinstance(
                t.op, ast.And) else [t]
            for part in parts:
                pt = norm(part, 200)
                if pt.startswith("isinstance(graph,"):
                    continue
                if any(pt in (v, f"{v} is not None") for v in vals):
                    continue
                if re.fullmatch(r"any\(\((\w+, )*\w+\)\)|any\(\[.*\]\)", pt) \
                        and all(w in " ".join(vals)
                                for w in re.findall(r"\w+", pt)[1:]):
                    continue
                # any(d.values()) / any(d) over the mapping that is spread
                # into the call: "some role was restored"
                m_ = re.fullmatch(r"any\((\w+)(\.values\(\))?\)", pt)
                if m_ and any(isinstance(k, ast.keyword) and k.arg is None
                              and norm(k.value) == m_.group(1)
                              for k in c.keywords):
                    continue
                odd.append(pt)
        inst = f"reader: {norm(c.func)}(...) attaches every restored descriptor"
        if odd:
            res.bad("J-PAYLOAD", f"reader: {c.func.attr} under {odd[0][:60]}",
                    r.loc(c), f"{inst}: the call is guarded by `{odd[0]}`; a "
                    "stored descriptor that fails it is dropped silently "
                    "(e.g. every descriptor with a None placeholder when its "
                    "atoms are compared with the graph's atoms)",
                    instance=inst, context=["<local>"])
        else:
            res.ok("J-PAYLOAD", inst, r.loc(c))
    # set_*_stereo_change REPLACES the entry: one call per entry, all roles
    for kind in ("atom", "bond"):
        for c in ast.walk(r.node):
            if isinstance(c, ast.Call) and isinstance(
                    c.func, ast.Attribute) and c.func.attr == \
                    f"set_{kind}_stereo_change":
                inner_loops = []
                for a in ancestors(c):
                    if isinstance(a, ast.For):
                        inner_loops.append(a)
                # the nearest loop must be the one over the section's entries
                inst = f"reader: {norm(c.func)} called once per entry with all roles"
                kws = {k.arg for k in c.keywords}
                per_entry = bool(inner_loops) and ".values()" in norm(
                    inner_loops[0].iter) and "Stereo Changes" in norm(
                    inner_loops[0].iter)
                if per_entry and kws == {"broken", "formed", "fleeting"}:
                    res.ok("J-ENUM", inst, r.loc(c))
                else:
                    res.bad("J-ENUM", f"reader: {norm(c, 70)} per role",
                            r.loc(c), f"{inst}: the call sits in "
                            f"`for {norm(inner_loops[0].target) if inner_loops else '?'} in "
                            f"{norm(inner_loops[0].iter, 50) if inner_loops else '?'}` "
                            f"with keywords {sorted(k or '**' for k in kws)}; "
                            "the setter replaces the whole entry, so an atom "
                            "or bond with more than one change keeps only the "
                            "last one", instance=inst)
    # filters that drop payloads: only `if stereo is not None`
    for node in ast.walk(w.node):
        if isinstance(node, ast.If) and "stereo" in norm(node.test) and \
                any(isinstance(x, ast.Dict) for b in node.body
                    for x in ast.walk(b)):
            inst = f"writer keeps every descriptor: `if {norm(node.test)}`"
            if norm(node.test) == "stereo is not None":
                res.ok("J-PAYLOAD", inst, w.loc(node))
            else:
                res.bad("J-PAYLOAD", f"writer filter {norm(node.test)}",
                        w.loc(node), f"{inst} drops descriptors (e.g. parity "
                        "None / 0)", instance=inst)
    for node in ast.walk(w.node):
        if isinstance(node, (ast.Continue, ast.Break)):
            guards = [a for a in ancestors(node) if isinstance(a, ast.If)]
            loops = [a for a in ancestors(node) if isinstance(a, ast.For)]
            if loops and any("stereo" in norm(l.iter) for l in loops):
                t = norm(guards[0].test) if guards else "unconditionally"
                inst = f"writer keeps every descriptor: skip `{t}`"
                if t in ("stereo is None",):
                    res.ok("J-PAYLOAD", inst, w.loc(node))
                else:
                    res.bad("J-PAYLOAD", f"writer skip {t}", w.loc(node),
                            f"{inst}: descriptors are left out of the JSON "
                            "document", instance=inst)
    # -- coverage -------------------------------------------------------------
    wants_w = {"graph.atoms": "atoms", "graph.atom_types": "elements",
               "graph.bonds": "bonds", "graph.atom_stereo.items()": "atom stereo",
               "graph.bond_stereo.items()": "bond stereo",
               "graph.atom_stereo_changes.items()": "atom stereo changes",
               "graph.bond_stereo_changes.items()": "bond stereo changes"}
    views = {"atoms": ("atoms", "atoms_with_attributes", "_atom_attrs"),
             "elements": ("atom_types", "get_atom_type", "atoms_with_attributes"),
             "bonds": ("bonds", "bonds_with_attributes", "_bond_attrs"),
             "atom stereo": ("atom_stereo", "get_atom_stereo", "stereo",
                             "_atom_stereo"),
             "bond stereo": ("bond_stereo", "get_bond_stereo", "stereo",
                             "_bond_stereo"),
             "atom stereo changes": ("atom_stereo_changes",
                                     "get_atom_stereo_change",
                                     "_atom_stereo_change"),
             "bond stereo changes": ("bond_stereo_changes",
                                     "get_bond_stereo_change",
                                     "_bond_stereo_change")}
    used = {n.attr for n in ast.walk(w.node) if isinstance(n, ast.Attribute)
            and norm(n.value) == "graph"}
    for what, alts in views.items():
        inst = f"as_dict reads {what} (one of {alts})"
        if used & set(alts):
            res.ok("J-COVER", inst, w.loc())
        else:
            res.bad("J-COVER", f"as_dict misses {what}", w.loc(),
                    f"{inst}: none of these views of the graph is read, so "
                    f"the {what} never reach the JSON document",
                    instance=inst)
    wants_r = ["graph.add_atom(", "graph.add_bond(", "graph.set_atom_stereo(",
               "graph.set_bond_stereo(", "graph.set_atom_stereo_change(",
               "graph.set_bond_stereo_change("]
    rcalls = {n.func.attr for n in ast.walk(r.node) if isinstance(n, ast.Call)
              and isinstance(n.func, ast.Attribute)
              and norm(n.func.value) == "graph"}
    for expr in wants_r:
        meth = expr[len("graph."):-1]
        inst = f"json_deserialize restores through {expr})"
        if meth in rcalls:
            res.ok("J-COVER", inst, r.loc())
        else:
            res.bad("J-COVER", f"json_deserialize misses {expr}", r.loc(),
                    f"{inst}: the reader never calls graph.{meth}(...), so "
                    "this part of the state is not restored", instance=inst)
    # identifiers restored as ints, elements by symbol
    inst = "atoms restored as add_atom(int(atom_id), atom_type)"
    restored = False
    for l_ in ast.walk(r.node):
        if isinstance(l_, ast.For) and isinstance(l_.target, ast.Tuple) and \
                len(l_.target.elts) == 2 and "'Atoms'" in norm(l_.iter):
            i_, t_ = (norm(e) for e in l_.target.elts)
            if any(isinstance(c_, ast.Call) and norm(c_.func) ==
                   "graph.add_atom" and len(c_.args) == 2
                   and norm(c_.args[0]) == f"int({i_})"
                   and norm(c_.args[1]) == t_ for c_ in ast.walk(l_)):
                restored = True
    written_symbols = re.search(r"SYMBOLS\[\w+\]", wtxt) is not None
    if restored and written_symbols:
        res.ok("J-COVER", inst, r.loc())
    else:
        res.unrecognised("J-COVER", inst, r.loc(), "how atoms are restored")
    res.exhaustive = True
    res.trusted += ["section keys are string literals in both functions",
                    "json round-trips lists/tuples, ints, None and strings"]
