"""C08 -- reaction graphs decompose and reverse faithfully.

Finite decision tables extracted from the AST and enumerated completely by
constant folding (sa/pe.py): bond classification by membership, role filters
of reactant()/product(), role swap of reverse_reaction(), and the stereo
classification of from_graphs over all (reactant, product, TS) descriptor
scenarios.
"""
from __future__ import annotations

import ast
import re
from ..core import utext
import itertools

from ..core import AnalysisError, DefUse, Program, call_name, norm
from ..pe import NONE_VALUE, PE, UNKNOWN, Sym
from ..report import Result

LEVEL_TEXT = (
    "static decision-table analysis: the role tables of from_graphs, "
    "reactant(), product(), _ts() and reverse_reaction() (bonds and both "
    "stereo-change dictionaries) are extracted from the source and "
    "enumerated completely over the finite domains (bond membership 2x2, "
    "4 bond roles, 64 descriptor scenarios per centre); each cell must "
    "satisfy overlay(static, broken) = reactant and overlay(static, formed) "
    "= product. Set equalities as values and 'reversing twice is identical' "
    "as a behaviour are not decided.")

ROLES = (None, "FORMED", "BROKEN", "FLEETING")
ROLE_ENV = {"Change.FORMED": "FORMED", "Change.BROKEN": "BROKEN",
            "Change.FLEETING": "FLEETING"}


def as_func(stmts) -> ast.FunctionDef:
    f = ast.FunctionDef(name="_cell", args=ast.arguments(
        posonlyargs=[], args=[], kwonlyargs=[], kw_defaults=[], defaults=[]),
        body=list(stmts), decorator_list=[], lineno=1, col_offset=0)
    return f


def ancestors_of(node):
    from ..core import ancestors
    return ancestors(node)


def path_calls(out) -> list[str]:
    return [call_name(c) or norm(c.func) for c in out.calls
            if isinstance(c, ast.Call)]


def _reads_role(e: ast.AST) -> bool:
    """<attrs>.get('reaction'[, None]) / get_bond_attribute(..., 'reaction')"""
    if isinstance(e, ast.Call) and isinstance(e.func, ast.Attribute):
        if e.func.attr == "get" and e.args and isinstance(
                e.args[0], ast.Constant) and e.args[0].value == "reaction" \
                and (len(e.args) == 1 or norm(e.args[1]) == "None"):
            return True
        if e.func.attr == "get_bond_attribute" and e.args and isinstance(
                e.args[-1], ast.Constant) and e.args[-1].value == "reaction":
            return True
    return False


def role_filter(prog, res, K, meth, keep: set) -> None:
    fi = prog.resolve_method(K, meth)
    if fi is None:
        raise AnalysisError(f"{K}.{meth} vanished")
    base_env = dict(ROLE_ENV)

    def bond_loops(f):
        return [n for n in ast.walk(f.node) if isinstance(n, ast.For)
                and norm(n.iter) in ("self.bonds", "self._bond_attrs",
                                     "self._bond_attrs.items()",
                                     "self.bonds_with_attributes.items()")]
    loops = bond_loops(fi)
    hops = 0
    while not loops and hops < 3:
        # delegation to a helper: return self._helper(<constants>, ...)
        hops += 1
        calls = [n for n in ast.walk(fi.node) if isinstance(n, ast.Call)
                 and isinstance(n.func, ast.Attribute)
                 and norm(n.func.value) == "self"]
        target = None
        for c in calls:
            cand = prog.resolve_method(K, c.func.attr)
            if cand is not None and bond_loops(cand):
                target = (cand, c)
                break
        if target is None:
            break
        cand, c = target
        params = cand.params()[1:]
        pe0 = PE(fi.node, dict(base_env))
        for pn, a in zip(params, c.args):
            v = pe0.ev(a, dict(base_env))
            if v is not UNKNOWN:
                base_env[pn] = v
        for k in c.keywords:
            v = pe0.ev(k.value, dict(base_env))
            if k.arg and v is not UNKNOWN:
                base_env[k.arg] = v
        fi = cand
        loops = bond_loops(fi)
    if not loops:
        raise AnalysisError(f"{K}.{meth}: bond loop not found")
    loop = loops[-1]
    for role in ROLES:
        def oracle(e, pe, env, role=role):
            t = norm(e)
            if _reads_role(e):
                return NONE_VALUE if role is None else role
            if t in ("keep_attributes is True", "keep_attributes"):
                return True
            return None
        pe = PE(as_func(loop.body), dict(base_env), oracle=oracle)
        outs = pe.run()
        added = any("add_bond" in c for o in outs for c in path_calls(o))
        always = all(any("add_bond" in c for c in path_calls(o)) for o in outs)
        inst = f"{K}.{meth}: role {role} -> {'kept' if role in keep else 'dropped'}"
        want = role in keep
        if (want and always) or (not want and not added):
            res.ok("R-ROLE-TABLE", inst, fi.loc(loop))
        else:
            res.bad("R-ROLE-TABLE", f"{K}.{meth}: role {role}", fi.loc(loop),
                    f"{K}.{meth} (via {fi.short}): a bond with role {role} is "
                    f"{'kept' if added else 'dropped'}, but {meth}() must "
                    f"{'keep' if want else 'drop'} it", instance=inst)
    # the reaction attribute itself must not leak into the result
    txt = utext(loop)
    inst = f"{fi.short}: 'reaction' attribute stripped from kept bonds"
    if "pop('reaction'" in txt or "'reaction'" not in txt.replace(
            ".get('reaction'", ""):
        res.ok("R-ROLE-TABLE", inst, fi.loc(loop))
    else:
        res.unrecognised("R-ROLE-TABLE", inst, fi.loc(loop),
                         "handling of the 'reaction' attribute not recognised")


def check_bonds(prog: Program, res: Result) -> None:
    res.rule("R-ROLE-TABLE", "from_graphs classifies bonds by membership "
             "(r&p -> unchanged, r only -> BROKEN, p only -> FORMED, TS only "
             "-> FLEETING); reactant() keeps {unchanged, BROKEN}, product() "
             "{unchanged, FORMED}, _ts() everything; reverse_reaction maps "
             "FORMED<->BROKEN and fixes FLEETING/unchanged, for bonds and "
             "inside both stereo-change dictionaries; reactant/product/_ts "
             "overlay change[BROKEN]/[FORMED]/[FLEETING]")
    K = "CondensedReactionGraph"
    fi = prog.resolve_method(K, "from_graphs")
    # role names: the bond universe, the graph under construction, the loop
    # variable over the bonds
    from ..iso import rename_locals
    table = {}
    for n in ast.walk(fi.node):
        if isinstance(n, ast.Assign) and len(n.targets) == 1 and isinstance(
                n.targets[0], ast.Name):
            v = norm(n.value)
            if re.fullmatch(r"set\(\w+\.bonds\) \| set\(\w+\.bonds\)", v):
                table[n.targets[0].id] = "bonds"
            elif v in ("cls()", "CondensedReactionGraph()"):
                table[n.targets[0].id] = "crg"
    fi = rename_locals(fi, table)
    table = {}
    for n in ast.walk(fi.node):
        if isinstance(n, ast.For) and norm(n.iter) in (
                "bonds", "ts_graph.bonds") and isinstance(n.target, ast.Name):
            table[n.target.id] = "bond"
    fi = rename_locals(fi, table)
    loops = [n for n in ast.walk(fi.node) if isinstance(n, ast.For)
             and norm(n.iter) == "bonds"]
    if not loops:
        raise AnalysisError("from_graphs: bond loop not found")
    du = DefUse(fi.node)
    bdefs = [norm(d) for d in du.defs.get("bonds", [])]
    inst = "from_graphs: bonds = reactant bonds | product bonds"
    if any("set(reactant_graph.bonds) | set(product_graph.bonds)" == d or
           "set(product_graph.bonds) | set(reactant_graph.bonds)" == d
           for d in bdefs):
        res.ok("R-ROLE-TABLE", inst, fi.loc())
    else:
        res.bad("R-ROLE-TABLE", "from_graphs: bond universe", fi.loc(),
                f"{inst}: found {bdefs}", instance=inst)
    expected = {(True, True): "crg.add_bond", (True, False): "crg.add_broken_bond",
                (False, True): "crg.add_formed_bond", (False, False): None}
    for (r, p), want in expected.items():
        def oracle(e, pe, env, r=r, p=p):
            t = norm(e)
            if t in ("reactant_graph.has_bond(*bond)", "bond in reactant_graph.bonds"):
                return r
            if t in ("product_graph.has_bond(*bond)", "bond in product_graph.bonds"):
                return p
            if t == "bond not in reactant_graph.bonds":
                return not r
            if t == "bond not in product_graph.bonds":
                return not p
            return None
        pe = PE(as_func(loops[0].body), {}, oracle=oracle)
        outs = pe.run()
        got = sorted({c for o in outs for c in path_calls(o)})
        inst = f"from_graphs: bond in reactant={r}, product={p} -> {want}"
        if got == ([want] if want else []) and len(outs) == 1:
            res.ok("R-ROLE-TABLE", inst, fi.loc(loops[0]))
        else:
            res.bad("R-ROLE-TABLE", f"from_graphs bonds r={r} p={p}",
                    fi.loc(loops[0]), f"{inst}: the code performs {got}",
                    instance=inst)
    # fleeting
    ts_loops = [n for n in ast.walk(fi.node) if isinstance(n, ast.For)
                and norm(n.iter) == "ts_graph.bonds"]
    inst = "from_graphs: TS-only bonds -> FLEETING"
    ok = False
    wrong = None
    for l in ts_loops:
        for c in ast.walk(l):
            if isinstance(c, ast.Call) and (call_name(c) or "").endswith(
                    "add_fleeting_bond"):
                tests = [norm(a.test) for a in ancestors_of(c)
                         if isinstance(a, ast.If)]
                if any(t in ("bond not in crg.bonds", "not crg.has_bond(*bond)",
                             "bond not in bonds") for t in tests):
                    ok = True
                else:
                    wrong = tests
    if ok:
        res.ok("R-ROLE-TABLE", inst, fi.loc())
    elif wrong is not None:
        res.bad("R-ROLE-TABLE", f"from_graphs fleeting under {wrong}",
                fi.loc(), f"{inst}: add_fleeting_bond is called under "
                f"{wrong}, not for the bonds that are in neither reactant nor "
                "product", instance=inst)
    else:
        res.unrecognised("R-ROLE-TABLE", inst, fi.loc(),
                         "no add_fleeting_bond over ts_graph.bonds")
    for KK in ("CondensedReactionGraph",):
        role_filter(prog, res, KK, "reactant", {None, "BROKEN"})
        role_filter(prog, res, KK, "product", {None, "FORMED"})
    ts = prog.resolve_method(K, "_ts")
    inst = "CondensedReactionGraph._ts keeps every bond"
    rets = [norm(r.value) for r in ast.walk(ts.node) if isinstance(r, ast.Return)]
    if rets == ["MolGraph(self)"]:
        res.ok("R-ROLE-TABLE", inst, ts.loc())
    else:
        res.bad("R-ROLE-TABLE", "_ts", ts.loc(), f"{inst}: returns {rets}",
                instance=inst)
    # reverse_reaction --------------------------------------------------------
    rv = prog.resolve_method(K, "reverse_reaction")
    loops = [n for n in ast.walk(rv.node) if isinstance(n, ast.For)
             and norm(n.iter) in ("self.bonds", "self._bond_attrs")]
    if not loops:
        raise AnalysisError("reverse_reaction: bond loop not found")
    want = {None: None, "FORMED": "BROKEN", "BROKEN": "FORMED",
            "FLEETING": None}
    for role in ROLES:
        def oracle(e, pe, env, role=role):
            t = norm(e)
            if _reads_role(e):
                return NONE_VALUE if role is None else role
            return None
        pe = PE(as_func(loops[0].body), dict(ROLE_ENV), oracle=oracle)
        outs = pe.run()
        new_roles = set()
        overwrite = []
        for o in outs:
            for c in o.calls:
                if not isinstance(c, ast.Call):
                    continue
                cn = call_name(c) or ""
                if cn.endswith("set_bond_attribute") and len(c.args) >= 2:
                    v = pe.ev(c.args[-1], o.env)
                    if any(norm(a) == "'reaction'" for a in c.args):
                        new_roles.add(v)
                elif cn.endswith(("add_broken_bond", "add_formed_bond",
                                  "add_fleeting_bond", "add_bond")):
                    overwrite.append(cn)
                    new_roles.add({"add_broken_bond": "BROKEN",
                                   "add_formed_bond": "FORMED",
                                   "add_fleeting_bond": "FLEETING"}.get(
                        cn.split(".")[-1], "?"))
        inst = f"reverse_reaction: role {role} -> {want[role] or 'unchanged'}"
        exp = {want[role]} if want[role] else set()
        if new_roles == exp:
            res.ok("R-ROLE-TABLE", inst, rv.loc(loops[0]))
        else:
            res.bad("R-ROLE-TABLE", f"reverse_reaction role {role}",
                    rv.loc(loops[0]), f"{inst}: the code sets {sorted(map(str, new_roles))}",
                    instance=inst)
        if overwrite:
            res.rule("R-NO-OVERWRITE", "reverse_reaction flips the role with "
                     "set_bond_attribute; re-adding the bond replaces its "
                     "whole attribute dictionary")
            res.bad("R-NO-OVERWRITE", f"{rv.short}: {overwrite[0]}",
                    rv.loc(loops[0]),
                    f"{rv.short}: `{overwrite[0]}(*bond)` on a bond of the "
                    "graph itself replaces the bond's attribute dictionary: "
                    "every other attribute of a formed / broken bond is lost "
                    "on reversal (and reversing twice does not restore it)")
        elif want[role]:
            res.rule("R-NO-OVERWRITE", "reverse_reaction flips the role with "
                     "set_bond_attribute; re-adding the bond replaces its "
                     "whole attribute dictionary")
            res.ok("R-NO-OVERWRITE", inst, rv.loc(loops[0]))


def _role_spreads(prog: Program, rv):
    """[(setter name, {Change member: keyword} | None, call)] for setter calls
    of rv whose only argument is a `**{..}` spread built from a role table."""
    enum_vals = {}
    ch = prog.classes.get("Change")
    if ch is not None:
        for k, v in ch.assigns.items():
            if isinstance(v, ast.Constant):
                enum_vals[k] = v.value

    def member(e):
        t = norm(e)
        return t.split(".")[1] if t.startswith("Change.") and \
            t.count(".") == 1 else None

    def keyword_of(e):
        if isinstance(e, ast.Constant) and isinstance(e.value, str):
            return e.value
        t = norm(e)
        if t.startswith("Change.") and t.endswith(".value"):
            return enum_vals.get(t.split(".")[1])
        return None

    def table_of(e, fn):
        """{member: keyword} of a dict literal (or a local bound to one)."""
        if isinstance(e, ast.Name):
            defs = [a.value for a in ast.walk(fn) if isinstance(a, ast.Assign)
                    and len(a.targets) == 1 and isinstance(
                        a.targets[0], ast.Name) and a.targets[0].id == e.id]
            if len(defs) != 1:
                return None
            e = defs[0]
        if not isinstance(e, ast.Dict):
            return None
        out = {}
        for k, v in zip(e.keys, e.values):
            m_, kw = (member(k) if k is not None else None), keyword_of(v)
            if m_ is None or kw is None:
                return None
            out[m_] = kw
        return out
    # callables handed around: (table, setter) pairs unrolled by the normal
    # form, or a local alias of the bound method
    res_ = []
    for c in ast.walk(rv.node):
        if not (isinstance(c, ast.Call) and len(c.keywords) == 1
                and c.keywords[0].arg is None and not c.args):
            continue
        fname = c.func.attr if isinstance(c.func, ast.Attribute) else (
            c.func.id if isinstance(c.func, ast.Name) else "")
        if "stereo_change" not in fname:
            continue
        v = c.keywords[0].value
        mp = None
        if isinstance(v, ast.DictComp) and len(v.generators) == 1 and \
                not v.generators[0].ifs:
            g = v.generators[0]
            it = g.iter
            if isinstance(it, ast.Call) and isinstance(
                    it.func, ast.Attribute) and it.func.attr == "items" and \
                    isinstance(g.target, ast.Tuple) and len(
                    g.target.elts) == 2 and all(
                    isinstance(x, ast.Name) for x in g.target.elts):
                a_, b_ = g.target.elts[0].id, g.target.elts[1].id
                tab = table_of(it.func.value, rv.node)
                if tab is not None:
                    # for member, keyword in TABLE.items(): {keyword: d[member]}
                    if norm(v.key) == b_ and isinstance(
                            v.value, ast.Subscript) and norm(
                            v.value.slice) == a_:
                        mp = dict(tab)
                else:
                    # for member, stereo in d.items(): {K(member): stereo}
                    if norm(v.value) == b_:
                        if norm(v.key) == f"{a_}.value":
                            mp = {m_: enum_vals.get(m_) for m_ in enum_vals}
                        elif isinstance(v.key, ast.Subscript) and norm(
                                v.key.slice) == a_:
                            tab2 = table_of(v.key.value, rv.node)
                            if tab2 is not None:
                                mp = dict(tab2)
        res_.append((fname, mp, c))
    return res_


def check_overlays(prog: Program, res: Result) -> None:
    K = "StereoCondensedReactionGraph"
    for meth, role in (("reactant", "BROKEN"), ("product", "FORMED"),
                       ("_ts", "FLEETING")):
        fi = prog.resolve_method(K, meth)
        for slot in ("_atom_stereo_change", "_bond_stereo_change"):
            loops = [n for n in ast.walk(fi.node) if isinstance(n, ast.For)
                     and f"self.{slot}" in norm(n.iter)]
            inst = f"SCRG.{meth}: overlays {slot}[Change.{role}]"
            if not loops and slot in utext(fi.node):
                res.unrecognised("R-ROLE-TABLE", inst, fi.loc(),
                                 f"{slot} is read, but not by a `for` loop "
                                 "over it")
                continue
            if not loops:
                res.bad("R-ROLE-TABLE", f"{fi.short}: {slot} overlay missing",
                        fi.loc(), f"{inst}: no loop over self.{slot}",
                        instance=inst)
                continue
            t = utext(loops[0])
            used = {r for r in ("FORMED", "BROKEN", "FLEETING")
                    if f"Change.{r}" in t}
            kind = "atom" if "atom" in slot else "bond"
            writes = (f"set_{kind}_stereo(" in t) or (
                f"._{kind}_stereo[" in t)
            if used == {role} and writes:
                res.ok("R-ROLE-TABLE", inst, fi.loc(loops[0]))
            else:
                res.bad("R-ROLE-TABLE", f"{fi.short}: {slot} overlay {sorted(used)}",
                        fi.loc(loops[0]), f"{inst}: the loop uses roles "
                        f"{sorted(used)} / writes descriptor: {writes}",
                        instance=inst)
        # static stereo is the base layer
        t = utext(fi.node)
        inst = f"SCRG.{meth}: static descriptors are the base layer"
        if "deepcopy(self._atom_stereo)" in t and "deepcopy(self._bond_stereo)" in t:
            res.ok("R-ROLE-TABLE", inst, fi.loc())
        else:
            res.bad("R-ROLE-TABLE", f"{fi.short}: base layer", fi.loc(),
                    f"{inst}: static atom/bond stereo not copied",
                    instance=inst)
    # reverse inside the change dictionaries
    rv = prog.resolve_method(K, "reverse_reaction")
    want = {"fleeting": "FLEETING", "broken": "FORMED", "formed": "BROKEN"}
    n = 0
    for node in ast.walk(rv.node):
        if isinstance(node, ast.Dict) and {norm(k).strip("'") for k in node.keys
                                           } == set(want):
            n += 1
            for k, v in zip(node.keys, node.values):
                kw = norm(k).strip("'")
                inst = f"SCRG.reverse_reaction dict {n}: {kw} <- Change.{want[kw]}"
                if norm(v).endswith(f"[Change.{want[kw]}]"):
                    res.ok("R-ROLE-TABLE", inst, rv.loc(node))
                else:
                    res.bad("R-ROLE-TABLE",
                            f"{rv.short}: dict {n} {kw} <- {norm(v)}",
                            rv.loc(node), f"{inst}: found `{norm(v)}`",
                            instance=inst)
    if n == 0 and "stereo_change" in utext(rv.node):
        # the swap written as a table driven spread:
        #   set_x_stereo_change(**{TABLE[c]: s for c, s in d.items()})
        #   set_x_stereo_change(**{kw: d[c] for c, kw in TABLE.items()})
        maps = _role_spreads(prog, rv)
        if not maps:
            res.unrecognised("R-ROLE-TABLE", "SCRG.reverse_reaction rebuilds "
                             "the change dictionaries", rv.loc(),
                             "no {fleeting, broken, formed} dictionary "
                             "literal and no table driven spread of the roles")
        want_map = {"FLEETING": "fleeting", "FORMED": "broken",
                    "BROKEN": "formed"}
        for setter, mp, node in maps:
            inst = f"SCRG.reverse_reaction: {setter} receives the swapped roles"
            if mp is None:
                res.unrecognised("R-ROLE-TABLE", inst, rv.loc(node),
                                 f"`{norm(node, 80)}` not understood")
            elif mp == want_map:
                res.ok("R-ROLE-TABLE", inst, rv.loc(node))
            else:
                res.bad("R-ROLE-TABLE", f"{rv.short}: {setter} {mp}",
                        rv.loc(node), f"{inst}: the call passes "
                        f"{ {k: v for k, v in sorted(mp.items())} } (role of "
                        "the stored descriptor -> keyword), expected "
                        f"{want_map}: descriptors stay on their old side",
                        instance=inst)
        seen = {m_[0] for m_ in maps}
        if maps and seen != {"set_atom_stereo_change",
                             "set_bond_stereo_change"}:
            res.bad("R-ROLE-TABLE", f"{rv.short}: change dictionaries",
                    rv.loc(), "SCRG.reverse_reaction re-stores only "
                    f"{sorted(seen)} with swapped roles")
    elif n < 2:
        res.bad("R-ROLE-TABLE", f"{rv.short}: change dictionaries",
                rv.loc(), "SCRG.reverse_reaction does not rebuild both the "
                f"atom and the bond change dictionaries (found {n})")
    t = utext(rv.node)
    handled = {kind: (f"_{kind}_stereo_change" in t
                      and f"set_{kind}_stereo_change(" in t)
               for kind in ("atom", "bond")}
    for kind in ("atom", "bond"):
        inst = f"SCRG.reverse_reaction re-stores {kind} changes"
        other = "bond" if kind == "atom" else "atom"
        if handled[kind]:
            res.ok("R-ROLE-TABLE", inst, rv.loc())
        elif handled[other]:
            # sibling disagreement: one table is reversed, the other is not
            res.bad("R-ROLE-TABLE", f"{rv.short}: {kind} changes not reversed",
                    rv.loc(), f"{inst}: the {other} stereo changes are "
                    f"re-stored with swapped roles but the {kind} stereo "
                    "changes are not: reversed reactions keep the forward "
                    f"{kind} stereo", instance=inst)
        else:
            res.unrecognised("R-ROLE-TABLE", inst, rv.loc(),
                             "loop over the change table / setter call not "
                             "recognised")


def check_from_graphs_stereo(prog: Program, res: Result, tier: str) -> None:
    res.rule("R-FG-TABLE", "for every scenario of (reactant, product, TS) "
             "descriptors at one centre (absent or one of three distinct "
             "descriptors: 64 atom scenarios; 25 bond scenarios over the bond's "
             "role: unchanged 16, formed 4, broken 4, fleeting 1) the entries "
             "recorded by from_graphs satisfy overlay(static, broken) = "
             "reactant descriptor, overlay(static, formed) = product "
             "descriptor, and a TS descriptor differing from both is "
             "recorded as fleeting")
    res.rule("R-FG-KW", "formed= derives from the product graph, broken= "
             "from the reactant graph, fleeting= from the TS graph")
    K = "StereoCondensedReactionGraph"
    fi = prog.resolve_method(K, "from_graphs")
    # role names: the graph under construction (returned), the loop variables
    from ..iso import rename_locals
    rets_ = {norm(r_.value) for r_ in ast.walk(fi.node)
             if isinstance(r_, ast.Return) and isinstance(r_.value, ast.Name)}
    if len(rets_) == 1:
        fi = rename_locals(fi, {rets_.pop(): "scrg"})
    BOND_ITERS = ("scrg.bonds", "scrg.bonds_with_attributes.items()",
                  "scrg._bond_attrs.items()", "scrg._bond_attrs")
    table = {}
    for n in ast.walk(fi.node):
        if isinstance(n, ast.For) and isinstance(n.target, ast.Name):
            if norm(n.iter) == "scrg.atoms":
                table[n.target.id] = "atom"
            elif norm(n.iter) in BOND_ITERS:
                table[n.target.id] = "bond"
        elif isinstance(n, ast.For) and isinstance(n.target, ast.Tuple) and \
                norm(n.iter) in BOND_ITERS and len(n.target.elts) == 2 and \
                all(isinstance(x, ast.Name) for x in n.target.elts):
            table[n.target.elts[0].id] = "bond"
            table[n.target.elts[1].id] = "battrs"
    fi = rename_locals(fi, table)
    vals = (None, "A", "B", "C")
    for kind in ("atom", "bond"):
        loops = [n for n in ast.walk(fi.node) if isinstance(n, ast.For)
                 and (norm(n.iter) == "scrg.atoms" if kind == "atom"
                      else norm(n.iter) in BOND_ITERS)]
        if not loops:
            raise AnalysisError(f"from_graphs: {kind} loop not found")
        body = loops[0].body
        if kind == "atom":
            scen = [(r, p, ts, None) for r, p, ts in
                    itertools.product(vals, vals, vals)]
        else:
            # the bond's role decides on which sides it exists at all
            scen = [(r, p, None, None) for r, p in
                    itertools.product(vals, vals)]
            scen += [(None, p, None, "FORMED") for p in vals]
            scen += [(r, None, None, "BROKEN") for r in vals]
            scen += [(None, None, None, "FLEETING")]
        for r, p, ts, role in scen:
            raised: list[str] = []

            def oracle(e, pe, env, r=r, p=p, ts=ts):
                v = oracle0(e, pe, env, r, p, ts)
                return NONE_VALUE if v == "<None>" else v

            def oracle0(e, pe, env, r, p, ts, role=role, raised=raised):
                t = norm(e)
                if kind == "bond":
                    in_r = role in (None, "BROKEN")
                    in_p = role in (None, "FORMED")
                    if t in ("'reaction' in battrs",
                             "battrs.get('reaction') is not None",
                             "battrs.get('reaction', None) is not None"):
                        return role is not None
                    if t in ("'reaction' not in battrs",
                             "battrs.get('reaction') is None",
                             "battrs.get('reaction', None) is None"):
                        return role is None
                    if t in ("bond in reactant_graph.bonds",
                             "reactant_graph.has_bond(*bond)"):
                        return in_r
                    if t in ("bond in product_graph.bonds",
                             "product_graph.has_bond(*bond)"):
                        return in_p
                    if t == "reactant_graph.get_bond_stereo(bond)" and \
                            not in_r:
                        raised.append(t)
                    if t == "product_graph.get_bond_stereo(bond)" and \
                            not in_p:
                        raised.append(t)
                r, p, ts = (("<None>" if x is None else x) for x in (r, p, ts))
                if kind == "atom":
                    if t == "reactant_graph.get_atom_stereo(atom)":
                        return r
                    if t == "product_graph.get_atom_stereo(atom)":
                        return p
                    if t == "ts_graph.get_atom_stereo(atom)":
                        return ts
                    if t == "ts_graph":
                        return True
                else:
                    if t == "reactant_graph.get_bond_stereo(bond)":
                        return r
                    if t == "product_graph.get_bond_stereo(bond)":
                        return p
                return None
            pe = PE(as_func(body), {}, oracle=oracle)
            outs = pe.run()
            inst = f"from_graphs[{kind}] r={r} p={p} ts={ts}" + (
                f" role={role}" if role else "")
            if raised:
                res.bad("R-FG-TABLE", f"{inst}: lookup of an absent bond",
                        fi.loc(loops[0]), f"{inst}: `{raised[0]}` is "
                        "evaluated for a bond that does not exist on that "
                        "side (get_bond_stereo raises ValueError)",
                        instance=inst)
                continue
            if len(outs) != 1:
                res.error(f"R-FG-TABLE {inst}: {len(outs)} paths (undecided "
                          "tests)")
                continue
            o = outs[0]
            static = broken = formed = fleeting = None
            bad_call = None
            for c in o.calls:
                if not isinstance(c, ast.Call):
                    continue
                cn = (call_name(c) or "").split(".")[-1]
                if cn == f"set_{kind}_stereo" and c.args:
                    static = pe.ev(c.args[0], o.env)
                elif cn == f"set_{kind}_stereo_change":
                    for k in c.keywords:
                        v = pe.ev(k.value, o.env)
                        if k.arg == "broken":
                            broken = v
                        elif k.arg == "formed":
                            formed = v
                        elif k.arg == "fleeting":
                            fleeting = v
                elif cn.startswith("set_"):
                    bad_call = cn
            if any(x is UNKNOWN for x in (static, broken, formed, fleeting)):
                res.error(f"R-FG-TABLE {inst}: argument not evaluable")
                continue
            rr = broken if broken is not None else static
            pp = formed if formed is not None else static
            problems = []
            if rr != r:
                problems.append(f"reactant() would show {rr}, original {r}")
            if pp != p:
                problems.append(f"product() would show {pp}, original {p}")
            if ts is not None and ts != r and ts != p and fleeting != ts:
                problems.append(f"TS descriptor {ts} differs from both sides "
                                f"but fleeting={fleeting}")
            if fleeting is not None and fleeting != ts:
                problems.append(f"fleeting={fleeting} but TS descriptor is {ts}")
            # a change entry needs at least one descriptor (setter raises)
            if problems:
                res.bad("R-FG-TABLE", f"from_graphs[{kind}] r={r} p={p} ts={ts}",
                        fi.loc(loops[0]), f"{inst}: recorded static={static} "
                        f"broken={broken} formed={formed} fleeting={fleeting}: "
                        + "; ".join(problems), instance=inst)
            else:
                res.ok("R-FG-TABLE", inst, fi.loc(loops[0]))
    # keyword provenance
    du = DefUse(fi.node)
    src = {"formed": "product_graph", "broken": "reactant_graph",
           "fleeting": "ts_graph"}
    n = 0
    for node in ast.walk(fi.node):
        if isinstance(node, ast.Call) and (call_name(node) or "").endswith(
                ("set_atom_stereo_change", "set_bond_stereo_change")):
            for k in node.keywords:
                if k.arg not in src:
                    continue
                n += 1
                names = {n.id for n in ast.walk(k.value)
                         if isinstance(n, ast.Name)}
                for nm in list(names):
                    for d in du.defs.get(nm, ()):
                        names |= {x.id for x in ast.walk(d)
                                  if isinstance(x, ast.Name)}
                graphs = {g for g in src.values() if g in names}
                inst = f"from_graphs: {norm(node.func)}({k.arg}={norm(k.value)})"
                # locals are defined twice (atom loop, bond loop): the name
                # must be fed ONLY by the graph its keyword stands for
                if graphs == {src[k.arg]}:
                    res.ok("R-FG-KW", inst + f" line {node.lineno}",
                           fi.loc(node))
                else:
                    res.bad("R-FG-KW", f"from_graphs: {k.arg}={norm(k.value)} "
                            f"from {sorted(graphs)}", fi.loc(node),
                            f"{inst}: `{norm(k.value)}` derives from "
                            f"{sorted(graphs)}, expected {src[k.arg]}",
                            instance=inst + f" line {node.lineno}")
    res.need("R-FG-KW", n, 10, "keyword arguments")


def check_reverse_total(prog: Program, res: Result) -> None:
    res.rule("R-REVERSE-TOTAL", "reverse_reaction has no exit that skips a "
             "swap loop: every return lies behind the loops over the bond "
             "roles / the stereo change tables, or its condition is the "
             "emptiness of exactly the tables the skipped loops range over")
    for K, marks in (("CondensedReactionGraph", ("reaction",)),
                     ("StereoCondensedReactionGraph", ("stereo_change",))):
        rv = prog.classes[K].methods.get("reverse_reaction")
        if rv is None:
            continue
        body = rv.node.body
        loops = [(i, st) for i, st in enumerate(body)
                 if isinstance(st, ast.For)
                 and any(m in utext(st) for m in marks)]
        inst = f"{K}.reverse_reaction: no exit skips a swap loop"
        if not loops:
            res.unrecognised("R-REVERSE-TOTAL", inst, rv.loc(),
                             "swap loops not found at statement level")
            continue
        last = loops[-1][0]
        bad = unk = None
        for i, st in enumerate(body[:last]):
            for n in ast.walk(st):
                if not isinstance(n, (ast.Return, ast.Raise)) or \
                        isinstance(n, ast.Raise):
                    continue
                # the guard(s) this return sits under
                tests = []
                p = getattr(n, "_parent", None)
                while p is not None and p is not rv.node:
                    if isinstance(p, ast.If):
                        tests.append(p.test)
                    p = getattr(p, "_parent", None)
                skipped = [l for j, l in loops if j > i]
                tables = {norm(l.iter).split(".items")[0] for l in skipped}
                ttxt = " and ".join(norm(t, 200) for t in tests)
                empties = set(re.findall(r"not ([\w.]+)", ttxt))
                if tests and tables and tables <= empties and \
                        " or " not in ttxt:
                    continue            # returns only when nothing to swap
                if any(m in ttxt for m in marks) or not tests:
                    unk = (n, ttxt)
                else:
                    bad = (n, ttxt, tables)
        if bad:
            n, ttxt, tables = bad
            res.bad("R-REVERSE-TOTAL", f"{K}.reverse_reaction early exit",
                    rv.loc(n), f"{inst}: `return` under `{ttxt}` leaves "
                    f"before the loop(s) over {sorted(tables)}; the condition "
                    "says nothing about those tables, so for such inputs the "
                    "stereo changes / roles keep their forward direction",
                    instance=inst)
        elif unk:
            res.unrecognised("R-REVERSE-TOTAL", inst, rv.loc(unk[0]),
                             f"early exit under `{unk[1]}` not understood")
        else:
            res.ok("R-REVERSE-TOTAL", inst, rv.loc())


def check_reverse_pure(prog: Program, res: Result) -> None:
    from ..absint import Interp, In
    res.rule("R-DERIVE-PURE", "reverse_reaction / reactant / product have no "
             "write effect on the graph they are called on (ownership "
             "interpreter over the resolved call chain): the reversed graph "
             "is built on a copy whose change dictionaries are its own, "
             "otherwise reversing rewrites the original as well and "
             "`g.reverse_reaction()` changes what `g.reactant()` returns")
    for K in ("CondensedReactionGraph", "StereoCondensedReactionGraph"):
        for meth in ("reverse_reaction", "reactant", "product"):
            fi = prog.resolve_method(K, meth)
            if fi is None:
                continue
            I = Interp(prog)
            out = I.call_method(K, meth, I.input(K, "self"))
            inst = f"{K}.{meth} does not modify self"
            if isinstance(out, In):
                res.bad("R-DERIVE-PURE", f"{K}.{meth} returns self", fi.loc(),
                        f"{inst}: returns its input", instance=inst)
            elif I.events:
                ev = I.events[0]
                res.bad("R-DERIVE-PURE", f"{ev.func}: {ev.stmt}", ev.where,
                        f"{inst}: {ev.kind} on self.{ev.slot} at "
                        f"`{ev.stmt}`", instance=inst)
            else:
                res.ok("R-DERIVE-PURE", inst, fi.loc())


def check_descriptor_compare(prog: Program, res: Result) -> None:
    """R-DESC-CMP: from_graphs decides "same descriptor in two structures" by
    descriptor equality.  A verdict that is the comparison of the two atom
    COLLECTIONS (`return set(a.atoms) == set(b.atoms)`) equates different
    arrangements over one atom set (E / Z, the three square planar ones).  A
    pre-filter (`if set(..) != set(..): return False`) is not a verdict."""
    res.rule("R-DESC-CMP", "descriptors of two structures are compared as "
             "descriptors in from_graphs and the helpers it calls; the "
             "comparison of their atom sets is never the verdict")
    K = "StereoCondensedReactionGraph"
    fi = prog.resolve_method(K, "from_graphs")
    scopes = [fi]
    for c in ast.walk(fi.node):
        if isinstance(c, ast.Call) and isinstance(c.func, ast.Name):
            h = prog.functions.get(f"{fi.module.name}:{c.func.id}")
            if h is not None and h not in scopes:
                scopes.append(h)

    def atom_collections(cmp_):
        if not (isinstance(cmp_, ast.Compare) and len(cmp_.ops) == 1
                and isinstance(cmp_.ops[0], ast.Eq)):
            return False
        sides = [cmp_.left, cmp_.comparators[0]]
        return all(isinstance(x, ast.Call) and call_name(x) in (
            "set", "frozenset", "sorted", "Counter") and len(x.args) == 1
            and norm(x.args[0]).endswith(".atoms") for x in sides) and \
            norm(sides[0].args[0]) != norm(sides[1].args[0])

    n = 0
    for sc in scopes:
        for node in ast.walk(sc.node):
            verdict = None
            if isinstance(node, ast.Return) and node.value is not None and \
                    atom_collections(node.value) and sc is not fi:
                verdict = node.value
            elif isinstance(node, ast.If) and atom_collections(node.test) \
                    and any(isinstance(c, ast.Call) and isinstance(
                        c.func, ast.Attribute) and c.func.attr in (
                        "set_atom_stereo", "set_bond_stereo")
                        for st in node.body for c in ast.walk(st)):
                verdict = node.test
            if verdict is None:
                continue
            # descriptor equality itself is the comparison of the atom sets
            # when a parity is unspecified: a verdict taken under a guard
            # whose every disjunct is `<x>.parity is None` is that clause
            from ..core import ancestors
            guards = []
            child = node
            for a in ancestors(node):
                if isinstance(a, ast.If) and any(child is b for b in a.body):
                    guards.append(a.test)
                child = a
                if a is sc.node:
                    break

            def wildcard(t):
                parts = t.values if isinstance(t, ast.BoolOp) and isinstance(
                    t.op, ast.Or) else [t]
                return all(re.fullmatch(r"[\w.]+\.parity is None", norm(x))
                           for x in parts)
            if any(wildcard(t) for t in guards):
                res.ok("R-DESC-CMP", f"{sc.short}: atom-set verdict only for "
                       "an unspecified parity", sc.loc(node))
                continue
            if not any(".parity" in norm(t) for t in guards) and \
                    ".parity" in utext(sc.node):
                res.unrecognised("R-DESC-CMP", f"{sc.short}: atom-set verdict",
                                 sc.loc(node), f"`{norm(verdict, 70)}`: the "
                                 "parities it is taken for are decided by "
                                 "earlier exits of the function")
                n += 1
                continue
            n += 1
            res.bad("R-DESC-CMP", f"{sc.short}: {norm(verdict, 70)}",
                    sc.loc(node), f"{sc.short}: `{norm(verdict, 80)}` is the "
                    "verdict \"same descriptor\": two different arrangements "
                    "over one atom set (E and Z of a double bond, the three "
                    "square planar arrangements) are recorded as unchanged, "
                    "the reaction graph loses the stereo change",
                    context=["<decided>"])
    for sc in scopes:
        res.ok("R-DESC-CMP", f"{sc.short}: no atom-set verdict", sc.loc()) \
            if n == 0 else None


def run(prog: Program, res: Result, tier: str) -> None:
    check_descriptor_compare(prog, res)
    check_reverse_total(prog, res)
    check_reverse_pure(prog, res)
    from .common import check_setter_once
    K_ = prog.classes["StereoCondensedReactionGraph"]
    check_setter_once(prog, res, [K_.methods.get(m) for m in (
        "from_graphs", "reverse_reaction", "reactant", "product", "_ts")],
        "reaction graph construction / reversal")
    res.trusted += ["sa/pe.py constant folding; descriptors modelled as "
                    "tokens that compare by identity of the arrangement",
                    "setter semantics: set_*_stereo_change replaces the entry"]
    check_bonds(prog, res)
    check_overlays(prog, res)
    check_from_graphs_stereo(prog, res, tier)
    res.exhaustive = True
