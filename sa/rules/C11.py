"""C11 -- relabelling is a faithful, reversible renaming.

R-RENAME-TOTAL   the mapping parameter is only ever used as the total
                 renaming  rho(x) = mapping.get(x, x)
R-RENAME-ALL     every atom identifier drawn from self's containers (keys,
                 neighbour elements, bond members, descriptor tuples, change
                 keys) is used only through rho when the new containers are
                 built
R-SLOT-COVER     every slot of class K is rebuilt (copy=True: on the new
                 object; copy=False: rebound on self)
R-INPLACE-SELF   copy=False returns self; copy=True returns a new object and
                 has no write effect on self
"""
from __future__ import annotations

import ast

from ..absint import IMM, Const, In, Interp, Obj
from ..core import (GRAPH_CLASSES, SHORT, AnalysisError, Program, ancestors,
                    norm, parent)
from ..report import Result
from .C06 import chain_of

LEVEL_TEXT = (
    "static identifier-flow analysis of the resolved relabel_atoms chain per "
    "class: loop variables are typed from the slot schemas (id / id "
    "collection / descriptor / change dict) and every identifier must pass "
    "through the total renaming mapping.get(x, x); slot coverage and the "
    "copy / in-place contract are decided by abstract interpretation. That "
    "the inverse mapping undoes the renaming follows for injective maps from "
    "the uniform rho and is not checked as behaviour.")

# slot -> (kind of key, kind of value)
SCHEMA = {
    "_atom_attrs": ("ID", "ATTRS"),
    "_neighbors": ("ID", "IDS"),
    "_bond_attrs": ("IDS", "ATTRS"),
    "_atom_stereo": ("ID", "STEREO"),
    "_bond_stereo": ("IDS", "STEREO"),
    "_atom_stereo_change": ("ID", "CHANGES"),
    "_bond_stereo_change": ("IDS", "CHANGES"),
}


class Kinds:
    """Kinds of loop variables in one function, by fixpoint over the
    for/comprehension headers."""

    def __init__(self, fi, seed: dict[str, str] | None = None):
        self.fi = fi
        self.selfn = fi.params()[0] if fi.params() else "self"
        self.kind: dict[str, str] = {}
        self.scopes: dict[str, list] = {}     # name -> [(scope node, kind)]
        for name, kind in (seed or {}).items():
            self.kind[name] = kind
            self.scopes[name] = [(fi.node, kind)]
        headers = []
        for node in ast.walk(fi.node):
            if isinstance(node, ast.For):
                headers.append((node.target, node.iter, fi.node))
            elif isinstance(node, ast.comprehension):
                headers.append((node.target, node.iter, parent(node)))
        for _ in range(4):
            for target, it, scope in headers:
                self.cur_scope = scope
                self.bind(target, it)

    def kind_at(self, name_node: ast.Name):
        """Kind of the innermost binding whose scope contains the use."""
        cands = self.scopes.get(name_node.id)
        if not cands:
            return None
        anc = [name_node] + list(ancestors(name_node))
        best = None
        for scope, kind in cands:
            if scope in anc:
                idx = anc.index(scope)
                if best is None or idx < best[0]:
                    best = (idx, kind)
        return best[1] if best else None

    def expr_kind(self, e: ast.AST):
        """kind of the *elements* produced by iterating e (or (k, v))."""
        core = e
        while isinstance(core, ast.Call) and norm(core.func) in (
                "tuple", "list", "set", "frozenset", "sorted", "iter",
                "reversed") and len(core.args) == 1:
            core = core.args[0]
        if isinstance(core, ast.Call) and isinstance(core.func, ast.Attribute) \
                and core.func.attr in ("items", "keys", "values", "copy") \
                and not core.args:
            base = core.func.value
            view = core.func.attr
            if isinstance(base, ast.Call) and isinstance(
                    base.func, ast.Attribute) and base.func.attr == "copy":
                base = base.func.value
            kv = self.container(base)
            if kv:
                if view == "items":
                    return ("PAIR", kv[0], kv[1])
                if view == "values":
                    return kv[1]
                return kv[0]
            return None
        kv = self.container(core)
        if kv:
            return kv[0]
        if isinstance(core, ast.Attribute) and core.attr == "atoms" and \
                self.value_kind(core.value) == "STEREO":
            return "ID"
        if isinstance(core, ast.Attribute) and core.attr == "bond" and \
                self.value_kind(core.value) == "STEREO":
            return "ID"
        if isinstance(core, ast.Name) and self.kind.get(core.id) == "IDS":
            return "ID"
        return None

    def container(self, base: ast.AST):
        if isinstance(base, ast.Attribute) and norm(base.value) == self.selfn:
            slot = base.attr
            alias = {"atoms_with_attributes": "_atom_attrs",
                     "bonds_with_attributes": "_bond_attrs",
                     "neighbors": "_neighbors", "atom_stereo": "_atom_stereo",
                     "bond_stereo": "_bond_stereo",
                     "atom_stereo_changes": "_atom_stereo_change",
                     "bond_stereo_changes": "_bond_stereo_change",
                     "atoms": "_atom_attrs", "bonds": "_bond_attrs"}
            slot = alias.get(slot, slot)
            return SCHEMA.get(slot)
        if isinstance(base, ast.Name) and self.kind.get(base.id) == "CHANGES":
            return ("ROLE", "STEREO")
        return None

    def value_kind(self, e: ast.AST):
        if isinstance(e, ast.Name):
            return self.kind.get(e.id)
        return None

    def bind(self, target: ast.AST, it: ast.AST) -> None:
        k = self.expr_kind(it)
        if k is None:
            return
        if isinstance(k, tuple) and k[0] == "PAIR":
            if isinstance(target, ast.Tuple) and len(target.elts) == 2:
                for t, kk in zip(target.elts, k[1:]):
                    if isinstance(t, ast.Name):
                        self._set(t.id, kk)
            return
        if isinstance(target, ast.Name) and isinstance(k, str):
            self._set(target.id, k)

    def _set(self, name: str, kind: str) -> None:
        self.kind[name] = kind
        lst = self.scopes.setdefault(name, [])
        if not any(sc is self.cur_scope for sc, _ in lst):
            lst.append((self.cur_scope, kind))


def is_rho(call: ast.AST, mapping: str) -> str | None:
    """mapping.get(x, x) -> text of x"""
    if isinstance(call, ast.Call) and norm(call.func) == f"{mapping}.get" \
            and len(call.args) == 2 and not call.keywords and norm(
            call.args[0]) == norm(call.args[1]):
        return norm(call.args[0])
    return None


def run(prog: Program, res: Result, tier: str) -> None:
    res.rule("R-RENAME-TOTAL", "the mapping parameter of relabel_atoms is "
             "used only as mapping.get(x, x) (or handed on to the next "
             "relabel_atoms in the chain); mapping[x] / mapping.get(x) are "
             "partial")
    res.rule("R-RENAME-ALL", "a loop variable holding an atom identifier of "
             "self (key, neighbour, bond member, descriptor atom, change key) "
             "is used only as the argument of mapping.get(v, v), in None "
             "tests, or as the container being iterated")
    res.rule("R-SLOT-COVER[relabel]", "every slot of K is rebuilt by the "
             "chain: assigned on the new object (copy=True) / rebound on "
             "self (copy=False) inside a relabel_atoms implementation")
    res.rule("R-REBUILD-SOURCE", "each slot assigned in relabel_atoms is "
             "computed from the same slot of self (the neighbour table from "
             "the neighbour table, so isolated atoms keep their entry)")
    res.rule("R-INPLACE-SELF", "copy=False returns self, copy=True returns a "
             "new object and has no write effect on self")
    res.trusted += ["slot schema table (which positions of which slot hold "
                    "atom identifiers)", "sa/absint.py"]
    seen_funcs = set()
    n_flows = 0
    for K in GRAPH_CLASSES:
        chain = chain_of(prog, K, "relabel_atoms")
        if not chain:
            raise AnalysisError(f"{K}.relabel_atoms does not resolve")
        def check_body(fi, mapping, seed=None):
            nonlocal n_flows
            kinds = Kinds(fi, seed)
            # R-RENAME-TOTAL ------------------------------------------------
            for node in ast.walk(fi.node):
                if isinstance(node, ast.Name) and node.id == mapping and \
                        isinstance(node.ctx, ast.Load):
                    p = parent(node)
                    pp = parent(p) if p is not None else None
                    inst = f"{fi.short}: {norm(pp if isinstance(pp, ast.Call) else p, 80)}"
                    if isinstance(p, ast.Attribute) and p.attr == "get" and \
                            isinstance(pp, ast.Call) and is_rho(pp, mapping):
                        res.ok("R-RENAME-TOTAL", inst, fi.loc(node))
                    elif isinstance(p, ast.Call) and isinstance(
                            p.func, ast.Attribute) and p.func.attr == \
                            "relabel_atoms":
                        res.ok("R-RENAME-TOTAL", inst, fi.loc(node),
                               "handed to the next relabel_atoms")
                    elif isinstance(p, ast.keyword) and isinstance(
                            parent(p), ast.Call) and norm(
                            parent(p).func).endswith("relabel_atoms"):
                        res.ok("R-RENAME-TOTAL", inst, fi.loc(node),
                               "handed to the next relabel_atoms")
                    elif isinstance(p, ast.Call) and isinstance(
                            p.func, ast.Name) and prog.has_fn(
                            f"{fi.module.name}:{p.func.id}") and node in p.args:
                        # mapping handed to a helper: analyse the helper
                        callee = prog.fn(f"{fi.module.name}:{p.func.id}")
                        cparams = callee.params()
                        idx = p.args.index(node)
                        if idx < len(cparams):
                            cseed = {}
                            for a, cp in zip(p.args, cparams):
                                if isinstance(a, ast.Name):
                                    k = kinds.kind_at(a)
                                    if k:
                                        cseed[cp] = k
                            if callee.qual not in seen_funcs:
                                seen_funcs.add(callee.qual)
                                check_body(callee, cparams[idx], cseed)
                            res.ok("R-RENAME-TOTAL", inst, fi.loc(node),
                                   f"handed to helper {callee.short}")
                        else:
                            res.unrecognised("R-RENAME-TOTAL", inst,
                                             fi.loc(node), "helper signature")
                    else:
                        ctx = pp if isinstance(p, ast.Attribute) else p
                        res.bad("R-RENAME-TOTAL",
                                f"{fi.short}: {norm(ctx, 80)}", fi.loc(node),
                                f"{fi.short}: `{norm(ctx, 80)}` uses the "
                                "mapping partially (atoms missing from the "
                                "mapping must stay unchanged)", instance=inst)
            # R-RENAME-ALL --------------------------------------------------
            for node in ast.walk(fi.node):
                if not (isinstance(node, ast.Name) and isinstance(
                        node.ctx, ast.Load)):
                    continue
                k = kinds.kind_at(node)
                if k not in ("ID", "IDS"):
                    continue
                p = parent(node)
                n_flows += 1
                inst = f"{fi.short}: {k} `{node.id}` in `{norm(p, 70)}`"
                ok = False
                if k == "ID":
                    if isinstance(p, ast.Call) and is_rho(p, mapping):
                        ok = True
                    elif isinstance(p, ast.Compare) and all(isinstance(
                            o, (ast.Is, ast.IsNot)) for o in p.ops):
                        ok = True
                else:   # IDS: may only be iterated
                    if isinstance(p, (ast.For, ast.comprehension)) and \
                            p.iter is node:
                        ok = True
                    elif isinstance(p, ast.Call) and norm(p.func) in (
                            "tuple", "list", "sorted", "set", "frozenset") \
                            and isinstance(parent(p), (ast.For,
                                                       ast.comprehension)):
                        ok = True
                if ok:
                    res.ok("R-RENAME-ALL", inst, fi.loc(node))
                else:
                    res.bad("R-RENAME-ALL", inst, fi.loc(node),
                            f"{fi.short}: identifier variable `{node.id}` "
                            f"({k}) is used without the renaming in "
                            f"`{norm(p, 80)}`", instance=inst)
            # attributes of descriptor variables that hold identifiers
            for node in ast.walk(fi.node):
                if isinstance(node, ast.Attribute) and node.attr in (
                        "atoms", "bond", "central_atom") and isinstance(
                        node.value, ast.Name) and kinds.kind_at(
                        node.value) == "STEREO":
                    p = parent(node)
                    n_flows += 1
                    inst = f"{fi.short}: `{norm(node)}` in `{norm(p, 70)}`"
                    ok = False
                    if isinstance(p, (ast.For, ast.comprehension)) and \
                            p.iter is node:
                        ok = True
                    elif node.attr == "central_atom" and isinstance(
                            p, ast.Call) and is_rho(p, mapping):
                        ok = True
                    if ok:
                        res.ok("R-RENAME-ALL", inst, fi.loc(node))
                    else:
                        res.bad("R-RENAME-ALL", inst, fi.loc(node),
                                f"{fi.short}: the identifiers in "
                                f"`{norm(node)}` are used without the "
                                f"renaming in `{norm(p, 80)}`", instance=inst)
        for fi in chain:
            if fi.qual in seen_funcs:
                continue
            seen_funcs.add(fi.qual)
            params = fi.params()
            if len(params) < 2:
                raise AnalysisError(f"{fi.qual}: unexpected signature")
            check_body(fi, params[1])
        # R-REBUILD-SOURCE: each slot is rebuilt from the same slot of self
        from ..core import DefUse
        for fi in chain:
            du = DefUse(fi.node)
            selfn = fi.params()[0]
            for node in ast.walk(fi.node):
                if not isinstance(node, ast.Assign):
                    continue
                for t in node.targets:
                    if isinstance(t, ast.Attribute) and t.attr in SCHEMA:
                        reads = {n.attr for d in du.dep_nodes(node.value)
                                 for n in ast.walk(d)
                                 if isinstance(n, ast.Attribute)
                                 and norm(n.value) == selfn}
                        inst = (f"{SHORT[K]}: {fi.short} rebuilds {t.attr} "
                                f"from self.{t.attr}")
                        if t.attr in reads:
                            res.ok("R-REBUILD-SOURCE", inst, fi.loc(node))
                        else:
                            res.bad("R-REBUILD-SOURCE",
                                    f"{fi.short}: {norm(node, 80)}",
                                    fi.loc(node),
                                    f"{inst}: the new value does not derive "
                                    f"from self.{t.attr} (reads "
                                    f"{sorted(r for r in reads if r in SCHEMA)}"
                                    "): entries without a counterpart there "
                                    "(e.g. isolated atoms) are lost",
                                    instance=inst)
        # R-SLOT-COVER / R-INPLACE-SELF via abstract interpretation --------
        tag = SHORT[K]
        entry = chain[0]
        I = Interp(prog)
        out = I.call_method(K, "relabel_atoms", I.input(K, "self"),
                            [IMM, Const(True)])
        inst = f"{tag}.relabel_atoms(copy=True) returns a new object, self untouched"
        if not isinstance(out, Obj):
            res.bad("R-INPLACE-SELF", f"{K}.relabel_atoms(copy=True) result",
                    entry.loc(), f"{inst}: result is {out!r}", instance=inst)
        elif I.events:
            ev = I.events[0]
            res.bad("R-INPLACE-SELF", f"{ev.func}: {ev.stmt}", ev.where,
                    f"{inst}: {ev.kind} on self.{ev.slot} at `{ev.stmt}`",
                    instance=inst)
        else:
            res.ok("R-INPLACE-SELF", inst, entry.loc())
        if isinstance(out, Obj):
            for s in prog.all_slots(K):
                val = out.slots.get(s)
                why = getattr(val, "origin", "") or out.why.get(s, "")
                inst = f"{tag}.relabel_atoms(copy=True) rebuilds {s}"
                if "relabel_atoms:" in why:
                    res.ok("R-SLOT-COVER[relabel]", inst, entry.loc(), why)
                else:
                    res.bad("R-SLOT-COVER[relabel]",
                            f"{K}.relabel_atoms(copy=True): {s}", entry.loc(),
                            f"{inst}: the slot of the result was last "
                            f"assigned at `{why}`, not by relabel_atoms",
                            instance=inst)
        I = Interp(prog)
        out = I.call_method(K, "relabel_atoms", I.input(K, "self"),
                            [IMM, Const(False)])
        inst = f"{tag}.relabel_atoms(copy=False) returns self"
        if isinstance(out, In) and out.label == "self":
            res.ok("R-INPLACE-SELF", inst, entry.loc())
        else:
            res.bad("R-INPLACE-SELF", f"{K}.relabel_atoms(copy=False) result",
                    entry.loc(), f"{inst}: returns {out!r}", instance=inst)
        rebound = {ev.slot for ev in I.events if ev.kind == "rebind"
                   and ev.owner == "self"}
        for s in prog.all_slots(K):
            inst = f"{tag}.relabel_atoms(copy=False) rebinds {s}"
            if s in rebound:
                res.ok("R-SLOT-COVER[relabel]", inst, entry.loc())
            else:
                res.bad("R-SLOT-COVER[relabel]",
                        f"{K}.relabel_atoms(copy=False): {s}", entry.loc(),
                        f"{inst}: self.{s} keeps the old identifiers",
                        instance=inst)
    res.need("R-RENAME-ALL", n_flows, 14, "identifier flows")
    from ..derive import check_container_kinds
    check_container_kinds(prog, res, only=lambda l: l.startswith("relabel"))
    # copy=False: the containers rebound on self
    from ..derive import required_inner_class
    for K in GRAPH_CLASSES:
        I = Interp(prog)
        I.call_method(K, "relabel_atoms", I.input(K, "self"),
                      [IMM, Const(False)])
        for ev in I.events:
            if ev.kind != "rebind":
                continue
            need = required_inner_class(prog, K, ev.slot)
            if need is None:
                continue
            inst = f"{SHORT[K]}.relabel_atoms(copy=False) -> {ev.slot} holds {need}"
            badk = [k for k in ev.vkinds if k not in (need, "<src>", "<elem>")]
            if "<unknown>" in badk:
                res.unrecognised("R-CONTAINER-KIND", inst, ev.where,
                                 f"the containers stored in {ev.slot} come "
                                 "from a call the interpreter cannot follow")
            elif badk:
                res.bad("R-CONTAINER-KIND", f"{ev.func}: {ev.stmt} {badk}",
                        ev.where, f"{inst}: rebinds {ev.slot} to a container "
                        f"of {badk}", instance=inst)
            else:
                res.ok("R-CONTAINER-KIND", inst, ev.where)
