"""C02 -- equality never lies."""
from __future__ import annotations

import ast
from ..core import utext
import re

from .. import eqrules, hashrules, iso
from ..core import Program, norm
from ..report import Result

LEVEL_TEXT = (
    "static necessary conditions of soundness: symmetric class guard; the "
    "colour update keeps the atom's own colour (so labels determine the "
    "element); labels flow from the class's refiner seeded with atom_type; "
    "candidates are the intersection over ALL covered neighbours with "
    "correct filter polarity; stereo predicates compare mapped descriptors "
    "incl. placeholders and are registered for the right flags; bond roles "
    "are compared exactly in the search. Soundness of the pruning as an "
    "algorithm is not decided.")


def check_role_feas(prog: Program, res: Result) -> None:
    res.rule("R-ROLE-FEAS", "colour refinement is only a necessary filter "
             "(1-WL is incomplete), so on the reaction-graph path the search "
             "compares bond roles exactly: the role tables are built per "
             "graph from the bonds' `reaction` attribute, and the predicate "
             "rejects a pair (u, v) when the role of {u, n} differs from the "
             "role of {v, mapping[n]} for a covered neighbour n")
    mod = prog.module("algorithms.isomorphism")
    init = prog.fn("algorithms.isomorphism:_sanity_check_and_init")
    txt = utext(init.node)
    for s in ("1", "2"):
        inst = f"_sanity_check_and_init: g{s}_bond_changes from g{s}'s reaction attributes"
        loops = [n for n in ast.walk(init.node) if isinstance(n, ast.For)
                 and norm(n.iter) == f"g{s}.bonds_with_attributes.items()"]
        ok = False
        for l in loops:
            body = " ; ".join(norm(b, 200) for b in l.body)
            if re.search(rf"g{s}_bond_changes\[(\w+)\] = (\w+)\.get\('reaction'"
                         rf"(, None)?\)", body):
                ok = True
        if ok:
            res.ok("R-ROLE-FEAS", inst, init.loc())
        else:
            res.bad("R-ROLE-FEAS", f"{init.short}: g{s}_bond_changes",
                    init.loc(), f"{inst}: table not filled from "
                    f"g{s}.bonds_with_attributes", instance=inst)
    if not prog.has_fn("algorithms.isomorphism:_bond_change_feasibility"):
        res.bad("R-ROLE-FEAS",
                "algorithms.isomorphism: no predicate reads bond roles",
                "src/stereomolgraph/algorithms/isomorphism.py:291",
                "nothing in the search looks at a bond's role; reaction "
                "graphs whose colourings agree atom-wise compare equal "
                "although different bonds are formed and broken")
        return
    from ..iso import canon_iso
    fi = canon_iso(prog, "_bond_change_feasibility")
    u, v = fi.params()[:2]
    t = utext(fi.node)
    def req(cond, key, msg):
        inst = f"{fi.short}: {key}"
        if cond:
            res.ok("R-ROLE-FEAS", inst, fi.loc())
        else:
            res.bad("R-ROLE-FEAS", inst, fi.loc(), f"{fi.short}: {msg}",
                    instance=inst)
    loops = [n for n in ast.walk(fi.node) if isinstance(n, ast.For)
             and norm(n.iter) in (f"params.g1_nbrhd[{u}]", f"g1_nbrhd[{u}]")]
    if not loops and any(
            isinstance(n, ast.comprehension) and norm(n.iter) in (
                f"params.g1_nbrhd[{u}]", f"g1_nbrhd[{u}]")
            for n in ast.walk(fi.node)):
        # the same test written as any() / all() over a generator
        res.unrecognised("R-ROLE-FEAS", f"{fi.short}: predicate shape",
                         fi.loc(), "the neighbours of u are ranged over by a "
                         "comprehension, not by a for loop with early return")
        return
    req(bool(loops), "ranges over the neighbours of u",
        "does not loop over params.g1_nbrhd[u]")
    if loops:
        n = norm(loops[0].target)
        body = utext(loops[0])
        req(re.search(rf"if {n} in (state\.)?mapping", body) is not None,
            "restricted to covered neighbours",
            "not restricted to neighbours that are already mapped")
        req(f"frozenset(({u}, {n}))" in body or f"frozenset(({n}, {u}))" in body
            or f"Bond(({u}, {n}))" in body,
            "reads the role of {u, n} in graph 1",
            "does not read the role of the bond {u, n}")
        req(re.search(rf"frozenset\(\({v}, (state\.)?mapping\[{n}\]\)\)", body)
            is not None or re.search(
                rf"frozenset\(\((state\.)?mapping\[{n}\], {v}\)\)", body)
            is not None,
            "reads the role of {v, mapping[n]} in graph 2",
            "does not read the role of the bond {v, mapping[n]}")
        cmp_ = [c for c in ast.walk(loops[0]) if isinstance(c, ast.If)
                and isinstance(c.test, ast.Compare)
                and isinstance(c.test.ops[0], ast.NotEq)
                and any(isinstance(b, ast.Return) and norm(b.value) == "False"
                        for b in c.body)]
        req(bool(cmp_), "returns False on a role mismatch",
            "no `if role1 != role2: return False`")
    rets = [norm(r.value) for r in ast.walk(fi.node) if isinstance(r, ast.Return)]
    req(rets.count("True") == 1 and all(r in ("True", "False") for r in rets)
        and norm(fi.node.body[-1]) == "return True",
        "True only after all covered neighbours agree",
        f"returns {rets}")


def run(prog: Program, res: Result, tier: str) -> None:
    from .. import memo
    memo.report(prog, res)
    res.trusted += ["side seeds of sa/iso.py", "class table of flags / refiners"]
    eqrules.check_eq_class(prog, res)
    eqrules.check_eq_sym(prog, res)
    hashrules.check_own_colour(prog, res)
    hashrules.check_roles(prog, res)
    iso.check_side(prog, res)
    iso.check_candidates(prog, res)
    iso.check_feasibility(prog, res)
    iso.check_both_sides(prog, res)
    iso.check_state_shape(prog, res)
    iso.check_stereo_index(prog, res)
    iso.check_main_loop(prog, res)
    check_role_feas(prog, res)
    # "every stereodescriptor up to its symmetry": the symmetry tables the
    # descriptor comparison uses must be the rotation groups (C04's theorem)
    from . import C04
    from .common import merge_rules
    tmp = Result(res.prop)
    C04.check_tables(prog, tmp)
    merge_rules(res, tmp, ("T-ROT", "T-INV"))
