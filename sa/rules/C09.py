"""C09 -- any editing history leaves a coherent graph.

Induction over mutators: representation invariants established by __init__
and preserved by every mutator hold after any history; readers have no write
effect (including auto-vivification) on the graph.
"""
from __future__ import annotations

import ast
import re

from ..absint import IMM, ClassRef, Const, In, Interp
from ..core import (GRAPH_CLASSES, SHORT, AnalysisError, Program, ancestors,
                    call_name, norm)
from ..derive import operations
from ..report import Result
from .common import autoviv_sites

LEVEL_TEXT = (
    "static effect analysis: every public reader x receiver class is "
    "abstractly interpreted (calls inlined through the MRO, down into "
    "algorithms/ and the converters) and must have no store / delete / "
    "auto-vivifying lookup on any input graph; no slot is ever bound to an "
    "auto-creating container; the bond/neighbour/atom mutators are checked "
    "for the paired updates that preserve the representation invariants and "
    "remove_atom for purging every descriptor-bearing slot of the receiver "
    "class. Agreement of values with a reference model is not decided.")

MUTATORS = {
    "add_atom", "remove_atom", "set_atom_attribute", "delete_atom_attribute",
    "add_bond", "add_formed_bond", "add_broken_bond", "add_fleeting_bond",
    "remove_bond", "set_bond_attribute", "delete_bond_attribute",
    "bonds_from_bond_order_matrix", "set_atom_stereo", "delete_atom_stereo",
    "set_bond_stereo", "delete_bond_stereo", "set_atom_stereo_change",
    "set_bond_stereo_change", "delete_atom_stereo_change",
    "delete_bond_stereo_change", "__init__",
}
STEREO_SLOTS = ("_atom_stereo", "_bond_stereo", "_atom_stereo_change",
                "_bond_stereo_change")
# read-only API of the pinned tree (frozen): a method that is neither here nor
# in MUTATORS is new; it is analysed and listed in the evidence, but a write
# effect of a NEW method is not a violation (it may be a new mutator)
READERS = {
    "__eq__", "__hash__", "__len__", "__repr__", "__str__",
    "_ipython_display_", "_to_rdmol", "_ts", "active_atoms", "atom_stereo",
    "atom_stereo_changes", "atom_types", "atoms", "atoms_with_attributes",
    "bond_stereo", "bond_stereo_changes", "bonded_to", "bonds",
    "bonds_with_attributes", "connected_components", "connectivity_matrix",
    "copy", "enantiomer", "get_atom_attribute", "get_atom_attributes",
    "get_atom_stereo", "get_atom_stereo_change", "get_atom_type",
    "get_bond_attribute", "get_bond_attributes", "get_bond_stereo",
    "get_bond_stereo_change", "get_broken_bonds", "get_fleeting_bonds",
    "get_formed_bonds", "has_atom", "has_bond", "is_isomorphic",
    "is_stereo_valid", "n_atoms", "neighbors", "node_connected_component",
    "product", "reactant", "relabel_atoms", "reverse_reaction", "stereo",
    "subgraph", "to_rdmol",
}
READ_PREFIXES = ("get_", "has_", "is_", "to_", "n_", "_to_")


def reader_methods(prog: Program, K: str) -> list[str]:
    names: list[str] = []
    for c in prog.mro(K):
        for name, fi in prog.classes[c].methods.items():
            if name in MUTATORS or name in names:
                continue
            if fi.is_classmethod() or fi.is_staticmethod():
                continue
            names.append(name)
    return names


def graph_param(fi, pname: str) -> bool:
    a = fi.node.args
    for p in a.posonlyargs + a.args + a.kwonlyargs:
        if p.arg == pname:
            ann = norm(p.annotation) if p.annotation is not None else ""
            return ("Graph" in ann or "Self" in ann
                    or pname in ("other", "mol_graph", "graph"))
    return False


def check_readonly(prog: Program, res: Result) -> None:
    res.rule("R-READONLY", "a reader (every public method that is not a "
             "mutator, the dunder comparison/hash/str methods, the derivation "
             "operations, JSON export, the module functions they reach) has "
             "no write effect on any input graph: no store, rebind, delete, "
             "mutating container method or auto-vivifying lookup")
    n = 0
    for K in GRAPH_CLASSES:
        for name in reader_methods(prog, K):
            fi = prog.resolve_method(K, name)
            I = Interp(prog, max_depth=12)
            self_val = I.input(K, "self")
            args = []
            kwargs = {}
            params = fi.params()[1:]
            kwonly = {p.arg for p in fi.node.args.kwonlyargs}
            for p in params:
                if name == "relabel_atoms" and p == "copy":
                    v = Const(True)
                elif graph_param(fi, p):
                    v = I.input(K, p)
                else:
                    v = IMM
                if p in kwonly:
                    kwargs[p] = v
                else:
                    args.append(v)
            tag = f"{SHORT[K]}.{name}"
            try:
                if fi.is_property():
                    I.exec_func(fi, K, self_val, [], {})
                else:
                    I.exec_func(fi, K, self_val, args, kwargs)
            except RecursionError:
                res.error(f"R-READONLY {tag}: interpreter recursion")
                continue
            n += 1
            if name in READERS or name.startswith(READ_PREFIXES):
                report_events(res, I, tag, fi.loc())
            elif I.events:
                res.notes.append(f"new method {tag} (not in the frozen reader "
                                 f"list) writes {sorted({e.slot for e in I.events})}"
                                 ": treated as a mutator, not reported")
            else:
                res.ok("R-READONLY", tag + " (new method)", fi.loc())
    # derivation operations and module-level readers
    for label, K, G, thunk in operations(prog):
        I = Interp(prog, max_depth=12)
        thunk(I)
        tag = f"{SHORT[K]}.{label}" + (f"[arg {SHORT[G]}]" if G else "")
        n += 1
        report_events(res, I, tag, "")
    for K in GRAPH_CLASSES:
        for mod, fn in (("experimental", "JSONHandler.as_dict"),
                        ("experimental", "JSONHandler.json_serialize")):
            fi = prog.fn(f"{mod}:{fn}")
            I = Interp(prog, max_depth=12)
            g = I.input(K, "graph")
            if fi.is_classmethod():
                I.exec_func(fi, "JSONHandler", ClassRef("JSONHandler"), [g], {})
            else:
                I.exec_func(fi, None, None, [g], {})
            n += 1
            report_events(res, I, f"{fn}({SHORT[K]})", fi.loc())
    for K in ("StereoMolGraph", "StereoCondensedReactionGraph"):
        for fn in ("topological_symmetry_number", "generate_stereoisomers",
                   "generate_fleeting_stereoisomers"):
            if fn == "generate_fleeting_stereoisomers" and K == "StereoMolGraph":
                continue
            fi = prog.fn(f"experimental:{fn}")
            I = Interp(prog, max_depth=12)
            I.exec_func(fi, None, None, [I.input(K, "graph")], {})
            n += 1
            report_events(res, I, f"{fn}({SHORT[K]})", fi.loc())
    res.need("R-READONLY", n, 200, "reader x class instances")


def report_events(res: Result, I: Interp, tag: str, where: str) -> None:
    if not I.events:
        res.ok("R-READONLY", tag, where)
        return
    for ev in I.events:
        res.bad("R-READONLY", f"{ev.func}: {ev.stmt} [{ev.kind} {ev.slot}]",
                ev.where,
                f"{tag}: {ev.kind} on `{ev.owner}.{ev.slot}` at `{ev.stmt}` "
                f"in {ev.func}", path=list(ev.path),
                instance=f"{tag}: {ev.kind} {ev.owner}.{ev.slot} in {ev.func}")


def check_no_autoviv(prog: Program, res: Result) -> None:
    res.rule("R-NO-AUTOVIV", "no slot of a graph class is ever bound to an "
             "auto-creating container (defaultdict), so a lookup through a "
             "public view or a getter can never insert")
    for K in GRAPH_CLASSES:
        sites = autoviv_sites(prog, K)
        for slot in prog.all_slots(K):
            inst = f"{SHORT[K]}.{slot}"
            if slot in sites:
                for text, loc in sites[slot]:
                    res.bad("R-NO-AUTOVIV", f"{text}", loc,
                            f"{inst} is bound to a defaultdict at `{text}`: "
                            "lookups of absent keys (getters, the public "
                            "MappingProxyType views) insert entries",
                            instance=inst)
            else:
                res.ok("R-NO-AUTOVIV", inst, "")
    # mapping subclasses used inside the graph modules: a lookup of an absent
    # key (``__missing__`` / ``__getitem__`` / ``get``) must not store it
    n = 0
    for ci in prog.classes.values():
        if not ci.module.name.startswith("graphs"):
            continue
        if not any(b in ("dict", "UserDict", "defaultdict", "OrderedDict")
                   for b in ci.bases):
            continue
        if "defaultdict" in ci.bases:
            res.bad("R-NO-AUTOVIV", f"{ci.name} derives from defaultdict",
                    ci.module.loc(ci.node), f"{ci.name}: lookups of absent "
                    "keys insert entries", instance=f"{ci.name} lookups")
            continue
        for mname in ("__missing__", "__getitem__", "get", "__contains__"):
            fi = ci.methods.get(mname)
            if fi is None:
                continue
            n += 1
            me = fi.params()[0]
            inst = f"{ci.name}.{mname} does not store"
            writes = []
            for x in ast.walk(fi.node):
                if isinstance(x, ast.Subscript) and isinstance(
                        x.ctx, (ast.Store, ast.Del)) and norm(x.value) == me:
                    writes.append(norm(x, 60))
                elif isinstance(x, ast.Call) and isinstance(
                        x.func, ast.Attribute) and x.func.attr in (
                        "setdefault", "update", "__setitem__", "pop",
                        "popitem", "clear", "__delitem__") and (
                        norm(x.func.value) == me
                        or norm(x.func.value).startswith("super(")):
                    writes.append(norm(x, 60))
            if writes:
                res.bad("R-NO-AUTOVIV", f"{ci.name}.{mname}: {writes[0]}",
                        fi.loc(), f"{inst}: `{writes[0]}` inserts the missing "
                        "key, so hashing, comparing, reactant()/product() and "
                        "export change the stereo-change views they read",
                        instance=inst)
            else:
                res.ok("R-NO-AUTOVIV", inst, fi.loc())
    res.need("R-NO-AUTOVIV", n, 1, "lookup hooks of mapping subclasses in "
             "the graph modules")


# --------------------------------------------------------------------------
# paired updates
# --------------------------------------------------------------------------

def _stores(fi):
    """(kind, slot, key text, extra) for the direct effects on self's
    containers in one function body."""
    selfn = fi.params()[0]
    out = []
    for node in ast.walk(fi.node):
        if isinstance(node, ast.Assign):
            for t in node.targets:
                if isinstance(t, ast.Subscript) and isinstance(
                        t.value, ast.Attribute) and norm(t.value.value) == selfn:
                    out.append(("put", t.value.attr, norm(t.slice),
                                norm(node.value), node))
        elif isinstance(node, ast.Delete):
            for t in node.targets:
                if isinstance(t, ast.Subscript) and isinstance(
                        t.value, ast.Attribute) and norm(t.value.value) == selfn:
                    out.append(("del", t.value.attr, norm(t.slice), "", node))
        elif isinstance(node, ast.Call) and isinstance(node.func, ast.Attribute):
            recv = node.func.value
            meth = node.func.attr
            if isinstance(recv, ast.Subscript) and isinstance(
                    recv.value, ast.Attribute) and norm(recv.value.value) == selfn:
                out.append((meth, recv.value.attr, norm(recv.slice),
                            ",".join(norm(a) for a in node.args), node))
            elif isinstance(recv, ast.Attribute) and norm(recv.value) == selfn \
                    and recv.attr.startswith("_"):
                out.append((meth, recv.attr,
                            norm(node.args[0]) if node.args else "",
                            ",".join(norm(a) for a in node.args[1:]), node))
    return out


def check_preserve(prog: Program, res: Result) -> None:
    res.rule("R-PRESERVE", "the structural mutators keep the three parallel "
             "containers in step: add_atom creates the attribute dict (with "
             "atom_type) and the neighbour entry; add_bond = one bond entry + "
             "both neighbour directions; remove_bond = delete the entry + "
             "discard both directions; remove_atom = remove every incident "
             "bond, the neighbour entry and the attribute entry")
    for K in GRAPH_CLASSES:
        tag = SHORT[K]
        # add_bond ---------------------------------------------------------
        fi = prog.resolve_method(K, "add_bond")
        base = fi
        # the storing implementation is the last one in the super() chain
        chain = [fi]
        while True:
            nxt = None
            for node in ast.walk(chain[-1].node):
                if isinstance(node, ast.Call) and isinstance(
                        node.func, ast.Attribute) and node.func.attr == \
                        "add_bond" and isinstance(node.func.value, ast.Call) \
                        and call_name(node.func.value) == "super":
                    nxt = prog.resolve_method(K, "add_bond",
                                              after=chain[-1].cls.name)
            if nxt is None:
                break
            chain.append(nxt)
        st = [s for f in chain for s in _stores(f)]
        a1, a2 = chain[-1].params()[1:3]
        puts = [s for s in st if s[0] == "put" and s[1] == "_bond_attrs"]
        adds = {(s[2], s[3]) for s in st if s[0] == "add" and s[1] == "_neighbors"}
        inst = f"{tag}.add_bond: bond entry + both neighbour directions"
        if len(puts) == 1 and {(a1, a2), (a2, a1)} <= adds:
            res.ok("R-PRESERVE", inst, chain[-1].loc())
        else:
            res.bad("R-PRESERVE", f"{chain[-1].short} pairing", chain[-1].loc(),
                    f"{inst}: found bond puts={len(puts)}, neighbour adds="
                    f"{sorted(adds)}", instance=inst)
        # remove_bond ------------------------------------------------------
        fi = prog.resolve_method(K, "remove_bond")
        # follow the super() chain: a subclass may add its own clean-up
        chain = [fi]
        while True:
            nxt = None
            for node in ast.walk(chain[-1].node):
                if isinstance(node, ast.Call) and isinstance(
                        node.func, ast.Attribute) and node.func.attr == \
                        "remove_bond" and isinstance(
                        node.func.value, ast.Call) and call_name(
                        node.func.value) == "super":
                    nxt = prog.resolve_method(K, "remove_bond",
                                              after=chain[-1].cls.name)
            if nxt is None:
                break
            chain.append(nxt)
        fi = chain[-1]
        st = [s_ for f_ in chain for s_ in _stores(f_)]
        a1, a2 = fi.params()[1:3]
        dels = [s for s in st if s[0] in ("del", "pop") and s[1] == "_bond_attrs"]
        disc = {(s[2], s[3]) for s in st
                if s[0] in ("discard", "remove") and s[1] == "_neighbors"}
        inst = f"{tag}.remove_bond: delete entry + discard both directions"
        if len(dels) == 1 and {(a1, a2), (a2, a1)} <= disc:
            res.ok("R-PRESERVE", inst, fi.loc())
        else:
            res.bad("R-PRESERVE", f"{fi.short} pairing", fi.loc(),
                    f"{inst}: found dels={len(dels)}, discards={sorted(disc)}",
                    instance=inst)
        # add_atom ---------------------------------------------------------
        fi = prog.resolve_method(K, "add_atom")
        st = _stores(fi)
        atom = fi.params()[1]
        put = [s for s in st if s[0] == "put" and s[1] == "_atom_attrs"
               and s[2] == atom]
        nb = [s for s in st if s[1] == "_neighbors" and s[2] == atom
              and s[0] in ("setdefault", "put")]
        has_type = any("'atom_type'" in s[3] for s in put)
        inst = f"{tag}.add_atom: attribute dict with atom_type + neighbour entry"
        if len(put) == 1 and has_type and nb and not any(
                s[0] == "put" and "set()" in s[3] and False for s in nb):
            # a plain `self._neighbors[atom] = set()` would drop the bonds of
            # a re-added atom: only setdefault keeps I2
            if any(s[0] == "put" for s in nb):
                res.bad("R-PRESERVE", f"{fi.short} neighbour reset", fi.loc(),
                        f"{inst}: re-adding an atom resets its neighbour set "
                        "while its bonds stay", instance=inst)
            else:
                res.ok("R-PRESERVE", inst, fi.loc())
        else:
            res.bad("R-PRESERVE", f"{fi.short} entries", fi.loc(),
                    f"{inst}: attribute puts={len(put)} (atom_type: "
                    f"{has_type}), neighbour entry: {bool(nb)}", instance=inst)
        # remove_atom ------------------------------------------------------
        I = Interp(prog)
        I.call_method(K, "remove_atom", I.input(K, "self"), [IMM])
        written = {ev.slot for ev in I.events
                   if ev.kind in ("write", "rebind") and ev.level == 0}
        inst = f"{tag}.remove_atom: atom entry, neighbour entry and bonds removed"
        need = {"_atom_attrs", "_neighbors", "_bond_attrs"}
        fi = prog.resolve_method(K, "remove_atom")
        if need <= written:
            res.ok("R-PRESERVE", inst, fi.loc())
        else:
            res.bad("R-PRESERVE", f"{fi.short} containers", fi.loc(),
                    f"{inst}: no removal from {sorted(need - written)}",
                    instance=inst)
        # the bonds removed are exactly the incident ones: loop over the
        # atom's own neighbour set calling remove_bond(atom, n)
        mg_fi = prog.resolve_method("MolGraph", "remove_atom")
        ok_loop = False
        atomp = mg_fi.params()[1]
        for node in ast.walk(mg_fi.node):
            if isinstance(node, ast.For) and isinstance(node.target, ast.Name):
                it = norm(node.iter)
                if f"_neighbors[{atomp}]" in it or f"bonded_to({atomp})" in it \
                        or f"_neighbors.pop({atomp}" in it:
                    n = node.target.id
                    for c_ in ast.walk(node):
                        if isinstance(c_, ast.Call) and isinstance(
                                c_.func, ast.Attribute) and \
                                c_.func.attr == "remove_bond":
                            b_ = prog.bound_args(c_)
                            ends = sorted(norm(v) for v in (
                                b_.values() if b_ else c_.args))
                            if ends == sorted([atomp, n]):
                                ok_loop = True
        inst = f"{tag}.remove_atom: every incident bond removed via its neighbour set"
        if ok_loop:
            res.ok("R-PRESERVE", inst, mg_fi.loc())
        else:
            res.bad("R-PRESERVE", f"{mg_fi.short} incident bonds", mg_fi.loc(),
                    f"{inst}: no loop over the atom's neighbour set calling "
                    "remove_bond(atom, n)", instance=inst)


def check_purge(prog: Program, res: Result) -> None:
    res.rule("R-PURGE", "remove_atom, resolved for class K, deletes from "
             "every descriptor-bearing slot of K the entries whose "
             "descriptor mentions the atom (`atom in <descriptor>.atoms`)")
    for K in GRAPH_CLASSES:
        slots = [s for s in prog.all_slots(K) if s in STEREO_SLOTS]
        if not slots:
            continue
        I = Interp(prog)
        I.call_method(K, "remove_atom", I.input(K, "self"), [IMM])
        written = {}
        for ev in I.events:
            if ev.kind == "write":
                written.setdefault(ev.slot, []).append(ev)
        fi = prog.resolve_method(K, "remove_atom")
        # condition shape: each purge loop tests `atom in X.atoms`
        cond_ok: dict[str, bool] = {}
        chain = []
        cur = fi
        while cur is not None:
            chain.append(cur)
            nxt = None
            for node in ast.walk(cur.node):
                if isinstance(node, ast.Call) and isinstance(
                        node.func, ast.Attribute) and node.func.attr == \
                        "remove_atom" and isinstance(node.func.value, ast.Call) \
                        and call_name(node.func.value) == "super":
                    nxt = prog.resolve_method(K, "remove_atom",
                                              after=cur.cls.name)
            cur = nxt
        for f in chain:
            atomp = f.params()[1]
            for node in ast.walk(f.node):
                if not isinstance(node, ast.For):
                    continue
                it = norm(node.iter)
                for s in slots:
                    if f"self.{s}" in it and s not in it.replace(
                            f"self.{s}", "", 1).split(".")[0:0]:
                        if s + "_change" in it and not s.endswith("_change"):
                            continue
                        tests = [c for c in ast.walk(node)
                                 if isinstance(c, ast.Compare)
                                 and len(c.ops) == 1
                                 and isinstance(c.ops[0], ast.In)
                                 and norm(c.left) == atomp
                                 and norm(c.comparators[0]).endswith(".atoms")]
                        if tests:
                            cond_ok[s] = True
        for s in slots:
            inst = f"{SHORT[K]}.remove_atom purges {s}"
            if s not in written:
                res.bad("R-PURGE", f"{K}.remove_atom: {s}", fi.loc(),
                        f"{inst}: nothing is deleted from {s}; descriptors / "
                        "changes mentioning the removed atom stay behind",
                        instance=inst)
            elif not cond_ok.get(s):
                res.bad("R-PURGE", f"{K}.remove_atom: {s} condition", fi.loc(),
                        f"{inst}: the purge loop over {s} does not test "
                        "`atom in <descriptor>.atoms`", instance=inst)
            else:
                res.ok("R-PURGE", inst, fi.loc())


def check_purge_bond(prog: Program, res: Result) -> None:
    res.rule("R-PURGE-BOND", "remove_bond, resolved for class K, deletes the "
             "entry of that bond from every bond-keyed stereo slot of K "
             "(_bond_stereo, _bond_stereo_change): a descriptor keyed by a "
             "bond that no longer exists makes the stereo view disagree with "
             "the bond view (subgraph, product, hash and == then raise)")
    for K in GRAPH_CLASSES:
        slots = [s for s in prog.all_slots(K)
                 if s in ("_bond_stereo", "_bond_stereo_change")]
        if not slots:
            continue
        I = Interp(prog)
        I.call_method(K, "remove_bond", I.input(K, "self"), [IMM, IMM])
        written = {ev.slot for ev in I.events if ev.kind == "write"}
        fi = prog.resolve_method(K, "remove_bond")
        for s in slots:
            inst = f"{SHORT[K]}.remove_bond purges {s}"
            if s in written:
                res.ok("R-PURGE-BOND", inst, fi.loc())
            else:
                res.bad("R-PURGE-BOND", f"{K}.remove_bond: {s}", fi.loc(),
                        f"{inst}: nothing is deleted from {s}; the descriptor "
                        "/ stereo change keyed by the removed bond stays "
                        "behind: g.stereo lists a bond that g.bonds does not "
                        "have, subgraph(all atoms) raises, and for a stereo "
                        "reaction graph product(), hash() and == raise",
                        instance=inst)


def check_key_centre(prog: Program, res: Result) -> None:
    res.rule("R-KEY-CENTRE", "a descriptor / stereo change is stored under "
             "its own centre: the key of the store derives from "
             "<descriptor>.central_atom / Bond(<descriptor>.bond)")
    from ..pe import resolve
    table = [("StereoMolGraph", "set_atom_stereo", "_atom_stereo", "central_atom"),
             ("StereoMolGraph", "set_bond_stereo", "_bond_stereo", "bond"),
             ("StereoCondensedReactionGraph", "set_atom_stereo_change",
              "_atom_stereo_change", "central_atom"),
             ("StereoCondensedReactionGraph", "set_bond_stereo_change",
              "_bond_stereo_change", "bond")]
    from ..core import DefUse
    for K, meth, slot, attr in table:
        for KK in [c for c in GRAPH_CLASSES if K in prog.mro(c)]:
            fi = prog.resolve_method(KK, meth)
            du = DefUse(fi.node)
            stores = [s for s in _stores(fi) if s[0] == "put" and s[1] == slot]
            inst = f"{SHORT[KK]}.{meth}: key is the descriptor's own {attr}"
            if not stores:
                res.bad("R-KEY-CENTRE", f"{fi.short}: no store", fi.loc(),
                        f"{inst}: no store into {slot}", instance=inst)
                continue
            good = True
            for s in stores:
                key_expr = s[4].targets[0].slice
                deps = du.dep_nodes(key_expr)
                attrs = {n.attr for d in deps for n in ast.walk(d)
                         if isinstance(n, ast.Attribute)}
                if attr not in attrs:
                    good = False
            if good:
                res.ok("R-KEY-CENTRE", inst, fi.loc())
            else:
                res.bad("R-KEY-CENTRE", f"{fi.short}: key", fi.loc(),
                        f"{inst}: the store key does not derive from "
                        f".{attr}", instance=inst)


def check_matrix_view(prog: Program, res: Result) -> None:
    res.rule("R-VIEW-AGREE", "connectivity_matrix is indexed in the order of "
             "the atoms view (dictionary atom -> position built from "
             "enumerate(self.atoms)), loops over the bonds view and sets both "
             "symmetric entries")
    fi = prog.resolve_method("MolGraph", "connectivity_matrix")
    me = fi.params()[0]
    # positions taken from the iteration ORDER of another container: looping
    # over the values of the neighbour table (keys dropped) numbers the rows
    # by that table's order, which differs from the atoms view after
    # subgraph() / relabelling
    for n in ast.walk(fi.node):
        if isinstance(n, (ast.For, ast.comprehension)) and norm(n.iter) in (
                f"{me}._neighbors.values()", f"{me}.neighbors.values()"):
            res.bad("R-VIEW-AGREE", "connectivity_matrix: rows follow the "
                    "order of the neighbour table", fi.loc(
                        n if isinstance(n, ast.For) else n.iter),
                    f"connectivity_matrix: `{norm(n.iter)}` is iterated "
                    "without its keys, so the row of an atom is its position "
                    "in the neighbour table; columns come from the atoms "
                    "view; the two orders differ after subgraph([5, 1, 3]) / "
                    "relabelling and the matrix disagrees with `bonds`",
                    instance="connectivity_matrix: rows and columns are "
                    "numbered by one view")
    dcs = [n for n in ast.walk(fi.node) if isinstance(n, ast.Assign)
           and isinstance(n.value, ast.DictComp)
           and norm(n.value.generators[0].iter) in (
               f"enumerate({me}.atoms)", f"enumerate({me}._atom_attrs)")]
    inst = "connectivity_matrix: position dictionary atom -> index"
    if not dcs:
        other = [n for n in ast.walk(fi.node) if isinstance(n, ast.Assign)
                 and isinstance(n.value, ast.DictComp)
                 and re.fullmatch(rf"enumerate\({me}\.(\w+)\)",
                                  norm(n.value.generators[0].iter))]
        if other:
            src = norm(other[0].value.generators[0].iter)
            res.bad("R-VIEW-AGREE", f"connectivity_matrix: {src}",
                    fi.loc(other[0]), f"{inst}: rows / columns are numbered "
                    f"by `{src}`, not by the atoms view; the two orders "
                    "differ after subgraph() / relabelling, so the matrix no "
                    "longer lines up with atoms / atom_types",
                    instance=inst)
        else:
            res.unrecognised("R-VIEW-AGREE", inst, fi.loc(), "no dictionary "
                             "over enumerate(self.atoms)")
        return
    dc = dcs[0].value
    tgt = dc.generators[0].target
    dname = norm(dcs[0].targets[0])
    if isinstance(tgt, ast.Tuple) and len(tgt.elts) == 2 and \
            norm(dc.key) == norm(tgt.elts[1]) and norm(dc.value) == norm(
            tgt.elts[0]):
        res.ok("R-VIEW-AGREE", inst, fi.loc(dcs[0]))
    else:
        res.bad("R-VIEW-AGREE", f"connectivity_matrix: {norm(dcs[0], 80)}",
                fi.loc(dcs[0]), f"{inst}: `{norm(dc, 80)}` maps position -> "
                "atom (or something else); rows / columns no longer follow "
                "the atoms view for identifiers other than 0..n-1",
                instance=inst)
    loops = [l for l in ast.walk(fi.node) if isinstance(l, ast.For)
             and norm(l.iter) in ("self.bonds", "self._bond_attrs")]
    inst = "connectivity_matrix: both symmetric entries of every bond"
    if not loops or not isinstance(loops[0].target, ast.Tuple):
        res.unrecognised("R-VIEW-AGREE", inst, fi.loc(), "loop over the bonds")
        return
    a1, a2 = (norm(x) for x in loops[0].target.elts)
    # locals of the loop body defined once (row = index[a1] ...)
    local: dict[str, ast.AST] = {}
    seen: dict[str, int] = {}
    for st in ast.walk(loops[0]):
        if isinstance(st, ast.Assign):
            for t in st.targets:
                if isinstance(t, ast.Name):
                    seen[t.id] = seen.get(t.id, 0) + 1
                    local[t.id] = st.value
                elif isinstance(t, ast.Tuple) and isinstance(
                        st.value, ast.Tuple) and len(t.elts) == len(
                        st.value.elts):
                    for x, y in zip(t.elts, st.value.elts):
                        if isinstance(x, ast.Name):
                            seen[x.id] = seen.get(x.id, 0) + 1
                            local[x.id] = y

    def idx(e) -> str:
        if isinstance(e, ast.Name) and seen.get(e.id) == 1:
            return idx(local[e.id])
        return norm(e)

    # the matrix: the array that is returned
    rets_ = {norm(r_.value) for r_ in ast.walk(fi.node)
             if isinstance(r_, ast.Return) and isinstance(r_.value, ast.Name)}
    mname = rets_.pop() if len(rets_) == 1 else "matrix"
    stores = set()
    raw = []
    for st in ast.walk(loops[0]):
        if isinstance(st, ast.Assign) and norm(st.value) in ("1", "True"):
            for t in st.targets:
                raw.append(norm(t))
                if not isinstance(t, ast.Subscript):
                    continue
                if isinstance(t.value, ast.Subscript) and norm(
                        t.value.value) == mname:
                    stores.add((idx(t.value.slice), idx(t.slice)))
                elif norm(t.value) == mname and isinstance(
                        t.slice, ast.Tuple) and len(t.slice.elts) == 2:
                    stores.add((idx(t.slice.elts[0]), idx(t.slice.elts[1])))
    want = {(f"{dname}[{a1}]", f"{dname}[{a2}]"),
            (f"{dname}[{a2}]", f"{dname}[{a1}]")}
    if want <= stores:
        res.ok("R-VIEW-AGREE", inst, fi.loc(loops[0]))
    elif stores & want:
        res.bad("R-VIEW-AGREE", f"connectivity_matrix stores {sorted(raw)}",
                fi.loc(loops[0]), f"{inst}: only {sorted(raw)} is set; the "
                "matrix is not symmetric", instance=inst)
    else:
        res.unrecognised("R-VIEW-AGREE", inst, fi.loc(loops[0]),
                         f"stores {sorted(raw)}")


def run(prog: Program, res: Result, tier: str) -> None:
    from .. import memo
    memo.report(prog, res)
    res.trusted += [
        "effect transfer functions of sa/absint.py; reader list = every "
        "method of the class hierarchy that is not in the frozen mutator list",
        "plain dict / set semantics: lookup of an absent key raises and does "
        "not insert",
    ]
    check_readonly(prog, res)
    check_no_autoviv(prog, res)
    check_preserve(prog, res)
    check_purge(prog, res)
    check_purge_bond(prog, res)
    check_key_centre(prog, res)
    check_matrix_view(prog, res)
    from ..derive import check_container_kinds
    check_container_kinds(prog, res)
    # in-place relabelling is one of the editing operations of this property:
    # the renaming rules of C11 are obligations here too
    from . import C11
    from .common import merge_rules
    tmp = Result(res.prop)
    C11.run(prog, tmp, tier)
    merge_rules(res, tmp, ("R-RENAME-TOTAL", "R-RENAME-ALL",
                           "R-SLOT-COVER[relabel]", "R-REBUILD-SOURCE"))
