"""C13 -- RDKit export followed by import preserves structure and stereo.

Table-level round trip, exhaustive: the exporter's label choice and the
importer's reading of that label are both folded from the source
(sa/convtables.py) and composed for every neighbour order RDKit may present
and every parity; descriptor equality is computed from the literal
permutation tables.
"""
from __future__ import annotations

import ast
import re
from itertools import permutations

from ..convtables import (UNK, Fold, Groups, candidate_atoms, exporter_model,
                          importer_tables, label_of_row)
from ..core import AnalysisError, Program, call_name, norm, utext
from ..report import Result

DESCRIPTOR_NAMES = ("Tetrahedral", "SquarePlanar", "TrigonalBipyramidal",
                    "Octahedral", "PlanarBond", "AtropBond")

LEVEL_TEXT = (
    "static, exhaustive at table level: for the tetrahedral (with and "
    "without lone pair), square-planar, trigonal-bipyramidal and octahedral "
    "classes the exporter's choice of chiral tag / permutation label and the "
    "importer's reading of it are extracted from the source by constant "
    "folding over index tuples and composed for every neighbour order and "
    "parity (24 + 240 + 96 + 2 cells); the re-imported descriptor must equal "
    "the exported one under the literal permutation groups. Trusted: RDKit "
    "keeps the neighbour order of bond insertion and carries tags / "
    "_chiralPermutation / atom-map numbers unchanged and keeps the E/Z "
    "stereo of a double bond. The E/Z branch of the exporter is folded for "
    "both orientations of the RDKit bond and 8 lone-pair placeholder "
    "patterns and composed with the importer's reconstruction. RDKit's own "
    "semantics and bond-order regeneration as an algorithm are not decided.")


def check_ez_roundtrip(prog: Program, res: Result, G) -> None:
    res.rule("T-EZ-ROUNDTRIP", "for both orientations of the RDKit bond "
             "(begin/end = the descriptor's bond atoms in either order) the "
             "PlanarBond branch of the exporter names one substituent of the "
             "begin atom and one of the end atom as stereo atoms and a Z / E "
             "tag such that the importer's reconstruction (stereo atom, other "
             "substituent, begin, end, stereo atom, other substituent; E "
             "swaps the first two) is in the PlanarBond orbit of the stored "
             "ordering")
    from ..convtables import Fold, UNK
    from ..convtables import canon_exporter
    efi = canon_exporter(prog)
    branch = None
    for n in ast.walk(efi.node):
        if isinstance(n, ast.If) and re.fullmatch(
                r"isinstance\((\w+), PlanarBond\)", norm(n.test)):
            branch = n
    inst0 = "PlanarBond export: Z/E stereo atoms round-trip"
    if branch is None:
        res.unrecognised("T-EZ-ROUNDTRIP", inst0, efi.loc(),
                         "`if isinstance(b_stereo, PlanarBond):` branch")
        return
    bs = re.fullmatch(r"isinstance\((\w+), PlanarBond\)",
                      norm(branch.test)).group(1)
    D = tuple(f"d{i}" for i in range(6))
    ident = {d: d for d in D}

    def execute(stmts, f, out, strict=True):
        for st in stmts:
            if isinstance(st, ast.If):
                t = f.ev(st.test)
                if t is UNK:
                    if norm(st.test) in ("False",) or not strict:
                        continue
                    raise AnalysisError(
                        f"guard `{norm(st.test, 60)}` not evaluable")
                execute(st.body if t else st.orelse, f, out, strict)
            elif isinstance(st, (ast.Assign, ast.AnnAssign)):
                if strict:
                    f.run([st])
                    continue
                # prelude: only values that fold, never over a seeded name
                tgt = st.targets[0] if isinstance(st, ast.Assign) else st.target
                if st.value is None:
                    continue
                v = f.ev(st.value)
                if v is UNK:
                    continue
                if isinstance(tgt, ast.Name) and tgt.id not in seeded:
                    f.env[tgt.id] = v
                elif isinstance(tgt, ast.Tuple) and isinstance(
                        v, tuple) and len(v) == len(tgt.elts):
                    for t_, x_ in zip(tgt.elts, v):
                        if isinstance(t_, ast.Name) and t_.id not in seeded:
                            f.env[t_.id] = x_
            elif isinstance(st, ast.Expr) and isinstance(st.value, ast.Call) \
                    and isinstance(st.value.func, ast.Attribute):
                c = st.value
                if c.func.attr == "SetStereoAtoms":
                    vals = f.ev(ast.Tuple(list(c.args), ast.Load()))
                    out["atoms"] = tuple(vals) if isinstance(
                        vals, tuple) and len(vals) == 2 else (UNK, UNK)
                elif c.func.attr == "SetStereo" and c.args:
                    v = f.ev(c.args[0])
                    out["tag"] = v if isinstance(v, str) else norm(
                        c.args[0]).split(".")[-1]
            elif isinstance(st, ast.Raise):
                out["raise"] = norm(st, 60)

    worlds = [(w, be, ()) for w, be in (("same", ("d2", "d3")),
                                        ("swapped", ("d3", "d2")))]
    # a lone pair (None) in place of one substituent of an end
    for none_at in ((0,), (1,), (4,), (5,), (0, 4), (0, 5), (1, 4), (1, 5)):
        for w, be in (("same", ("d2", "d3")), ("swapped", ("d3", "d2"))):
            worlds.append((f"{w}, None at {none_at}", be, none_at))
    D0 = D
    for world, (b, e_), none_at in worlds:
        D = tuple(None if i in none_at else d for i, d in enumerate(D0))
        ident = {d: d for d in D if d is not None}
        ident[None] = "!KeyError(None)"
        inst = f"{inst0} [RDKit bond {world}]"
        f = Fold({"STEREOZ": "STEREOZ", "STEREOE": "STEREOE",
                  "STEREOCIS": "STEREOCIS", "STEREOTRANS": "STEREOTRANS",
                  f"{bs}.atoms": D, f"{bs}.parity": 0, "a1": "d2",
                  "a2": "d3", "new_a1": b, "new_a2": e_,
                  "map_num_idx_dict": ident, "rd_a1": "d2", "rd_a2": "d3"})
        out: dict = {}
        seeded = set(f.env)
        # statements of the enclosing loop body that come before the branch
        # (aliases, the orientation table of a refactored exporter)
        from ..core import ancestors as _anc
        prelude = []
        for a_ in _anc(branch):
            if isinstance(a_, ast.For):
                for st in a_.body:
                    if st is branch or any(x is branch for x in ast.walk(st)):
                        break
                    prelude.append(st)
                break
        try:
            execute(prelude, f, {}, strict=False)
            execute(branch.body, f, out)
        except AnalysisError as ex:
            res.unrecognised("T-EZ-ROUNDTRIP", inst, efi.loc(branch), str(ex))
            continue
        if "raise" in out:
            res.bad("T-EZ-ROUNDTRIP", f"{inst0} {world}: raises",
                    efi.loc(branch), f"{inst}: the branch ends in "
                    f"`{out['raise']}`", instance=inst)
            continue
        if "atoms" not in out or UNK in out["atoms"] or out.get("tag") not in (
                "STEREOZ", "STEREOE", "STEREOCIS", "STEREOTRANS"):
            res.unrecognised("T-EZ-ROUNDTRIP", inst, efi.loc(branch),
                             f"stereo atoms / tag not folded: {out}")
            continue
        x, y = out["atoms"]
        if "!KeyError(None)" in (x, y):
            res.bad("T-EZ-ROUNDTRIP", f"{inst0} {world}: None as stereo atom",
                    efi.loc(branch), f"{inst}: the lone-pair placeholder is "
                    "looked up in the atom table (`map_num_idx_dict[None]`): "
                    "the export raises KeyError(None) although the equal "
                    "descriptor written with the placeholder in the other "
                    "substituent position exports fine", instance=inst)
            continue
        subs = {"d2": (D[0], D[1]), "d3": (D[4], D[5])}
        if x is None or y is None or x not in subs[b] or y not in subs[e_]:
            res.bad("T-EZ-ROUNDTRIP", f"{inst0} {world}: {x},{y}",
                    efi.loc(branch), f"{inst}: stereo atoms ({x}, {y}) are "
                    f"not a substituent of the begin atom {b} and one of the "
                    f"end atom {e_}", instance=inst)
            continue
        ox = [s_ for s_ in subs[b] if s_ != x][0]
        oy = [s_ for s_ in subs[e_] if s_ != y][0]
        rebuilt = (x, ox, b, e_, y, oy)
        if out["tag"] in ("STEREOE", "STEREOTRANS"):
            rebuilt = (ox, x, b, e_, y, oy)
        if G.equiv("PlanarBond", D, 0, rebuilt, 0):
            res.ok("T-EZ-ROUNDTRIP", inst, efi.loc(branch),
                   f"{out['tag']} ({x}, {y}) -> {rebuilt}")
        else:
            res.bad("T-EZ-ROUNDTRIP", f"{inst0} {world}: {out['tag']} {x},{y}",
                    efi.loc(branch), f"{inst}: {out['tag']} with stereo atoms "
                    f"({x}, {y}) is read back as PlanarBond{rebuilt}, which "
                    f"is the other diastereomer of the stored PlanarBond{D}",
                    instance=inst)
    # the importer facts the reconstruction above relies on
    ifi = prog.fn("rdmol2graph:RDMol2StereoMolGraph.smg_from_rdmol")
    inst = "importer: E/Z tuple = (stereo, other, begin, end, stereo, other)"
    it = utext(ifi.node)
    if re.search(r"\(begin_stereo_atom, begin_non_stereo_nbr, begin_idx, "
                 r"end_idx, end_stereo_atom, end_non_stereo_nbr\)", it):
        res.ok("T-EZ-ROUNDTRIP", inst, ifi.loc())
    else:
        res.unrecognised("T-EZ-ROUNDTRIP", inst, ifi.loc(),
                         "construction of the six-atom tuple in the importer")


TAG_OF = {"SquarePlanar": "CHI_SQUAREPLANAR",
          "TrigonalBipyramidal": "CHI_TRIGONALBIPYRAMIDAL",
          "Octahedral": "CHI_OCTAHEDRAL"}


def check_optional_label(prog: Program, res: Result) -> None:
    res.rule("R-PERM-OPTIONAL", "where the exporter writes the chiral tag of "
             "a class but the `_chiralPermutation` label only for a specified "
             "parity, the importer's branch for that tag must not read the "
             "label unconditionally (HasProp guard / KeyError handler): an "
             "unspecified descriptor has to come back, not raise")
    from ..convtables import canon_exporter
    efi = canon_exporter(prog)
    ifi = prog.fn("rdmol2graph:RDMol2StereoMolGraph.smg_from_rdmol")
    from ..core import ancestors
    for cls, tag in TAG_OF.items():
        ebr = [n for n in ast.walk(efi.node) if isinstance(n, ast.If)
               and re.search(rf"isinstance\(\w+, {cls}\)", norm(n.test))]
        from ..convtables import _branches
        ibr = [n for n in _branches(ifi.node, tag)
               if "chiral_tag" in norm(n.test)]
        inst = f"{cls}: label optional in the export => optional in the import"
        if not ebr or not ibr:
            res.unrecognised("R-PERM-OPTIONAL", inst, efi.loc(),
                             "exporter / importer branch of the class")
            continue
        sets = [c for b in ebr[0].body for c in ast.walk(b)
                if isinstance(c, ast.Call) and isinstance(
                    c.func, ast.Attribute) and c.func.attr == "SetUnsignedProp"
                and c.args and norm(c.args[0]) == "'_chiralPermutation'"]
        if not sets:
            res.unrecognised("R-PERM-OPTIONAL", inst, efi.loc(ebr[0]),
                             "no SetUnsignedProp('_chiralPermutation', ..)")
            continue

        def under_parity_guard(c):
            for a_ in ancestors(c):
                if a_ is ebr[0]:
                    return False
                if isinstance(a_, ast.If) and re.search(
                        r"\.parity is not None", norm(a_.test)):
                    return True
            return False
        optional = all(under_parity_guard(c) for c in sets)
        reads = [c for b in ibr[0].body for c in ast.walk(b)
                 if isinstance(c, ast.Call) and isinstance(
                     c.func, ast.Attribute) and c.func.attr in (
                     "GetUnsignedProp", "GetIntProp", "GetProp")
                 and c.args and norm(c.args[0]) == "'_chiralPermutation'"]

        def guarded(c):
            prev = c
            for a_ in ancestors(c):
                if a_ is ibr[0]:
                    return False
                if isinstance(a_, ast.If) and "HasProp('_chiralPermutation')" \
                        in norm(a_.test):
                    return True
                if isinstance(a_, ast.Try) and any(
                        h.type is None or "KeyError" in norm(h.type)
                        for h in a_.handlers):
                    return True
                prev = a_
            return False
        # after the normal form an `if not HasProp: ... else: read` may have
        # been turned round; a sibling HasProp test in the branch counts
        has_test = any("HasProp('_chiralPermutation')" in norm(n.test)
                       for b in ibr[0].body for n in ast.walk(b)
                       if isinstance(n, ast.If))
        if not optional:
            res.ok("R-PERM-OPTIONAL", inst, efi.loc(ebr[0]),
                   "label written for every parity")
        elif reads and (all(guarded(c) for c in reads) or has_test):
            res.ok("R-PERM-OPTIONAL", inst, ifi.loc(ibr[0]))
        elif reads:
            res.bad("R-PERM-OPTIONAL", f"{cls}: unguarded label read",
                    ifi.loc(reads[0]), f"{inst}: the exporter writes {tag} "
                    "without a label for parity None, the importer calls "
                    f"`{norm(reads[0])}` unconditionally: re-importing an "
                    f"exported graph with an unspecified {cls} raises "
                    "KeyError", instance=inst)
        else:
            res.unrecognised("R-PERM-OPTIONAL", inst, ifi.loc(ibr[0]),
                             "how the importer reads the label")


def check_mapnum_domain(prog: Program, res: Result) -> None:
    res.rule("R-MAPNUM-DOMAIN", "every atom identifier the exporter writes as "
             "an atom-map number is one the map-number import accepts: RDKit "
             "reads map number 0 as `no map number`, so an exporter that "
             "writes the identifier unchanged and an importer that rejects "
             "0 cannot round-trip a graph that contains the identifier 0")
    mk = prog.fn("graph2rdmol:mol_graph_to_rdmol")
    ifi = prog.fn("rdmol2graph:RDMol2StereoMolGraph.smg_from_rdmol")
    writes = [c for c in ast.walk(mk.node) if isinstance(c, ast.Call)
              and isinstance(c.func, ast.Attribute)
              and c.func.attr == "SetAtomMapNum" and c.args]
    inst = "exported atom-map numbers are accepted by the map-number import"
    if not writes:
        res.unrecognised("R-MAPNUM-DOMAIN", inst, mk.loc(),
                         "SetAtomMapNum call of mol_graph_to_rdmol")
        return
    # the identifier itself (loop variable over graph.atoms) or shifted?
    loop_vars = {norm(l.target) for l in ast.walk(mk.node)
                 if isinstance(l, ast.For) and re.fullmatch(
                     r"\w+\.atoms", norm(l.iter))}
    raw = [c for c in writes if norm(c.args[0]) in loop_vars]
    rejects_zero = [n for n in ast.walk(ifi.node) if isinstance(n, ast.Compare)
                    and "GetAtomMapNum()" in norm(n.left)
                    and isinstance(n.ops[0], ast.Eq)
                    and norm(n.comparators[0]) == "0"]
    if raw and rejects_zero:
        res.bad("R-MAPNUM-DOMAIN", "identifier 0 is exported as map number 0",
                mk.loc(raw[0]), f"{inst}: `{norm(raw[0])}` writes the "
                "identifier unchanged and the importer raises for map number "
                f"0 (`{norm(rejects_zero[0])}`): a graph that contains the "
                "identifier 0 cannot be exported and re-imported by atom-map "
                "number", instance=inst)
    elif raw or rejects_zero:
        res.ok("R-MAPNUM-DOMAIN", inst, mk.loc(writes[0]))
    else:
        res.unrecognised("R-MAPNUM-DOMAIN", inst, mk.loc(writes[0]),
                         f"map number written as `{norm(writes[0].args[0])}`")


def check_parity_used(prog: Program, res: Result) -> None:
    res.rule("R-PARITY-USED", "a decision of the export that is taken by "
             "membership in the rotation orbit of a descriptor "
             "(`x in d._perm_atoms()`, `x in set(d._perm_atoms())`) instead "
             "of descriptor equality also reads that descriptor's parity: "
             "the orbit alone cannot tell a chiral arrangement from its "
             "mirror image")
    fns = [prog.fn("graph2rdmol:stereo_mol_graph_to_rdmol")]
    for q in prog.norm_report.get("new_functions", []):
        if q.startswith("graph2rdmol:"):
            fns.append(prog.functions[q])
    n = 0
    for fi in fns:
        # locals that hold an orbit: name -> descriptor expression text
        orbit_of: dict[str, str] = {}

        def orbit_src(e):
            for x in ast.walk(e):
                if isinstance(x, ast.Call) and isinstance(
                        x.func, ast.Attribute) and \
                        x.func.attr == "_perm_atoms":
                    return norm(x.func.value)
            return None
        for a in ast.walk(fi.node):
            if isinstance(a, ast.Assign) and len(a.targets) == 1 and \
                    isinstance(a.targets[0], ast.Name):
                src = orbit_src(a.value)
                if src:
                    orbit_of[a.targets[0].id] = src
        for c in ast.walk(fi.node):
            if not (isinstance(c, ast.Compare) and len(c.ops) == 1
                    and isinstance(c.ops[0], (ast.In, ast.NotIn))):
                continue
            right = c.comparators[0]
            d = orbit_src(right) or (orbit_of.get(right.id) if isinstance(
                right, ast.Name) else None)
            if d is None:
                continue
            n += 1
            # the orbit must be that of the exported descriptor (or an equal
            # re-expression of it): d.invert() is its mirror image
            srcs = [d]
            for a in ast.walk(fi.node):
                if isinstance(a, ast.Assign) and len(a.targets) == 1 and \
                        isinstance(a.targets[0], ast.Name) and \
                        a.targets[0].id == d:
                    srcs.append(norm(a.value, 300))
            mirrored = [t for t in srcs if ".invert()" in t]
            if mirrored:
                res.bad("R-PARITY-USED", f"{fi.short}: orbit of an inverted "
                        "descriptor", fi.loc(c), f"{fi.short}: `{norm(c, 70)}` "
                        f"decides by the orbit of `{d}`, which is "
                        f"`{mirrored[0][:80]}`: invert() is the mirror image "
                        "of the descriptor (other arrangement), not the same "
                        "arrangement written with the other parity; the label "
                        "of the enantiomer is exported",
                        instance=f"{fi.short}: `{norm(c, 70)}` uses the "
                        "orbit of the exported descriptor")
                continue
            inst = f"{fi.short}: `{norm(c, 70)}` also consults {d}.parity"
            reads = any(isinstance(x, ast.Attribute) and x.attr == "parity"
                        and norm(x.value) in srcs + [d]
                        for x in ast.walk(fi.node)) or any(
                ".parity" in t for t in srcs[1:])
            if reads:
                res.ok("R-PARITY-USED", inst, fi.loc(c))
            else:
                res.bad("R-PARITY-USED", f"{fi.short}: {norm(c, 70)}",
                        fi.loc(c), f"{fi.short}: `{norm(c, 70)}` decides by "
                        f"the rotation orbit of `{d}` and `{d}.parity` is "
                        "never read in this function: a parity -1 descriptor "
                        "gets the label of its mirror image", instance=inst)
    if n == 0:
        res.ok("R-PARITY-USED", "no decision by orbit membership in the "
               "exporter (labels are chosen by descriptor equality)")


def check_rdkit_order(prog: Program, res: Result, efi) -> None:
    """R-RDKIT-ORDER: T-ROUNDTRIP reads the tuples the exporter permutes as
    "the neighbours in RDKit's order".  That is only true of a tuple built
    element by element from `<rd atom>.GetNeighbors()`."""
    res.rule("R-RDKIT-ORDER", "the neighbour tuple a chiral tag / permutation "
             "label is computed against is read off the RDKit atom "
             "(`idx_map_num_dict[a.GetIdx()] for a in <atom>.GetNeighbors()`)"
             ": RDKit's order is the bond insertion order, no order derived "
             "from the graph (sorted identifiers, adjacency sets) agrees "
             "with it in general")
    NAMES = ("neighbors", "rd_nbr_order", "rd_nbrs")
    local_defs = {d.name: d for d in ast.walk(efi.node)
                  if isinstance(d, ast.FunctionDef) and d is not efi.node}

    def strip(v):
        while isinstance(v, ast.Call) and call_name(v) in ("tuple", "list") \
                and len(v.args) == 1:
            v = v.args[0]
        return v

    def from_rdkit(v, depth=0):
        """True / False / None (not understood)"""
        v = strip(v)
        if isinstance(v, (ast.ListComp, ast.GeneratorExp)) and len(
                v.generators) == 1 and not v.generators[0].ifs:
            it = v.generators[0].iter
            if isinstance(it, ast.Call) and isinstance(
                    it.func, ast.Attribute) and \
                    it.func.attr == "GetNeighbors" and isinstance(
                    v.generators[0].target, ast.Name):
                var = v.generators[0].target.id
                if norm(v.elt) in (f"idx_map_num_dict[{var}.GetIdx()]",
                                   f"idx_map_num_dict.get({var}.GetIdx())"):
                    return True
                return None
        t = norm(v, 200)
        if isinstance(v, ast.Call) and isinstance(v.func, ast.Name) and \
                v.func.id in local_defs and depth < 3:
            d = local_defs[v.func.id]
            rets = [r for r in ast.walk(d) if isinstance(r, ast.Return)
                    and r.value is not None]
            if len(rets) == 1:
                return from_rdkit(rets[0].value, depth + 1)
            return None
        if isinstance(v, ast.Name) and v.id in NAMES:
            return True         # another of the checked tuples
        if any(isinstance(c, ast.Call) and call_name(c) in ("sorted", "sort")
               and any(k.arg == "key" for k in c.keywords)
               for c in ast.walk(v)):
            return None     # ordered by something: possibly the RDKit index
        if "GetNeighbors" not in t and re.search(
                r"\bsorted\(|\.bonded_to\(|\.neighbors\b|\.bonds\b", t):
            return False
        return None

    n = 0
    for a in ast.walk(efi.node):
        tgt = val = None
        if isinstance(a, ast.Assign) and len(a.targets) == 1:
            tgt, val = a.targets[0], a.value
        elif isinstance(a, ast.AnnAssign) and a.value is not None:
            tgt, val = a.target, a.value
        if not (isinstance(tgt, ast.Name) and tgt.id in NAMES):
            continue
        n += 1
        inst = f"stereo_mol_graph_to_rdmol: {tgt.id} (line {a.lineno}) is " \
               "RDKit's neighbour order"
        verdict = from_rdkit(val)
        if verdict is True:
            res.ok("R-RDKIT-ORDER", inst, efi.loc(a))
        elif verdict is False:
            res.bad("R-RDKIT-ORDER", f"stereo_mol_graph_to_rdmol: {tgt.id} = "
                    f"{norm(strip(val), 60)}", efi.loc(a),
                    f"`{tgt.id} = {norm(val, 90)}` is an order derived from "
                    "the graph, the chiral tag / permutation label computed "
                    "against it is read by RDKit (and by the importer) "
                    "against GetNeighbors() order: wrong arrangement "
                    "whenever the two orders differ", instance=inst,
                    context=["<decided>"])
        else:
            res.unrecognised("R-RDKIT-ORDER", inst, efi.loc(a),
                             f"`{norm(val, 80)}` is not a comprehension over "
                             "GetNeighbors()")
    res.need("R-RDKIT-ORDER", n, 3, "neighbour order tuples in the exporter")


def run(prog: Program, res: Result, tier: str) -> None:
    res.rule("T-ROUNDTRIP", "for every stored descriptor (all orderings of "
             "the ligands relative to RDKit's neighbour order, every parity) "
             "the exporter emits a tag / label, and the importer's reading "
             "of that tag / label is a descriptor equal to the stored one")
    res.rule("R-ORBIT-CMP", "the exporter chooses labels by descriptor "
             "equality (modulo the permutation group), never by plain "
             "equality / membership of atom tuples")
    res.rule("T-INVERSE", "the exporter's label tables are the inverse of "
             "the importer's")
    res.rule("R-EXPORT-PURE", "export never changes the exported graph")
    check_parity_used(prog, res)
    G = Groups(prog)
    imp = importer_tables(prog)
    exp = exporter_model(prog)
    efi = exp["_fi"]
    check_rdkit_order(prog, res, efi)
    check_ez_roundtrip(prog, res, G)
    check_optional_label(prog, res)
    check_mapnum_domain(prog, res)
    # ---------------------------------------------------------------- SP, TB
    # bond rewriting inside the export invalidates the neighbour order that
    # tags of OTHER atoms were (or will be) computed against
    res.rule("R-EXPORT-ORDER", "the stereo export never removes / re-adds "
             "bonds of the RDKit molecule: that moves the bond to the end of "
             "the partner atom's bond list and silently changes the neighbour "
             "order its own chiral tag / permutation label refers to")
    if exp["bond_rewrites"]:
        n0 = exp["bond_rewrites"][0]
        res.bad("R-EXPORT-ORDER", f"stereo_mol_graph_to_rdmol: {norm(n0, 60)}",
                efi.loc(n0), f"stereo_mol_graph_to_rdmol calls "
                f"`{norm(n0, 60)}` while tags are being assigned: a "
                "stereocentre bonded to the rewritten centre comes back "
                "inverted in a fraction of the cases")
    else:
        res.ok("R-EXPORT-ORDER", "stereo export leaves the bond lists alone",
               efi.loc())
    classes = [("SquarePlanar", 4, (0,)), ("TrigonalBipyramidal", 5, (1, -1))]
    if isinstance(exp.get("Octahedral"), dict) and "loop" in exp["Octahedral"]:
        classes.append(("Octahedral", 6, (1, -1)))
    # helpers outside the inventory the export models were read through
    sees = sorted({f"<sees:{q}>" for m_ in exp.values() if isinstance(m_, dict)
                   for q in m_.get("seen_through", ())})
    for cls, k, parities in classes:
        model = exp.get(cls)
        if model is None:
            res.error(f"T-ROUNDTRIP {cls}: export label search not "
                      "recognised (expected `for ... in <table>: if "
                      f"{cls}(<candidate>) == a_stereo: SetUnsignedProp`) at "
                      f"{efi.loc()}")
            continue
        inst = f"{cls} export compares descriptors"
        if model["raw"]:
            res.bad("R-ORBIT-CMP", f"{cls} export: {norm(model['cmp'], 80)}",
                    efi.loc(model["cmp"]),
                    f"{cls}: `{norm(model['cmp'], 80)}` compares raw atom "
                    f"tuples; {len(G.G[cls]) - 1} of {len(G.G[cls])} "
                    "equivalent orderings of the descriptor find no label",
                    instance=inst)
            continue
        res.ok("R-ORBIT-CMP", inst, efi.loc(model["cmp"]))
        nb = tuple(f"n{i}" for i in range(k))
        cands = []
        for row in model["rows"]:
            a, p, _ = candidate_atoms(model, row, k)
            lab = label_of_row(model, row)
            if a is UNK or p is UNK or lab is UNK:
                raise AnalysisError(f"{cls} export: candidate for row {row} "
                                    "not foldable")
            cands.append((lab, a, p))
        itab = imp[cls]
        if model.get("extra_unparsed"):
            u = model["extra_unparsed"][0]
            res.unrecognised("T-ROUNDTRIP", f"{cls}: every label assignment "
                             "is modelled", efi.loc(u),
                             f"`{norm(u, 70)}` sets the permutation label "
                             "outside the table search in a form that is not "
                             "understood")
            continue
        pre = [(l_, a_, p_) for l_, a_, p_, before, _c in model.get(
            "extra", []) if before]
        post = [(l_, a_, p_) for l_, a_, p_, before, _c in model.get(
            "extra", []) if not before]
        # inverse tables
        for lab, a, p in cands:
            inst = f"{cls} label {lab}: exporter candidate == importer reading"
            if lab not in itab:
                res.bad("T-INVERSE", f"{cls} label {lab} unknown to importer",
                        efi.loc(model["loop"]), f"{inst}: the importer has no "
                        f"label {lab}", instance=inst, context=sees)
            elif itab[lab] == (a, p):
                res.ok("T-INVERSE", inst, efi.loc(model["loop"]))
            elif G.equiv(cls, a, p, *itab[lab]):
                res.ok("T-INVERSE", inst, efi.loc(model["loop"]),
                       "equal modulo the group")
            else:
                res.bad("T-INVERSE", f"{cls} label {lab} disagrees",
                        efi.loc(model["loop"]),
                        f"{inst}: exporter builds {a}/{p}, importer reads "
                        f"{itab[lab]}", instance=inst, context=sees)
        # round trip
        n_bad = 0
        first_bad = None
        cells = 0
        for tau in permutations(nb):
            for par in parities:
                cells += 1
                d = ("c",) + tau
                chosen = None
                for lab, a, p in pre + cands + post:
                    if G.equiv(cls, a, par if p == "SAME" else p, d, par):
                        chosen = lab
                        break
                if chosen is None:
                    n_bad += 1
                    first_bad = first_bad or (d, par, "no label is set; the "
                                              "import then raises")
                    continue
                ia, ip = itab.get(chosen, (None, None))
                if ia is None or not G.equiv(cls, ia, ip, d, par):
                    n_bad += 1
                    first_bad = first_bad or (d, par, f"label {chosen} is "
                                              f"read back as {ia}/{ip}")
        inst = f"{cls}: {cells} (ordering, parity) cells round-trip"
        if n_bad == 0:
            res.ok("T-ROUNDTRIP", inst, efi.loc(model["loop"]))
        else:
            d, par, why = first_bad
            res.bad("T-ROUNDTRIP", f"{cls} round trip", efi.loc(model["loop"]),
                    f"{inst}: {n_bad} of {cells} fail, e.g. descriptor "
                    f"{d} parity {par} with RDKit neighbours {nb}: {why}",
                    instance=inst, context=sees)
    # ------------------------------------------------------------ octahedral
    om = exp["Octahedral"]
    inst = "Octahedral: export re-inserts the bonds in a fixed order"
    if om is None:
        res.unrecognised("T-ROUNDTRIP", "Octahedral export", efi.loc(),
                         "neither a label search nor a canonical bond order")
    elif "loop" in om:
        pass        # handled by the label-search model above
    elif om["order"] and om["removes"] and sorted(om["order"]) == [1, 2, 3, 4, 5, 6]:
        res.ok("T-ROUNDTRIP", inst, efi.loc(om["branch"]))
        d = ("c", "a1", "a2", "a3", "a4", "a5", "a6")
        nbrs = tuple(d[i] for i in om["order"])
        itab = imp["Octahedral"]
        for par in (1, -1):
            lab = om["labels"].get(par)
            inst = f"Octahedral parity {par}: label {lab} read back equal"
            row = itab.get(lab)
            if row is None:
                res.bad("T-ROUNDTRIP", f"Octahedral parity {par} label",
                        efi.loc(om["branch"]), f"{inst}: no such label",
                        instance=inst)
                continue
            atoms, ip = row
            sub = {f"n{i}": nbrs[i] for i in range(6)}
            atoms = tuple(sub.get(x, x) for x in atoms)
            if G.equiv("Octahedral", atoms, ip, d, par):
                res.ok("T-ROUNDTRIP", inst, efi.loc(om["branch"]))
            else:
                res.bad("T-ROUNDTRIP", f"Octahedral parity {par} round trip",
                        efi.loc(om["branch"]), f"{inst}: read back as "
                        f"{atoms}/{ip}", instance=inst)
    else:
        res.bad("T-ROUNDTRIP", "Octahedral bond re-insertion",
                efi.loc(om["branch"]), f"{inst}: order={om['order']}, "
                f"old bonds removed={om['removes']}", instance=inst)
    # ----------------------------------------------------------- tetrahedral
    tm = exp["Tetrahedral"]
    br = tm["branch"]
    sel = None

    def _is_desc_cmp(t):
        return isinstance(t, ast.Compare) and "a_stereo" in norm(t) and any(
            isinstance(x, ast.Call) and call_name(x) in DESCRIPTOR_NAMES
            for x in ast.walk(t))

    for node in ast.walk(br):
        if isinstance(node, ast.If) and _is_desc_cmp(node.test) and \
                node.orelse:
            sel = node
        elif isinstance(node, ast.Assign) and isinstance(
                node.value, ast.IfExp) and _is_desc_cmp(node.value.test):
            # canonical form of `if c: x = A else: x = B`
            v = node.value
            sel = ast.If(
                test=v.test,
                body=[ast.Assign(targets=node.targets, value=v.body)],
                orelse=[ast.Assign(targets=node.targets, value=v.orelse)])
            ast.copy_location(sel, node)
            ast.fix_missing_locations(sel)
    etags = exp["tetrahedral_tags"]
    itags = imp["tetrahedral_tags"]
    inst = "Tetrahedral tag tables are mutually inverse"
    if {v: k for k, v in etags.items()} == {
            k: v for k, v in itags.items()} and len(etags) == 3:
        res.ok("T-INVERSE", inst, efi.loc(br))
    else:
        res.bad("T-INVERSE", "tetrahedral tag tables", efi.loc(br),
                f"{inst}: exporter {etags}, importer {itags}", instance=inst)
    raw = [c for c in tm["cmps"] if isinstance(c.ops[0], ast.In)
           or not any(isinstance(x, ast.Call) and call_name(x) == "Tetrahedral"
                      for x in ast.walk(c))]
    if sel is None or raw:
        c = raw[0] if raw else br
        res.bad("R-ORBIT-CMP", f"Tetrahedral export: {norm(c, 80)}",
                efi.loc(c), f"Tetrahedral: the tag is not chosen by "
                f"descriptor equality (`{norm(c, 80)}`): RDKit's neighbour "
                "tuple has 3 entries for a lone-pair centre and never "
                "matches the 4-entry orbit slices")
    else:
        res.ok("R-ORBIT-CMP", "Tetrahedral export compares descriptors",
               efi.loc(sel))
        cmpn = sel.test
        side = cmpn.left if "a_stereo" not in norm(cmpn.left) else \
            cmpn.comparators[0]

        def tag_of(stmts):
            for st in stmts:
                for n in ast.walk(st):
                    if isinstance(n, ast.Subscript) and norm(n.value) == \
                            "rd_tetrahedral":
                        try:
                            return etags.get(ast.literal_eval(n.slice))
                        except Exception:
                            return None
            return None
        t_true, t_false = tag_of(sel.body), tag_of(sel.orelse)
        for k in (4, 3):
            nb = tuple(f"n{i}" for i in range(k))
            f = Fold({"atom": "c", "rd_nbrs": nb, "rd_nbr_order": nb,
                      "neighbors": nb})
            stmts = sorted([s for s in ast.walk(br) if isinstance(s, ast.Assign)
                            and s.lineno < sel.lineno and norm(s.targets[0])
                            not in ("rd_nbrs", "rd_nbr_order", "neighbors")],
                           key=lambda s: s.lineno)
            f.run(stmts)
            ca = f.ev(side.args[0]) if side.args else UNK
            cp = f.ev(side.args[1]) if len(side.args) > 1 else UNK
            if ca is UNK or cp is UNK or t_true is None or t_false is None:
                raise AnalysisError("Tetrahedral export: candidate not "
                                    f"foldable for {k} neighbours")
            ligs = nb + (None,) * (4 - k)
            # importer: (centre, *neighbours[, None]) with the tag's parity
            imp_atoms = ("c",) + nb + (None,) * (4 - k)
            n_bad, first_bad, cells = 0, None, 0
            for tau in permutations(ligs):
                for par in (1, -1):
                    cells += 1
                    d = ("c",) + tau
                    tag = t_true if G.equiv("Tetrahedral", ca, cp, d, par) \
                        else t_false
                    ip = itags.get(tag)
                    if ip is None or not G.equiv("Tetrahedral", imp_atoms, ip,
                                                 d, par):
                        n_bad += 1
                        first_bad = first_bad or (d, par, tag, ip)
            inst = (f"Tetrahedral with {k} neighbours"
                    f"{' (lone pair)' if k == 3 else ''}: {cells} cells "
                    "round-trip")
            if n_bad == 0:
                res.ok("T-ROUNDTRIP", inst, efi.loc(sel))
            else:
                d, par, tag, ip = first_bad
                res.bad("T-ROUNDTRIP", f"Tetrahedral {k} neighbours",
                        efi.loc(sel), f"{inst}: {n_bad} fail, e.g. {d} parity "
                        f"{par} is exported as {tag} and read back with "
                        f"parity {ip}", instance=inst)
    # ---------------------------------------------------------------- purity
    from ..absint import IMM, Interp
    for K in ("MolGraph", "StereoMolGraph", "CondensedReactionGraph",
              "StereoCondensedReactionGraph"):
        I = Interp(prog, max_depth=12)
        I.call_method(K, "_to_rdmol", I.input(K, "self"), [IMM, IMM, IMM])
        inst = f"{K}._to_rdmol has no write effect on the graph"
        if I.events:
            ev = I.events[0]
            res.bad("R-EXPORT-PURE", f"{ev.func}: {ev.stmt}", ev.where,
                    f"{inst}: {ev.kind} on {ev.owner}.{ev.slot} at "
                    f"`{ev.stmt}`", instance=inst)
        else:
            res.ok("R-EXPORT-PURE", inst, "")
    # memoisation keyed by graphs: graph __eq__ / __hash__ are isomorphism
    res.rule("R-NO-GRAPH-CACHE", "no function that takes a graph is memoised "
             "(functools.lru_cache / cache): graphs compare and hash by "
             "isomorphism, while bond-order matrices, index maps and RDKit "
             "molecules are indexed by position / identifier; an equal graph "
             "with another atom order would receive the cached data of the "
             "first")
    n_fn = 0
    for mod in prog.modules.values():
        for fn in ast.walk(mod.tree):
            if not isinstance(fn, ast.FunctionDef):
                continue
            n_fn += 1
            decos = [norm(d) for d in fn.decorator_list]
            cached = [d for d in decos if d.split("(")[0].split(".")[-1] in (
                "lru_cache", "cache", "cached_property", "memoize")]
            if not cached:
                continue
            params = [a for a in fn.args.posonlyargs + fn.args.args
                      + fn.args.kwonlyargs]
            graphy = [a.arg for a in params if a.arg in (
                "graph", "g", "g1", "g2", "mg", "smg", "mol_graph", "self")
                      or (a.annotation is not None
                          and "Graph" in norm(a.annotation))]
            inst = f"{mod.name}:{fn.name} decorated with {cached}"
            if graphy:
                res.bad("R-NO-GRAPH-CACHE", inst, mod.loc(fn),
                        f"{inst} and takes the graph parameter(s) {graphy}: "
                        "the cache is keyed by graph isomorphism; exporting "
                        "an equal graph whose atoms were inserted in another "
                        "order reuses position-indexed data of the first "
                        "(double bonds land on the wrong atoms)")
            else:
                res.ok("R-NO-GRAPH-CACHE", inst, mod.loc(fn))
    res.ok("R-NO-GRAPH-CACHE", f"{n_fn} functions scanned, none memoised "
           "on a graph", "") if not any(
        f.rule == "R-NO-GRAPH-CACHE" for f in res.findings) else None
    # dictionary directions (shared with C18)
    from .C18 import check_dict_dir
    res.rule("R-DICT-DIR", "set_bond_orders indexes each dictionary with "
             "the kind of its keys")
    check_dict_dir(prog, res)
    res.exhaustive = True
    res.trusted += ["RDKit: GetNeighbors() follows bond insertion order; "
                    "chiral tags, _chiralPermutation and atom-map numbers "
                    "are carried unchanged",
                    "literal permutation tables (checked by C04)"]
