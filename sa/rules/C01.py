"""C01 -- equality never misses (renaming / re-expression)."""
from __future__ import annotations

from .. import eqrules, hashrules, iso
from ..core import Program
from ..report import Result
from . import C04

LEVEL_TEXT = (
    "static necessary conditions of completeness: the four __eq__ call the "
    "search symmetrically with the class's own refinement labels; every "
    "index / membership / update site of the VF2++ functions uses an atom of "
    "the right graph (side-kind inference) and the two sides are handled by "
    "mirrored statements; empty graphs are guarded; the orbit tables and the "
    "orbit-membership form of descriptor equality (C04) and the "
    "renaming-invariant aggregation of colours (C03) hold. That the search "
    "finds an isomorphism whenever one exists is an algorithmic fact that is "
    "not decided.")


def run(prog: Program, res: Result, tier: str) -> None:
    from .. import memo
    memo.report(prog, res)
    res.trusted += ["side seeds: field names of _Parameters/_State, the "
                    "(u, v, state, params) protocol", "sa/pe.py"]
    eqrules.check_eq_sym(prog, res)
    eqrules.check_empty_guard(prog, res)
    iso.check_side(prog, res)
    iso.check_mirror(prog, res)
    iso.check_feasibility(prog, res)
    iso.check_both_sides(prog, res)
    iso.check_state_shape(prog, res)
    iso.check_revert(prog, res)
    iso.check_stereo_index(prog, res)
    iso.check_prechecks(prog, res)
    # identifier independence of the labels
    hashrules.check_aggregation(prog, res)
    hashrules.check_multiset_def(prog, res)
    hashrules.check_parity_norm(prog, res)
    # descriptor equality modulo the group
    C04.check_tables(prog, res)
    for name in C04.DESCRIPTOR_CLASSES:
        C04.check_eq(prog, res, prog.resolve_method(name, "__eq__"), name)
        # the stereo-change predicate compares SETS of descriptors
        C04.check_hash(prog, res, prog.resolve_method(name, "__hash__"), name)
        C04.check_perm_helpers(prog, res, name)
    C04.check_placeholder_safe(prog, res)
    # relabel leaves a usable graph (neighbour table of isolated atoms)
    from . import C11
    tmp = Result(res.prop)
    C11.run(prog, tmp, tier)
    # ... and is the library's own renaming: every identifier of the result
    # is the image of the source identifier (R-RENAME-ALL / R-RENAME-TOTAL)
    keep = ("R-REBUILD-SOURCE", "R-SLOT-COVER[relabel]", "R-CONTAINER-KIND",
            "R-RENAME-ALL", "R-RENAME-TOTAL")
    for r in keep:
        if r in tmp.rules:
            res.rules[r] = tmp.rules[r]
    res.obligations += [o for o in tmp.obligations if o.rule in keep]
    res.findings += [f for f in tmp.findings if f.rule in keep]
    res.errors += tmp.errors
