"""C10 -- derived graphs share no mutable state with their source.

Ownership abstract interpretation (sa/absint.py): for every derivation
operation x receiver class (x argument class) the abstract result object must
have, in every slot of its class, at least as many *fresh* container levels as
the slot's declared type has mutable levels; and the operation must have no
write effect on its inputs.
"""
from __future__ import annotations

from ..absint import (IMM, INF, ClassRef, Const, Cont, In, Interp, Obj, Shared,
                      Unknown, Value, depth)
from ..core import GRAPH_CLASSES, SHORT, AnalysisError, Program
from ..report import Result

LEVEL_TEXT = (
    "static ownership analysis (abstract interpretation over the resolved "
    "methods, class-context sensitive): every slot of every derived graph is "
    "proved fresh down to the depth of its declared container type, for "
    "every derivation operation x receiver class x argument class, and the "
    "operation is proved free of writes to its inputs. Attribute *values* are "
    "opaque (treated immutable): the claim is about API-level edits.")

from ..derive import (STEREO, REACTION, operations, describe,
                      weakest_site)


def run(prog: Program, res: Result, tier: str) -> None:
    res.rule("R-OWN", "every slot of the object returned by a derivation "
             "operation is Fresh(n) with n >= number of mutable container "
             "levels of the slot's declared type")
    res.rule("R-NEW-OBJECT", "a derivation operation returns a new object, "
             "never one of its inputs")
    res.trusted += [
        "transfer functions of sa/absint.py (deepcopy => fresh at all "
        "levels; comprehension/display/dict()/set()/.copy() => one fresh "
        "level; f(**d) => callee sees a fresh dict; update/subscript store "
        "=> inner value joins)",
        "descriptors, tuples, frozensets, enums, ints are immutable (R-IMM "
        "of C04 guards the descriptor part)",
        "attribute values stored by the user are opaque",
    ]
    n_ops = 0
    for label, K, G, thunk in operations(prog):
        tag = f"{SHORT[K]}.{label}" + (f"[arg {SHORT[G]}]" if G else "")
        I = Interp(prog)
        try:
            out = thunk(I)
        except AnalysisError:
            raise
        except RecursionError:
            res.error(f"R-OWN {tag}: interpreter recursion")
            continue
        n_ops += 1
        entry = prog.resolve_method(K, label.split("(")[0]) if label != \
            "json_deserialize" else None
        where = entry.loc() if entry else "src/stereomolgraph/experimental.py"
        if isinstance(out, In):
            res.bad("R-NEW-OBJECT", f"{tag} returns {out.label}", where,
                    f"{tag} returns its input `{out.label}` instead of a new "
                    "graph")
            continue
        if not isinstance(out, Obj):
            res.error(f"R-OWN {tag}: result could not be evaluated "
                      f"({out!r}; unmodelled: {I.unmodelled[:3]})")
            continue
        expected_cls = None
        if label in ("reactant", "product", "_ts"):
            expected_cls = None
        slots = prog.all_slots(out.cls)
        for s in slots:
            need = I.slot_levels(out.cls, s)
            v = out.slots.get(s, Unknown(f"slot {s} never assigned"))
            d = depth(v)
            inst = f"{tag} -> {out.cls}.{s} (needs {need} fresh levels)"
            if d < 0:
                res.error(f"R-OWN {inst}: value not evaluable: {describe(v)} "
                          f"{I.unmodelled[:3]}")
            elif d >= need:
                res.ok("R-OWN", inst, where,
                       "deep" if d >= INF else f"fresh x{d}")
            else:
                site = weakest_site(v) or out.why.get(s, "")
                res.bad("R-OWN", f"{site} => {s}", where,
                        f"{tag}: slot {s} of the result has only {d} fresh "
                        f"level(s) of {need} ({describe(v)}); sharing "
                        f"introduced at `{site}`", path=list(I.stack),
                        instance=inst)
    res.need("R-OWN", n_ops, 64, "derivation operation instances")
    res.need("R-OWN", res.count("R-OWN"), 290, "slot obligations")
    res.exhaustive = True
