"""C04 -- stereodescriptor identity is spatial identity.

Decided on the literal tables (exhaustively) and on the decision shape of
``__eq__`` / ``__hash__`` / ``invert`` / ``_perm_atoms`` / ``_inverted_atoms``
as resolved for every concrete descriptor class.
"""
from __future__ import annotations

import ast

from ..core import (DESCRIPTOR_CLASSES, AnalysisError, Program, const, dotted,
                    norm, call_name)
from ..pe import PE, UNKNOWN, Sym
from ..report import Result
from ..tables import (FIGURES, closure, compose, figure_symmetries, identity,
                      inverse, is_perm)

LEVEL_TEXT = (
    "static analysis, exhaustive over finite literal tables: every "
    "PERMUTATION_GROUP / inversion table is read from the source and proved "
    "(by pure table computation) to be exactly the proper rotation group / an "
    "improper operation of the idealised figure; the 16+4+4 parity cells of "
    "__eq__/__hash__/invert are enumerated by constant folding and each "
    "reachable exit must have the orbit-membership form.  Not decided: the "
    "behaviour of the comparison beyond this form.")

PARITIES = (None, 0, 1, -1)


def _literal_parities(ci) -> set | None:
    """Parity domain declared in the class header
    ``_StereoMixin[tuple[...], None | Literal[1, -1]]``."""
    for b in ci.node.bases:
        if isinstance(b, ast.Subscript):
            for n in ast.walk(b):
                if isinstance(n, ast.Subscript) and dotted(n.value) in (
                        "Literal", "typing.Literal"):
                    try:
                        v = ast.literal_eval(n.slice)
                    except Exception:
                        return None
                    return set(v) if isinstance(v, tuple) else {v}
    return None


def check_tables(prog: Program, res: Result) -> dict:
    res.rule("T-GROUP", "every PERMUTATION_GROUP row is a permutation of "
             "range(n), the table contains the identity and is closed")
    res.rule("T-ROT", "PERMUTATION_GROUP equals the set of position "
             "permutations induced by the PROPER rotations of the idealised "
             "figure (computed from exact coordinates, no frozen copy)")
    res.rule("T-INV", "chiral class: `inversion` is induced by an IMPROPER "
             "isometry of the figure (so inv not in G, inv G inv^-1 = G, "
             "inv^2 in G); achiral class: inversion is None and every "
             "isometry-induced permutation is in the table")
    groups = {}
    for name in DESCRIPTOR_CLASSES:
        ci = prog.cls(name)
        loc = ci.module.loc(ci.node)
        # the tables as the class sees them: its own body first, then the
        # classes of its MRO (a shared base of two descriptor classes)
        def seen(attr):
            for c in prog.mro(name):
                k = prog.classes.get(c)
                if k is not None and attr in k.assigns:
                    return k, k.assigns[attr]
            return None, None
        gci, gnode = seen("PERMUTATION_GROUP")
        ici, inode = seen("inversion")
        if gnode is None or inode is None:
            raise AnalysisError(f"{name}: PERMUTATION_GROUP/inversion literal "
                                "not found in the class or its bases")
        try:
            rows = tuple(tuple(r) for r in const(gnode))
            inv = const(inode)
        except Exception as e:
            raise AnalysisError(f"{name}: table is not a literal ({e})")
        fig = FIGURES[name]
        n = len(fig["points"])
        gloc = gci.module.loc(gnode)
        # T-GROUP -----------------------------------------------------------
        good_rows = True
        for r in rows:
            if not is_perm(r, n):
                good_rows = False
                res.bad("T-GROUP", f"{name}.PERMUTATION_GROUP row {r}", gloc,
                        f"{name}: row {r} is not a permutation of range({n})")
            else:
                res.ok("T-GROUP", f"{name} row {r} is a permutation", gloc)
        if not good_rows:
            continue
        G = set(rows)
        if len(G) != len(rows):
            res.bad("T-GROUP", f"{name}.PERMUTATION_GROUP duplicate", gloc,
                    f"{name}: duplicate rows")
        if identity(n) not in G:
            res.bad("T-GROUP", f"{name}.PERMUTATION_GROUP identity", gloc,
                    f"{name}: identity permutation missing")
        else:
            res.ok("T-GROUP", f"{name} identity present", gloc)
        cl = closure(G)
        if cl != G:
            miss = sorted(cl - G)[:3]
            res.bad("T-GROUP", f"{name}.PERMUTATION_GROUP closure", gloc,
                    f"{name}: table is not closed under composition "
                    f"(e.g. {miss} missing)")
        else:
            res.ok("T-GROUP", f"{name} closed ({len(G)} elements)", gloc)
        # T-ROT -------------------------------------------------------------
        proper, improper = figure_symmetries(fig["points"])
        for r in sorted(G - proper):
            kind = ("an improper operation (mirror image)"
                    if r in improper else "not a symmetry of the figure")
            res.bad("T-ROT", f"{name}.PERMUTATION_GROUP row {r}", gloc,
                    f"{name}: row {r} is {kind}; orderings related by it "
                    "compare equal although they are different arrangements")
        for r in sorted(proper - G):
            res.bad("T-ROT", f"{name}.PERMUTATION_GROUP missing {r}", gloc,
                    f"{name}: proper rotation {r} of the figure is missing; "
                    "the same arrangement written this way compares unequal")
        for r in sorted(G & proper):
            res.ok("T-ROT", f"{name} row {r} is a proper rotation", gloc)
        # T-INV -------------------------------------------------------------
        iloc = ici.module.loc(inode)
        declared = _literal_parities(ci)
        if declared is None:
            res.error(f"{name}: parity domain (Literal[...]) not found in "
                      "class header")
        else:
            chiral_decl = bool(declared & {1, -1})
            if chiral_decl != fig["chiral"] or (0 in declared) == chiral_decl:
                res.bad("T-INV", f"{name} parity domain {sorted(declared)}",
                        loc, f"{name}: declared parities {sorted(declared)} "
                        f"do not fit a {'chiral' if fig['chiral'] else 'achiral'} figure")
            else:
                res.ok("T-INV", f"{name} parity domain {sorted(declared)}", loc)
        if fig["chiral"]:
            if inv is None or not is_perm(tuple(inv), n):
                res.bad("T-INV", f"{name}.inversion", iloc,
                        f"{name}: chiral class needs an inversion permutation")
            else:
                inv = tuple(inv)
                if inv in improper and inv not in proper:
                    res.ok("T-INV", f"{name}.inversion {inv} is improper", iloc)
                else:
                    res.bad("T-INV", f"{name}.inversion {inv}", iloc,
                            f"{name}: inversion {inv} is not an improper "
                            "operation of the figure")
                if good_rows and cl == G:
                    conj = {compose(compose(inv, g), inverse(inv)) for g in G}
                    if conj != G or compose(inv, inv) not in G or inv in G:
                        res.bad("T-INV", f"{name}.inversion coset {inv}", iloc,
                                f"{name}: inversion does not normalise the "
                                "group / inv^2 not in G / inv in G")
                    else:
                        res.ok("T-INV", f"{name} inv normalises G, inv^2 in G",
                               iloc)
        else:
            if inv is not None:
                res.bad("T-INV", f"{name}.inversion", iloc,
                        f"{name}: achiral class must have inversion None")
            else:
                res.ok("T-INV", f"{name}.inversion is None (achiral)", iloc)
        groups[name] = (G, inv)
    return groups


# --------------------------------------------------------------------------
# shape of the comparison code
# --------------------------------------------------------------------------

def _strip_wrappers(e: ast.AST) -> ast.AST:
    while isinstance(e, ast.Call) and call_name(e) in (
            "tuple", "list", "set", "frozenset", "iter") and len(e.args) == 1:
        e = e.args[0]
    return e


def _is(e: ast.AST, text: str) -> bool:
    return norm(_strip_wrappers(e)) == text


class OrbitForm:
    """Recognises the accepted orbit-membership expressions."""

    def __init__(self, selfn: str, othern: str, group=None, inversion=None):
        self.s, self.o = selfn, othern
        # literal tables of the class under analysis (for operands that are
        # an explicit re-ordering of the atoms instead of _inverted_atoms())
        self.group = {tuple(g) for g in group} if group else None
        self.inversion = tuple(inversion) if inversion else None

    def reorder_kind(self, e: ast.AST) -> str | None:
        """e is a pure re-indexing of other.atoms / self.atoms (slices,
        constant subscripts, star tuples): 'mem' when that permutation is a
        rotation of the class, 'inv' when it lies in the coset of the class's
        mirror operation, 'bad:..' otherwise; None when e is no such
        expression."""
        if self.group is None:
            return None
        from ..convtables import Fold, UNK
        n = len(next(iter(self.group)))
        names = {x.attr for x in ast.walk(e) if isinstance(x, ast.Attribute)}
        roots = {norm(x) for x in ast.walk(e) if isinstance(x, ast.Attribute)
                 and x.attr == "atoms"}
        if len(roots) != 1 or names != {"atoms"}:
            return None
        root = roots.pop()
        if any(isinstance(x, ast.Call) for x in ast.walk(e)
               if not (isinstance(x, ast.Call) and call_name(x) in (
                   "tuple", "list"))):
            return None
        sym = tuple(range(n))
        v = Fold({root: sym}).ev(e)
        if v is UNK or not isinstance(v, tuple) or sorted(
                map(str, v)) != sorted(map(str, sym)):
            return None
        perm = tuple(v)
        if perm == sym:
            return None
        if perm in self.group:
            return "mem"
        if self.inversion is None:
            return None      # achiral class: no mirror operation to compare
        if self.inversion is not None:
            # perm = g o inversion for a rotation g  <=>  perm in coset
            inv = self.inversion
            coset = {tuple(inv[i] for i in g) for g in self.group} | {
                tuple(g[i] for i in inv) for g in self.group}
            if perm in coset:
                return "inv"
        return ("bad:re-ordering " + str(perm) + " of the atoms is neither a "
                "rotation nor the mirror operation of the class")

    def classify(self, e: ast.AST) -> set[str] | None:
        """Set of term kinds in a disjunction, None if unrecognised.
        kinds: 'id' (other.atoms == self.atoms), 'mem' (other.atoms in
        orbit(self)), 'inv' (other._inverted_atoms() in orbit(self) or
        other.atoms in orbit(self._inverted_atoms()) ...)."""
        if isinstance(e, ast.BoolOp) and isinstance(e.op, ast.Or):
            out: set[str] = set()
            for v in e.values:
                k = self.classify(v)
                if k is None:
                    return None
                out |= k
            return out
        s, o = self.s, self.o
        sa, oa = f"{s}.atoms", f"{o}.atoms"
        si, oi = f"{s}._inverted_atoms()", f"{o}._inverted_atoms()"
        sp, op_ = f"{s}._perm_atoms()", f"{o}._perm_atoms()"
        if isinstance(e, ast.UnaryOp) and isinstance(e.op, ast.Not):
            k = self.classify(e.operand)
            return None if k is None else {"bad:negated"}
        if isinstance(e, ast.BoolOp) and isinstance(e.op, ast.And):
            ks = [self.classify(v) for v in e.values]
            if any(k is None for k in ks):
                return None
            return {"bad:conjunction"}
        if isinstance(e, ast.Compare) and len(e.ops) == 1 and isinstance(
                e.ops[0], (ast.NotEq, ast.NotIn)):
            pos = ast.Compare(e.left, [ast.Eq() if isinstance(
                e.ops[0], ast.NotEq) else ast.In()], e.comparators)
            k = self.classify(pos)
            return None if k is None else {"bad:negated comparison"}
        if isinstance(e, ast.Compare) and len(e.ops) == 1:
            a, b = _strip_wrappers(e.left), _strip_wrappers(e.comparators[0])
            ta, tb = norm(a), norm(b)
            if isinstance(e.ops[0], ast.Eq):
                if {ta, tb} == {sa, oa}:
                    return {"id"}
                return None
            if isinstance(e.ops[0], ast.In):
                if (ta, tb) in ((oa, sp), (sa, op_)):
                    return {"mem"}
                if (ta, tb) in ((oi, sp), (si, op_)):
                    return {"inv"}
                if tb in (sp, op_):
                    rk = self.reorder_kind(a)
                    if rk is not None:
                        return {rk}
                return None
            return None
        if isinstance(e, ast.Call) and call_name(e) == "all" and len(
                e.args) == 1 and isinstance(
                e.args[0], (ast.GeneratorExp, ast.ListComp)):
            k = self.classify(ast.Call(ast.Name("any", ast.Load()),
                                       e.args, []))
            return None if k is None else {"bad:all() over the orbit"}
        if isinstance(e, ast.Call) and call_name(e) == "any" and len(
                e.args) == 1 and isinstance(
                e.args[0], (ast.GeneratorExp, ast.ListComp)):
            g = e.args[0]
            if len(g.generators) != 1 or g.generators[0].ifs:
                return None
            gen = g.generators[0]
            if not isinstance(gen.target, ast.Name):
                return None
            var = gen.target.id
            it = norm(_strip_wrappers(gen.iter))
            elt = g.elt
            if isinstance(elt, ast.Compare) and len(elt.ops) == 1 and \
                    isinstance(elt.ops[0], ast.NotEq):
                pos = ast.GeneratorExp(ast.Compare(
                    elt.left, [ast.Eq()], elt.comparators), g.generators)
                k = self.classify(ast.Call(ast.Name("any", ast.Load()),
                                           [pos], []))
                return None if k is None else {"bad:!= inside any()"}
            if not (isinstance(elt, ast.Compare) and len(elt.ops) == 1
                    and isinstance(elt.ops[0], ast.Eq)):
                return None
            a, b = norm(_strip_wrappers(elt.left)), norm(
                _strip_wrappers(elt.comparators[0]))
            if var not in (a, b):
                return None
            x = b if a == var else a
            if (x, it) in ((oa, sp), (sa, op_)):
                return {"mem"}
            if (x, it) in ((oi, sp), (si, op_)):
                return {"inv"}
            if it in (sp, op_):
                xe = _strip_wrappers(elt.comparators[0] if a == var
                                     else elt.left)
                rk = self.reorder_kind(xe)
                if rk is not None:
                    return {rk}
            return None
        return None


def _atoms_oracle(assume: str, selfn: str, othern: str):
    """Oracle for atom-level tests under an assumption about the two atom
    tuples: 'same' = other.atoms is a rearrangement of self.atoms."""
    sa, oa = f"{selfn}.atoms", f"{othern}.atoms"

    def is_set_of(e, who, pe, env):
        e2 = pe.sym(e, env)
        return norm(e2) in (f"set({who})", f"frozenset({who})")

    def oracle(e, pe, env):
        if assume != "same":
            return None
        e2 = pe.sym(e, env)
        if isinstance(e2, ast.Compare) and len(e2.ops) == 1:
            l, r = e2.left, e2.comparators[0]
            tl, tr = norm(l), norm(r)
            setish = {f"set({sa})", f"set({oa})", f"frozenset({sa})",
                      f"frozenset({oa})"}
            lens = {f"len({sa})", f"len({oa})"}
            if tl in setish and tr in setish and tl != tr:
                if isinstance(e2.ops[0], ast.Eq):
                    return True
                if isinstance(e2.ops[0], ast.NotEq):
                    return False
            if tl in lens and tr in lens and tl != tr:
                if isinstance(e2.ops[0], ast.Eq):
                    return True
                if isinstance(e2.ops[0], ast.NotEq):
                    return False
        if isinstance(e2, ast.Call) and isinstance(e2.func, ast.Attribute) \
                and e2.func.attr in ("issuperset", "issubset") and len(
                e2.args) == 1:
            a, b = norm(e2.func.value), norm(e2.args[0])
            setish = {f"set({sa})", f"set({oa})", f"frozenset({sa})",
                      f"frozenset({oa})"}
            if a in setish and b in setish:
                return True
        if isinstance(e2, ast.Call) and call_name(e2) == "hasattr":
            return True
        if isinstance(e2, ast.Call) and call_name(e2) == "isinstance":
            return True
        # the table theorems are about two descriptors of ONE class (the
        # cross-class case is R-DESC-CLASS): class identity holds
        if isinstance(e2, ast.Compare) and len(e2.ops) == 1:
            tl, tr = norm(e2.left), norm(e2.comparators[0])
            cls_of = {f"type({selfn})": 1, f"{selfn}.__class__": 1,
                      f"type({othern})": 2, f"{othern}.__class__": 2}
            if {cls_of.get(tl), cls_of.get(tr)} == {1, 2}:
                if isinstance(e2.ops[0], (ast.Is, ast.Eq)):
                    return True
                if isinstance(e2.ops[0], (ast.IsNot, ast.NotEq)):
                    return False
        return None
    return oracle


def check_eq(prog: Program, res: Result, fi, cls_name: str) -> None:
    res.rule("R-EQ-TABLE", "for all 16 (self.parity, other.parity) cells, "
             "with other.atoms a rearrangement of self.atoms, the reachable "
             "exits of __eq__ are: None involved -> True; chiral vs achiral "
             "-> False; equal parity -> other.atoms in orbit(self); opposite "
             "parity -> other._inverted_atoms() in orbit(self); never the "
             "trailing raise")
    f = fi.node
    params = fi.params()
    if len(params) < 2:
        raise AnalysisError(f"{fi.qual}: unexpected signature")
    s, o = params[0], params[1]
    try:
        from ..convtables import Groups
        G_ = Groups(prog)
        form = OrbitForm(s, o, G_.G.get(cls_name), G_.inv.get(cls_name))
    except Exception:
        form = OrbitForm(s, o)
    for sp in PARITIES:
        for op in PARITIES:
            cell = f"{cls_name}.__eq__[{sp},{op}]"
            env = {f"{s}.parity": sp, f"{o}.parity": op}
            pe = PE(f, env, oracle=_atoms_oracle("same", s, o))
            outs = pe.run()
            problems = []
            unknown = []
            kinds: set[str] = set()
            const_results: set = set()
            for out in outs:
                if out.kind == "raise" or out.kind == "fall":
                    problems.append(f"reaches `{norm(out.node) if out.node else 'end of function'}`")
                    continue
                e = out.sym
                v = pe.ev(out.expr, out.env) if out.expr is not None else None
                if isinstance(e, ast.Constant) or v is not UNKNOWN:
                    const_results.add(v)
                    continue
                if norm(e) == "NotImplemented":
                    problems.append("returns NotImplemented for a descriptor")
                    continue
                k = form.classify(e)
                if k is None:
                    # maybe a plain set comparison (None case)
                    unknown.append(norm(e))
                else:
                    kinds |= k
            badk = sorted(k for k in kinds if k.startswith("bad:"))
            if badk:
                problems.append("wrong polarity: " + ", ".join(badk))
                kinds = {k for k in kinds if not k.startswith("bad:")}
            if sp is None or op is None:
                expect = "True"
                good = (const_results == {True} and not kinds and not unknown)
            elif (sp == 0) != (op == 0):
                expect = "False"
                good = (const_results == {False} and not kinds and not unknown)
            elif sp == op:
                expect = "other.atoms in orbit(self)"
                good = ("mem" in kinds and "inv" not in kinds
                        and not const_results and not unknown)
            else:
                expect = "other._inverted_atoms() in orbit(self)"
                good = (kinds == {"inv"} and not const_results and not unknown)
            if unknown and not problems and not good:
                res.error(f"R-EQ-TABLE {cell}: unrecognised return form(s) "
                          f"{unknown} at {fi.loc()}")
                continue
            if problems or not good:
                got = sorted(map(str, const_results)) + sorted(kinds) + problems
                res.bad("R-EQ-TABLE", f"{fi.short}[{sp},{op}]", fi.loc(),
                        f"{cell}: expected {expect}, reachable exits give "
                        f"{got}", instance=cell)
            else:
                res.ok("R-EQ-TABLE", cell, fi.loc(), expect)


def _comp_images(e: ast.AST, selfn: str):
    """If e is frozenset({tuple([BASE[i] for i in perm]) for perm in
    SELF.PERMUTATION_GROUP}) return norm(BASE) else None."""
    outer_ok = isinstance(e, ast.Call) and call_name(e) == "frozenset" \
        and len(e.args) == 1
    if not outer_ok:
        return None
    c = e.args[0]
    if not isinstance(c, (ast.SetComp, ast.GeneratorExp, ast.ListComp)):
        return None
    if len(c.generators) != 1 or c.generators[0].ifs:
        return None
    gen = c.generators[0]
    if norm(gen.iter) != f"{selfn}.PERMUTATION_GROUP" or not isinstance(
            gen.target, ast.Name):
        return None
    pv = gen.target.id
    inner = _strip_wrappers(c.elt)
    if not isinstance(inner, (ast.ListComp, ast.GeneratorExp)):
        return None
    if len(inner.generators) != 1 or inner.generators[0].ifs:
        return None
    ig = inner.generators[0]
    if norm(ig.iter) != pv or not isinstance(ig.target, ast.Name):
        return None
    iv = ig.target.id
    if not (isinstance(inner.elt, ast.Subscript)
            and norm(inner.elt.slice) == iv):
        return None
    return norm(inner.elt.value)


def check_hash(prog: Program, res: Result, fi, cls_name: str) -> None:
    res.rule("R-HASH-TABLE", "__hash__: parity 0 -> hash of the frozenset of "
             "group images of self.atoms; parity +1 / -1 -> hash of the pair "
             "(orbit, inverted orbit) in the two opposite orders; parity None "
             "-> a function of the atoms as a multiset")
    f = fi.node
    s = fi.params()[0]
    got = {}
    for p in PARITIES:
        cell = f"{cls_name}.__hash__[{p}]"
        pe = PE(f, {f"{s}.parity": p})
        outs = pe.run()
        rets = [o for o in outs if o.kind == "return"]
        if any(o.kind != "return" for o in outs) or not rets:
            res.bad("R-HASH-TABLE", f"{fi.short}[{p}]", fi.loc(),
                    f"{cell}: a path does not return a hash value: "
                    f"{[o.kind for o in outs]}", instance=cell)
            continue
        if len(rets) != 1:
            res.error(f"R-HASH-TABLE {cell}: {len(rets)} reachable returns "
                      f"(unrecognised idiom, e.g. memoisation) at {fi.loc()}")
            continue
        e = rets[0].sym
        if not (isinstance(e, ast.Call) and call_name(e) == "hash"
                and len(e.args) == 1):
            res.error(f"R-HASH-TABLE {cell}: unrecognised return "
                      f"`{norm(e)}` at {fi.loc()}")
            continue
        arg = e.args[0]
        if p is None:
            names = {n.attr for n in ast.walk(arg)
                     if isinstance(n, ast.Attribute)}
            bad = names & {"PERMUTATION_GROUP", "parity", "inversion"}
            order_free = any(isinstance(n, ast.Call) and call_name(n) in (
                "frozenset", "Counter", "sorted") for n in ast.walk(arg))
            if bad or "atoms" not in names or not order_free:
                res.bad("R-HASH-TABLE", f"{fi.short}[None]", fi.loc(),
                        f"{cell}: hash for unspecified parity must be an "
                        f"order-free function of the atoms only (`{norm(arg)}`)",
                        instance=cell)
            else:
                res.ok("R-HASH-TABLE", cell, fi.loc(), norm(arg))
        elif p == 0:
            base = _comp_images(arg, s)
            if base != f"{s}.atoms":
                res.bad("R-HASH-TABLE", f"{fi.short}[0]", fi.loc(),
                        f"{cell}: expected hash(frozenset(images of "
                        f"self.atoms under PERMUTATION_GROUP)), got "
                        f"`{norm(arg)}`", instance=cell)
            else:
                res.ok("R-HASH-TABLE", cell, fi.loc(), "hash(orbit)")
        else:
            if not (isinstance(arg, ast.Tuple) and len(arg.elts) == 2):
                res.bad("R-HASH-TABLE", f"{fi.short}[{p}]", fi.loc(),
                        f"{cell}: expected hash((orbit, inverted orbit)), got "
                        f"`{norm(arg)}`", instance=cell)
                continue
            bases = tuple(_comp_images(x, s) for x in arg.elts)
            got[p] = bases
            want = {f"{s}.atoms", f"{s}._inverted_atoms()"}
            if None in bases and set(b for b in bases if b) <= want:
                # one component is built in a way the rule does not read
                # (composed index tables, cached orbits): not a verdict
                res.unrecognised("R-HASH-TABLE", cell, fi.loc(),
                                 f"pair component `{norm(arg.elts[bases.index(None)], 80)}` "
                                 "is not an orbit comprehension over "
                                 "PERMUTATION_GROUP")
                continue
            if set(bases) != want:
                res.bad("R-HASH-TABLE", f"{fi.short}[{p}]", fi.loc(),
                        f"{cell}: pair components must be the orbit of "
                        f"self.atoms and of self._inverted_atoms(), got "
                        f"{bases}", instance=cell)
            else:
                res.ok("R-HASH-TABLE", cell, fi.loc(), str(bases))
    if 1 in got and -1 in got and set(got[1]) == set(got[-1]):
        cell = f"{cls_name}.__hash__[+1 vs -1]"
        if got[1] != tuple(reversed(got[-1])):
            res.bad("R-HASH-TABLE", f"{fi.short}[+1 vs -1]", fi.loc(),
                    f"{cell}: the pair must be swapped between parity +1 and "
                    f"-1 ({got[1]} vs {got[-1]})", instance=cell)
        else:
            res.ok("R-HASH-TABLE", cell, fi.loc(), "orders swapped")


def check_invert(prog: Program, res: Result, fi, cls_name: str) -> None:
    res.rule("R-INVERT", "invert(): parity None/0 -> returns self; parity "
             "+-1 -> returns a new object of the same class over the same "
             "atoms with the negated parity")
    f = fi.node
    s = fi.params()[0]
    for p in PARITIES:
        cell = f"{cls_name}.invert[{p}]"
        pe = PE(f, {f"{s}.parity": p})
        outs = pe.run()
        rets = [o for o in outs if o.kind == "return"]
        if len(outs) != 1 or len(rets) != 1:
            res.bad("R-INVERT", f"{fi.short}[{p}]", fi.loc(),
                    f"{cell}: expected one reachable return, got "
                    f"{[(o.kind, norm(o.node)) for o in outs]}", instance=cell)
            continue
        out = rets[0]
        e = out.sym
        if p in (None, 0):
            if norm(e) != s:
                res.bad("R-INVERT", f"{fi.short}[{p}]", fi.loc(),
                        f"{cell}: must return self, returns `{norm(e)}`",
                        instance=cell)
            else:
                res.ok("R-INVERT", cell, fi.loc(), "returns self")
            continue
        ok = False
        if isinstance(e, ast.Call) and norm(e.func) in (
                f"{s}.__class__", f"type({s})", cls_name):
            args = list(e.args)
            kw = {k.arg: k.value for k in e.keywords}
            a0 = args[0] if args else kw.get("atoms")
            a1 = args[1] if len(args) > 1 else kw.get("parity")
            if a0 is not None and a1 is not None and norm(a0) == f"{s}.atoms":
                v = pe.ev(a1, {f"{s}.parity": p})
                if v is UNKNOWN and out.expr is not None:
                    # evaluate through the path-local constants
                    orig = out.expr
                    if isinstance(orig, ast.Call):
                        oargs = list(orig.args)
                        okw = {k.arg: k.value for k in orig.keywords}
                        o1 = oargs[1] if len(oargs) > 1 else okw.get("parity")
                        if o1 is not None:
                            v = pe.ev(o1, out.env)
                ok = (v == -p)
        if not ok and not isinstance(e, ast.Call) and norm(e) != s:
            res.error(f"R-INVERT {cell}: unrecognised return form "
                      f"`{norm(e)}` at {fi.loc()}")
        elif not ok:
            res.bad("R-INVERT", f"{fi.short}[{p}]", fi.loc(),
                    f"{cell}: must return {cls_name}(self.atoms, {-p}), "
                    f"returns `{norm(e)}`", instance=cell)
        else:
            res.ok("R-INVERT", cell, fi.loc(), f"new object, parity {-p}")


def _index_comp(e: ast.AST):
    """tuple([BASE[i] for i in ITER]) -> (norm(BASE), norm(ITER))"""
    e = _strip_wrappers(e)
    if isinstance(e, (ast.ListComp, ast.GeneratorExp)) and len(
            e.generators) == 1 and not e.generators[0].ifs:
        g = e.generators[0]
        if isinstance(g.target, ast.Name) and isinstance(
                e.elt, ast.Subscript) and norm(e.elt.slice) == g.target.id:
            return norm(e.elt.value), norm(g.iter)
    return None


def check_perm_helpers(prog: Program, res: Result, cls_name: str) -> None:
    res.rule("R-ORBIT-DEF", "_perm_atoms(): specified parity -> exactly the "
             "images of self.atoms under PERMUTATION_GROUP; parity None -> "
             "all permutations.  _inverted_atoms(): self.atoms re-indexed by "
             "`inversion` (self.atoms when inversion is None)")
    fi = prog.resolve_method(cls_name, "_perm_atoms")
    if fi is None:
        raise AnalysisError(f"{cls_name}._perm_atoms vanished")
    s = fi.params()[0]
    for p in PARITIES:
        cell = f"{cls_name}._perm_atoms[{p}]"
        pe = PE(fi.node, {f"{s}.parity": p})
        rets = [o for o in pe.run()]
        if len(rets) != 1 or rets[0].kind != "return":
            res.bad("R-ORBIT-DEF", f"{fi.short}[{p}]", fi.loc(),
                    f"{cell}: expected one reachable return", instance=cell)
            continue
        e = _strip_wrappers(rets[0].sym)
        good = False
        if isinstance(e, (ast.GeneratorExp, ast.ListComp, ast.SetComp)) \
                and len(e.generators) == 1 and not e.generators[0].ifs:
            g = e.generators[0]
            ic = _index_comp(e.elt)
            if ic and isinstance(g.target, ast.Name) and ic[1] == g.target.id \
                    and ic[0] == f"{s}.atoms":
                it = norm(g.iter)
                if p is None:
                    good = it.startswith("itertools.permutations(") or \
                        it.startswith("permutations(")
                else:
                    good = it == f"{s}.PERMUTATION_GROUP"
        if good:
            res.ok("R-ORBIT-DEF", cell, fi.loc())
        else:
            res.bad("R-ORBIT-DEF", f"{fi.short}[{p}]", fi.loc(),
                    f"{cell}: does not enumerate "
                    f"{'all permutations' if p is None else 'the PERMUTATION_GROUP images'}"
                    f" of self.atoms: `{norm(rets[0].sym)}`", instance=cell)
    fi = prog.resolve_method(cls_name, "_inverted_atoms")
    if fi is None:
        raise AnalysisError(f"{cls_name}._inverted_atoms vanished")
    s = fi.params()[0]
    for invcase in ("None", "perm"):
        cell = f"{cls_name}._inverted_atoms[inversion {invcase}]"

        def oracle(e, pe, env, invcase=invcase):
            t = norm(pe.sym(e, env))
            if t == f"{s}.inversion is None":
                return invcase == "None"
            if t == f"{s}.inversion is not None":
                return invcase != "None"
            return None
        pe = PE(fi.node, {}, oracle=oracle)
        outs = [o for o in pe.run() if o.kind != "raise"]
        if len(outs) != 1 or outs[0].kind != "return":
            res.bad("R-ORBIT-DEF", f"{fi.short}[{invcase}]", fi.loc(),
                    f"{cell}: expected one reachable return", instance=cell)
            continue
        e = outs[0].sym
        if invcase == "None":
            good = norm(e) == f"{s}.atoms"
        else:
            good = _index_comp(e) == (f"{s}.atoms", f"{s}.inversion")
        if good:
            res.ok("R-ORBIT-DEF", cell, fi.loc())
        else:
            res.bad("R-ORBIT-DEF", f"{fi.short}[{invcase}]", fi.loc(),
                    f"{cell}: returns `{norm(e)}`", instance=cell)


def check_placeholder_safe(prog: Program, res: Result) -> None:
    """Orderings may contain the None placeholder more than once, so a map
    atom -> position is not a function."""
    res.rule("R-PLACEHOLDER-SAFE", "the comparison / hash code of a "
             "descriptor never recovers a permutation through a positional "
             "lookup of atoms (tuple.index, a dict keyed by the atoms): with "
             "two placeholders that lookup is not injective; orderings are "
             "compared as whole tuples")
    ci = prog.cls("_StereoMixin")
    # closure of __eq__ / __hash__ over self.<method>() calls
    todo = ["__eq__", "__hash__"]
    seen: set[str] = set()
    n = 0
    for cname in ("_StereoMixin",) + DESCRIPTOR_CLASSES:
        cinfo = prog.cls(cname)
        work = list(todo)
        while work:
            m = work.pop()
            fi = cinfo.methods.get(m)
            if fi is None or fi.qual in seen:
                continue
            seen.add(fi.qual)
            n += 1
            bad = None
            for node in ast.walk(fi.node):
                if isinstance(node, ast.Call) and isinstance(
                        node.func, ast.Attribute):
                    if node.func.attr == "index":
                        bad = node
                    if isinstance(node.func.value, ast.Name) and \
                            node.func.value.id in ("self", "other"):
                        work.append(node.func.attr)
                elif isinstance(node, ast.Attribute) and node.attr == "index" \
                        and not isinstance(parent_of(node), ast.Call):
                    bad = node                       # map(x.index, ...)
                elif isinstance(node, ast.DictComp):
                    gen = node.generators[0]
                    if "atoms" in norm(gen.iter) and norm(node.key) in {
                            n2.id for n2 in ast.walk(gen.target)
                            if isinstance(n2, ast.Name)}:
                        bad = node
                elif isinstance(node, ast.Call) and call_name(node) == "dict" \
                        and node.args and isinstance(node.args[0], ast.Call) \
                        and call_name(node.args[0]) == "zip" and node.args[0].args \
                        and "atoms" in norm(node.args[0].args[0]):
                    bad = node
            inst = f"{fi.short}: whole-tuple comparison"
            if bad is not None:
                res.bad("R-PLACEHOLDER-SAFE", f"{fi.short}: {norm(bad, 80)}",
                        fi.loc(bad),
                        f"{fi.short}: `{norm(bad, 80)}` looks atoms up by "
                        "position; orderings with two None placeholders "
                        "(lone pairs / missing substituents) are then "
                        "compared through the wrong permutation",
                        instance=inst)
            else:
                res.ok("R-PLACEHOLDER-SAFE", inst, fi.loc())
    res.need("R-PLACEHOLDER-SAFE", n, 4, "comparison helpers")


def parent_of(node):
    from ..core import parent
    p = parent(node)
    # map(x.index, ys): the attribute is an argument, not the callee
    if isinstance(p, ast.Call) and p.func is node:
        return p
    return None


def check_immutable(prog: Program, res: Result) -> None:
    res.rule("R-IMM", "no store to .atoms / .parity / .PERMUTATION_GROUP / "
             ".inversion of a descriptor anywhere except the assignments of "
             "self.atoms / self.parity in the descriptor __init__ and the "
             "class-body tables")
    n = 0
    for mod in prog.modules.values():
        for node in ast.walk(mod.tree):
            targets = []
            if isinstance(node, ast.Assign):
                targets = node.targets
            elif isinstance(node, (ast.AugAssign, ast.AnnAssign)):
                targets = [node.target]
            elif isinstance(node, ast.Delete):
                targets = node.targets
            elif isinstance(node, ast.Call) and call_name(node) in (
                    "setattr", "object.__setattr__") and len(node.args) >= 2:
                a = node.args[1]
                if isinstance(a, ast.Constant) and a.value in (
                        "atoms", "parity", "PERMUTATION_GROUP", "inversion"):
                    res.bad("R-IMM", f"{mod.name}: {norm(node)}", mod.loc(node),
                            f"setattr on descriptor field: `{norm(node)}`")
                continue
            for t in targets:
                for sub in ast.walk(t):
                    if isinstance(sub, ast.Attribute) and sub.attr in (
                            "atoms", "parity", "PERMUTATION_GROUP",
                            "inversion") and isinstance(
                            sub.ctx, (ast.Store, ast.Del)):
                        n += 1
                        fn = next((a for a in _anc(sub) if isinstance(
                            a, ast.FunctionDef)), None)
                        cl = next((a for a in _anc(sub) if isinstance(
                            a, ast.ClassDef)), None)
                        allowed = (
                            fn is not None and fn.name == "__init__"
                            and cl is not None and mod.name == "stereodescriptors"
                            and norm(sub.value) == fn.args.args[0].arg
                            and sub.attr in ("atoms", "parity"))
                        if allowed:
                            res.ok("R-IMM", f"{cl.name}.__init__: {norm(node)}",
                                   mod.loc(node))
                        else:
                            res.bad("R-IMM", f"{mod.name}: {norm(node)}",
                                    mod.loc(node),
                                    f"descriptor field written outside its "
                                    f"constructor: `{norm(node)}`")
                    elif isinstance(sub, ast.Subscript) and isinstance(
                            sub.ctx, (ast.Store, ast.Del)) and isinstance(
                            sub.value, ast.Attribute) and sub.value.attr in (
                            "atoms", "PERMUTATION_GROUP", "inversion"):
                        res.bad("R-IMM", f"{mod.name}: {norm(node)}",
                                mod.loc(node),
                                f"element store into descriptor table/tuple: "
                                f"`{norm(node)}`")
    res.need("R-IMM", res.count("R-IMM"), 2, "descriptor field stores")


def _anc(node):
    from ..core import ancestors
    return ancestors(node)


def check_desc_class(prog: Program, res: Result) -> None:
    res.rule("R-DESC-CLASS", "descriptor equality is decided with the "
             "symmetry table of the LEFT operand only, so it must first "
             "reject an operand of another descriptor class (identity test "
             "on type() / __class__): otherwise TrigonalBipyramidal(t, 1) == "
             "AtropBond(t, 1) holds with different hashes and `==` is not "
             "symmetric across classes")
    seen = set()
    for name in DESCRIPTOR_CLASSES:
        fi = prog.resolve_method(name, "__eq__")
        if fi is None or fi.qual in seen:
            continue
        seen.add(fi.qual)
        s_, o_ = fi.params()[:2]
        inst = f"{fi.short}: operands of different descriptor classes are unequal"
        sym = {f"type({o_}) is not type({s_})", f"type({s_}) is not type({o_})",
               f"{o_}.__class__ is not {s_}.__class__",
               f"{s_}.__class__ is not {o_}.__class__",
               f"type({o_}) != type({s_})", f"type({s_}) != type({o_})",
               f"{o_}.__class__ != {s_}.__class__",
               f"{s_}.__class__ != {o_}.__class__"}
        ok = False
        for n in fi.node.body:
            # the guard must come before the first table comparison
            if isinstance(n, ast.If) and any(
                    isinstance(b, ast.Return) and norm(b.value) in (
                        "False", "NotImplemented") for b in n.body):
                tests = [n.test]
                if isinstance(n.test, ast.BoolOp) and isinstance(
                        n.test.op, ast.Or):
                    tests = n.test.values
                if any(norm(t) in sym for t in tests):
                    ok = True
                    break
            if any(isinstance(x, ast.Call) and isinstance(
                    x.func, ast.Attribute) and x.func.attr == "_perm_atoms"
                   for x in ast.walk(n)):
                break
        if ok:
            res.ok("R-DESC-CLASS", inst, fi.loc())
        else:
            res.bad("R-DESC-CLASS", f"{fi.short}: no class guard", fi.loc(),
                    f"{inst}: no `type(other) is not type(self)` guard before "
                    "the table comparison: descriptors of two classes with "
                    "the same number of atoms and parity domain (e.g. "
                    "TrigonalBipyramidal / AtropBond) compare equal with "
                    "different hashes, and asymmetrically", instance=inst)


def run(prog: Program, res: Result, tier: str) -> None:
    res.trusted += [
        "idealised figures (position -> exact coordinates) in sa/tables.py, "
        "taken from the class docstrings of stereodescriptors.py",
        "partial evaluator sa/pe.py (constant folding of parity tests)",
        "Python semantics of ==, in, any, frozenset, hash of tuples",
    ]
    check_tables(prog, res)
    seen_impl = set()
    for name in DESCRIPTOR_CLASSES:
        for meth, chk in (("__eq__", check_eq), ("__hash__", check_hash),
                          ("invert", check_invert)):
            fi = prog.resolve_method(name, meth)
            if fi is None:
                raise AnalysisError(f"{name}.{meth} does not resolve")
            # analyse each resolved implementation once per concrete class
            chk(prog, res, fi, name)
            seen_impl.add(fi.qual)
        check_perm_helpers(prog, res, name)
    check_immutable(prog, res)
    check_placeholder_safe(prog, res)
    check_desc_class(prog, res)
    res.exhaustive = True
    res.extra["resolved_implementations"] = sorted(seen_impl)
    res.need("T-ROT", res.count("T-ROT"), 58, "table rows")
    res.need("R-EQ-TABLE", res.count("R-EQ-TABLE"), 96, "parity cells")
