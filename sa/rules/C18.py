"""C18 -- bond-order perception never alters connectivity (structural part)."""
from __future__ import annotations

import ast
from ..core import utext
import re

from ..core import (AnalysisError, DefUse, Program, ancestors, call_name, norm,
                    parent)
from ..report import Result

LEVEL_TEXT = (
    "static who-writes / pairing analysis of algorithms/bond_orders.py: the "
    "only element stores into a matrix are the adjacent symmetric pair "
    "BO[i, j] += 1; BO[j, i] += 1 with (i, j) drawn from pairs that were "
    "selected under AC[i, j] == 1, every matrix is AC or a copy of it, and "
    "every returned matrix is one of them; by induction the result is "
    "symmetric, integer, >= AC and positive exactly on bonded pairs. "
    "set_bond_orders indexes every dictionary with the kind of its keys. The "
    "chemical part (octets, valences, atom-order independence) is an "
    "algorithmic search and is not decided.")

MOD = "algorithms.bond_orders"
MATRICES = ("AC", "BO", "best_BO", "con_mat", "BO_matrix")


def matrix_locals(fn: ast.FunctionDef) -> set[str]:
    """Names of fn that hold a connectivity / bond-order matrix: parameters
    annotated as N x N arrays (or carrying one of the conventional names) and
    locals obtained from them by copying or from _get_BO(...)."""
    mats: set[str] = set()
    a = fn.args
    for arg in a.posonlyargs + a.args + a.kwonlyargs:
        ann = norm(arg.annotation) if arg.annotation is not None else ""
        if "tuple[N, N]" in ann or arg.arg in MATRICES:
            mats.add(arg.arg)

    def is_matrix_value(v) -> bool:
        if isinstance(v, ast.Name):
            return v.id in mats
        if isinstance(v, ast.Call):
            cn = call_name(v) or ""
            if cn == "_get_BO":
                return True
            if isinstance(v.func, ast.Attribute) and v.func.attr == "copy" \
                    and not v.args:
                return is_matrix_value(v.func.value)
            if cn in ("copy.copy", "copy.deepcopy", "np.array", "np.copy",
                      "numpy.array") and v.args:
                return is_matrix_value(v.args[0]) or (
                    cn.endswith("array") and "connectivity" in norm(v.args[0]))
        return False

    for _ in range(4):
        for n in ast.walk(fn):
            if isinstance(n, ast.Assign) and len(n.targets) == 1:
                t = n.targets[0]
                if isinstance(t, ast.Name) and is_matrix_value(n.value):
                    mats.add(t.id)
                elif isinstance(t, ast.Tuple) and t.elts and isinstance(
                        t.elts[0], ast.Name) and isinstance(
                        n.value, ast.Call) and call_name(n.value) == "_AC2BO":
                    mats.add(t.elts[0].id)
    return mats


def _from_ua_pairs(fn: ast.FunctionDef, it: ast.AST) -> bool:
    """The iterable is the UA_pairs parameter (5th positional of _get_BO) or
    a local assigned from _get_UA_pairs(...)."""
    if not isinstance(it, ast.Name):
        return False
    a = fn.args
    params = [x.arg for x in a.posonlyargs + a.args]
    if fn.name == "_get_BO" and len(params) >= 5 and it.id == params[4]:
        return True
    for n in ast.walk(fn):
        if isinstance(n, ast.Assign) and len(n.targets) == 1 and norm(
                n.targets[0]) == it.id and "_get_UA_pairs(" in norm(n.value):
            return True
    return False


def run(prog: Program, res: Result, tier: str) -> None:
    res.rule("R-BO-WRITES", "in bond_orders.py a matrix element is only "
             "written by the adjacent symmetric pair `M[i, j] += 1; M[j, i] "
             "+= 1` inside `for i, j in UA_pairs`; matrices are only created "
             "as copies of the connectivity matrix; every returned matrix is "
             "AC, BO or best_BO")
    res.rule("R-BO-PAIRS", "UA_pairs come only from _get_UA_pairs -> "
             "_get_bonds, whose append is control-dependent on AC[i, j] == 1")
    res.rule("R-DICT-DIR", "set_bond_orders indexes each dictionary with the "
             "kind of its keys: matrix positions (enumerate index), atom "
             "identifiers, RDKit indices are three different kinds")
    mod = prog.module(MOD)
    n_pairs = 0
    for fn in [n for n in mod.tree.body if isinstance(n, ast.FunctionDef)]:
        if prog.inlined_away(f"{MOD}:{fn.name}"):
            continue        # a new helper, analysed inside its callers
        MATS = matrix_locals(fn) | set(MATRICES)
        stores = []
        for node in ast.walk(fn):
            tgt = None
            if isinstance(node, ast.AugAssign):
                tgt = node.target
            elif isinstance(node, ast.Assign):
                for t in node.targets:
                    if isinstance(t, ast.Subscript):
                        tgt = t
            if isinstance(tgt, ast.Subscript) and isinstance(
                    tgt.value, ast.Name) and (
                    tgt.value.id in MATS or isinstance(tgt.slice, ast.Tuple)):
                # element store into a 2-d array
                if isinstance(tgt.slice, ast.Tuple) and len(tgt.slice.elts) == 2:
                    stores.append(node)
        for st in stores:
            inst = f"{fn.name}: {norm(st)}"
            ok = False
            why = "not the symmetric += 1 pair inside `for i, j in UA_pairs`"
            if isinstance(st, ast.AugAssign) and isinstance(st.op, ast.Add) \
                    and norm(st.value) == "1":
                i, j = (norm(e) for e in st.target.slice.elts)
                m = norm(st.target.value)
                body = parent(st).body if hasattr(parent(st), "body") else []
                idx = body.index(st) if st in body else -1
                partner = f"{m}[{j}, {i}] += 1"
                sib = [norm(b) for b in body]
                loop = parent(st)
                pairs_ok = isinstance(loop, ast.For) and (
                    norm(loop.iter) == "UA_pairs" or _from_ua_pairs(
                        fn, loop.iter))
                if partner in sib and abs(sib.index(partner) - idx) == 1 and \
                        isinstance(loop, ast.For) and norm(loop.target) in (
                        f"({i}, {j})", f"({j}, {i})") and pairs_ok and i != j:
                    ok = True
                    n_pairs += 1
            if ok:
                res.ok("R-BO-WRITES", inst, mod.loc(st))
            else:
                res.bad("R-BO-WRITES", inst, mod.loc(st),
                        f"{fn.name}: `{norm(st)}` writes a matrix element: "
                        f"{why}; the result may become asymmetric or bond "
                        "non-bonded pairs")
        # matrix creations / rebinding
        for node in ast.walk(fn):
            if isinstance(node, ast.Assign) and isinstance(
                    node.targets[0], ast.Name) and (node.targets[0].id in (
                    "BO", "best_BO") or (node.targets[0].id in MATS
                                         and fn.name in ("_AC2BO", "_get_BO"))):
                v = norm(node.value)
                inst = f"{fn.name}: {norm(node)}"
                m_copy = re.fullmatch(r"(\w+)\.copy\(\)", v)
                if (m_copy and m_copy.group(1) in MATS) or \
                        v.startswith("_get_BO("):
                    res.ok("R-BO-WRITES", inst, mod.loc(node))
                else:
                    res.bad("R-BO-WRITES", inst, mod.loc(node),
                            f"{fn.name}: matrix `{norm(node)}` is not a copy "
                            "of the connectivity / bond-order matrix")
            if isinstance(node, ast.Call) and isinstance(
                    node.func, ast.Attribute) and isinstance(
                    node.func.value, ast.Name) and node.func.value.id in \
                    MATS and node.func.attr in ("fill", "itemset", "put",
                                                    "sort", "resize"):
                res.bad("R-BO-WRITES", f"{fn.name}: {norm(node)}",
                        mod.loc(node), f"{fn.name}: in-place `{norm(node)}`")
    res.need("R-BO-WRITES", n_pairs // 1, 2, "symmetric increments")
    # returns of _AC2BO / _get_BO ---------------------------------------------
    for fname in ("_AC2BO", "_get_BO"):
        fi = prog.fn(f"{MOD}:{fname}")
        allowed = matrix_locals(fi.node)
        for r in ast.walk(fi.node):
            if isinstance(r, ast.Return) and r.value is not None:
                v = r.value.elts[0] if isinstance(r.value, ast.Tuple) else r.value
                inst = f"{fname}: return {norm(v)}"
                if norm(v) in allowed:
                    res.ok("R-BO-WRITES", inst, fi.loc(r))
                else:
                    res.bad("R-BO-WRITES", inst, fi.loc(r),
                            f"{fname} returns `{norm(v)}`, which is not the "
                            "connectivity matrix or a bond-order matrix "
                            f"derived from it ({sorted(allowed)})")
    top = prog.fn(f"{MOD}:connectivity2bond_orders")
    t = utext(top.node)
    inst = "connectivity2bond_orders: integer copy of the input, result of _AC2BO returned"
    # role names: the integer copy of the input, the matrix returned by _AC2BO
    copy_name = bo_name = None
    for n_ in ast.walk(top.node):
        if isinstance(n_, ast.Assign) and len(n_.targets) == 1:
            tg, v_ = n_.targets[0], n_.value
            if isinstance(tg, ast.Name) and isinstance(v_, ast.Call) and \
                    call_name(v_) in ("np.array", "numpy.array") and v_.args \
                    and norm(v_.args[0]) == "connectivity_matrix" and any(
                    k.arg == "dtype" and norm(k.value) == "int"
                    for k in v_.keywords):
                copy_name = tg.id
            if isinstance(tg, ast.Tuple) and tg.elts and isinstance(
                    tg.elts[0], ast.Name) and isinstance(
                    v_, ast.Call) and call_name(v_) == "_AC2BO" and v_.args:
                if copy_name and norm(v_.args[0]) == copy_name:
                    bo_name = tg.elts[0].id
    rets_ = [r_ for r_ in ast.walk(top.node) if isinstance(r_, ast.Return)
             and isinstance(r_.value, ast.Tuple) and r_.value.elts]
    if copy_name and bo_name and rets_ and all(
            norm(r_.value.elts[0]) == bo_name for r_ in rets_):
        res.ok("R-BO-WRITES", inst, top.loc())
    else:
        res.unrecognised("R-BO-WRITES", inst, top.loc(),
                         "integer copy / _AC2BO call / return not recognised")
    # pairs --------------------------------------------------------------------
    gb = prog.fn(f"{MOD}:_get_bonds")
    ret_names = {norm(r_.value) for r_ in ast.walk(gb.node)
                 if isinstance(r_, ast.Return) and isinstance(
                     r_.value, ast.Name)}
    # pair productions: `result.append(<pair>)` under if-guards, or a list
    # comprehension (returned directly or through the returned local)
    productions = []        # (node, pair element expression, guard texts)
    for n in ast.walk(gb.node):
        if isinstance(n, ast.Call) and isinstance(n.func, ast.Attribute) and \
                n.func.attr == "append" and norm(n.func.value) in ret_names \
                and n.args:
            guards = [norm(x.test) for x in ancestors(n)
                      if isinstance(x, ast.If)]
            productions.append((n, n.args[0], guards))
    comps = [r_.value for r_ in ast.walk(gb.node)
             if isinstance(r_, ast.Return) and isinstance(
                 r_.value, ast.ListComp)]
    comps += [n.value for n in ast.walk(gb.node) if isinstance(n, ast.Assign)
              and norm(n.targets[0]) in ret_names
              and isinstance(n.value, ast.ListComp)]
    for c_ in comps:
        guards = []
        for g_ in c_.generators:
            for cond in g_.ifs:
                parts = cond.values if isinstance(
                    cond, ast.BoolOp) and isinstance(cond.op, ast.And) \
                    else [cond]
                guards += [norm(x) for x in parts]
        productions.append((c_, c_.elt, guards))
    if not productions:
        raise AnalysisError("_get_bonds: pair production (append / list "
                            "comprehension) vanished")
    single = {}
    for n in ast.walk(gb.node):
        if isinstance(n, ast.Assign) and len(n.targets) == 1 and isinstance(
                n.targets[0], ast.Name):
            single.setdefault(n.targets[0].id, []).append(n.value)
    for a, elt, guards in productions:
        inst = f"_get_bonds: {norm(a, 80)} under {guards}"
        ac = gb.params()[1] if len(gb.params()) > 1 else "AC"
        if isinstance(elt, ast.Name) and len(single.get(elt.id, [])) == 1:
            elt = single[elt.id][0]
        names = []
        for x in ast.walk(elt):
            if isinstance(x, ast.Name) and x.id not in (
                    "tuple", "sorted", "list", "frozenset", "min", "max") \
                    and x.id not in names:
                names.append(x.id)
        if len(names) != 2:
            res.unrecognised("R-BO-PAIRS", inst, gb.loc(a),
                             f"pair element `{norm(elt, 60)}`")
            continue
        i_, j_ = names
        if any(g in (f"{ac}[{i_}, {j_}] == 1", f"{ac}[{j_}, {i_}] == 1",
                     f"{ac}[{i_}][{j_}] == 1", f"{ac}[{j_}][{i_}] == 1")
               for g in guards):
            res.ok("R-BO-PAIRS", inst, gb.loc(a))
        else:
            res.bad("R-BO-PAIRS", f"_get_bonds: {norm(a, 80)}", gb.loc(a),
                    f"_get_bonds produces a pair without the bonded test "
                    f"{ac}[i, j] == 1 (guards: {guards}): bond orders may be "
                    "raised between atoms that are not bonded")
    ua = prog.fn(f"{MOD}:_get_UA_pairs")
    ut = utext(ua.node)
    inst = "_get_UA_pairs: pairs are combinations of _get_bonds(UA, AC)"
    src_ok = False
    for n_ in ast.walk(ua.node):
        if isinstance(n_, ast.Assign) and isinstance(n_.value, ast.Call) and \
                call_name(n_.value) == "_get_bonds" and isinstance(
                n_.targets[0], ast.Name):
            b_ = prog.bound_args(n_.value)
            vals = sorted(norm(v) for v in (b_.values() if b_
                                            else n_.value.args))
            if vals == sorted(ua.params()[:2]) and re.search(
                    rf"combinations\({n_.targets[0].id},", ut):
                src_ok = True
    if src_ok:
        res.ok("R-BO-PAIRS", inst, ua.loc())
    else:
        res.unrecognised("R-BO-PAIRS", inst, ua.loc(),
                         "bonds = _get_bonds(UA, AC) / combinations not found")
    for fname in ("_AC2BO", "_get_BO"):
        fi = prog.fn(f"{MOD}:{fname}")
        du = DefUse(fi.node)
        for nm in ("UA_pairs", "UA_pairs_list"):
            for d in du.defs.get(nm, []):
                inst = f"{fname}: {nm} <- {norm(d, 60)}"
                if "_get_UA_pairs(" in norm(d) or norm(d) in (
                        "UA_pairs_list",) or fi.params().count(nm):
                    res.ok("R-BO-PAIRS", inst, fi.loc(d))
                else:
                    res.bad("R-BO-PAIRS", inst, fi.loc(d),
                            f"{fname}: `{nm}` is fed by `{norm(d, 80)}`, not "
                            "by _get_UA_pairs")
    # dictionary directions in set_bond_orders ------------------------------
    check_dict_dir(prog, res)


def check_dict_dir(prog: Program, res: Result) -> None:
    fi = prog.fn("graph2rdmol:set_bond_orders")
    kinds: dict[str, tuple[str, str]] = {
        fi.params()[2]: ("RdIdx", "AtomId")}        # idx_map_num_dict
    for node in ast.walk(fi.node):
        if isinstance(node, ast.Assign) and isinstance(
                node.value, ast.DictComp) and isinstance(
                node.targets[0], ast.Name):
            dc = node.value
            gen = dc.generators[0]
            env: dict[str, str] = {}
            it = norm(gen.iter)
            tg = gen.target
            if it.startswith("enumerate(") and isinstance(tg, ast.Tuple):
                env[norm(tg.elts[0])] = "ArrIdx"
                env[norm(tg.elts[1])] = "AtomId" if "graph.atoms" in it else "?"
            elif it.endswith(".items()") and isinstance(tg, ast.Tuple):
                src = kinds.get(it[: -len(".items()")])
                if src:
                    env[norm(tg.elts[0])] = src[0]
                    env[norm(tg.elts[1])] = src[1]
            k = env.get(norm(dc.key), "?")
            v = env.get(norm(dc.value), "?")
            kinds[node.targets[0].id] = (k, v)
    # variables
    var_kind = {}
    for node in ast.walk(fi.node):
        if isinstance(node, ast.For) and norm(node.iter) == "graph.bonds":
            var_kind[norm(node.target)] = "Bond"
        if isinstance(node, ast.Assign) and isinstance(
                node.targets[0], ast.Tuple) and var_kind.get(
                norm(node.value)) == "Bond":
            for e in node.targets[0].elts:
                var_kind[norm(e)] = "AtomId"
        if isinstance(node, ast.For) and norm(node.iter).startswith(
                "enumerate(") and isinstance(node.target, ast.Tuple):
            var_kind[norm(node.target.elts[0])] = "ArrIdx"
    n = 0
    for node in ast.walk(fi.node):
        if isinstance(node, ast.Subscript) and isinstance(
                node.value, ast.Name) and node.value.id in kinds:
            kk, vk = kinds[node.value.id]
            got = var_kind.get(norm(node.slice))
            n += 1
            inst = f"set_bond_orders: {norm(node)} ({node.value.id}: {kk}->{vk})"
            if got is None or kk == "?" or got == kk:
                res.ok("R-DICT-DIR", inst, fi.loc(node))
            else:
                res.bad("R-DICT-DIR", f"set_bond_orders: {norm(node)}",
                        fi.loc(node),
                        f"set_bond_orders: `{node.value.id}` maps {kk} -> "
                        f"{vk} but is indexed with `{norm(node.slice)}` "
                        f"({got}): KeyError or the bond order of a different "
                        "bond for any identifiers other than 0..n-1 in order",
                        instance=inst)
    # the matrix must be indexed by matrix positions
    for node in ast.walk(fi.node):
        if isinstance(node, ast.Subscript) and norm(node.value).startswith(
                "bond_order_mat"):
            sl = node.slice
            if isinstance(sl, ast.Subscript) and isinstance(
                    sl.value, ast.Name) and sl.value.id in kinds:
                n += 1
                kk, vk = kinds[sl.value.id]
                inst = f"set_bond_orders: matrix indexed through {sl.value.id} ({kk}->{vk})"
                if vk == "ArrIdx":
                    res.ok("R-DICT-DIR", inst, fi.loc(node))
                else:
                    res.bad("R-DICT-DIR", f"set_bond_orders: matrix index via "
                            f"{sl.value.id}", fi.loc(node),
                            f"{inst}: the bond-order matrix needs matrix "
                            f"positions, the dictionary yields {vk}",
                            instance=inst)
    # ... whatever way the index is obtained: a local that holds an
    # identifier (atom1 = idx_map_num_dict[..]) is no matrix position
    simple: dict[str, list[ast.AST]] = {}
    for node in ast.walk(fi.node):
        if isinstance(node, ast.Assign) and len(node.targets) == 1 and \
                isinstance(node.targets[0], ast.Name):
            simple.setdefault(node.targets[0].id, []).append(node.value)

    def kind_of(e, depth=0):
        if depth > 6:
            return None
        if isinstance(e, ast.Subscript) and isinstance(
                e.value, ast.Name) and e.value.id in kinds:
            return kinds[e.value.id][1]
        if isinstance(e, ast.Name):
            if e.id in var_kind:
                return var_kind[e.id]
            ks = {kind_of(v, depth + 1) for v in simple.get(e.id, [])}
            if len(ks) == 1:
                return ks.pop()
        return None
    mat = fi.params()[1] if len(fi.params()) > 1 else "bond_order_mat"
    seen_sites = set()
    for node in ast.walk(fi.node):
        if isinstance(node, ast.Subscript):
            base = node.value
            while isinstance(base, ast.Subscript):
                base = base.value
            if not (isinstance(base, ast.Name) and base.id in (
                    mat, "bond_order_mat")):
                continue
            idxs = list(node.slice.elts) if isinstance(
                node.slice, ast.Tuple) else [node.slice]
            for ix in idxs:
                if isinstance(ix, ast.Subscript) and isinstance(
                        ix.value, ast.Name) and ix.value.id in kinds:
                    continue            # judged above
                k_ = kind_of(ix)
                key_ = norm(ix)
                if k_ is None or key_ in seen_sites:
                    continue
                seen_sites.add(key_)
                n += 1
                inst = f"set_bond_orders: matrix index `{key_}` is a matrix position"
                if k_ == "ArrIdx":
                    res.ok("R-DICT-DIR", inst, fi.loc(node))
                else:
                    res.bad("R-DICT-DIR", f"set_bond_orders: matrix index "
                            f"{key_} ({k_})", fi.loc(node),
                            f"{inst}: `{key_}` holds a value of kind {k_}; "
                            "the bond-order matrix is ordered like "
                            "graph.atoms, so this reads the order of another "
                            "bond (or raises) unless the identifiers are "
                            "0..n-1 in insertion order", instance=inst)
    res.need("R-DICT-DIR", n, 3, "dictionary / matrix index sites")
    # RDKit atoms are created in graph.atoms order (declared coercion
    # ArrIdx == RdIdx for the charge / radical loops)
    mk = prog.fn("graph2rdmol:mol_graph_to_rdmol")
    t = utext(mk.node)
    inst = "mol_graph_to_rdmol adds RDKit atoms in graph.atoms order (ArrIdx == RdIdx)"
    g_ = mk.params()[0]
    created = False
    for l_ in ast.walk(mk.node):
        if isinstance(l_, ast.For) and norm(l_.iter) == f"{g_}.atoms" and \
                isinstance(l_.target, ast.Name):
            a_ = l_.target.id
            adds = [n_ for n_ in ast.walk(l_) if isinstance(n_, ast.Assign)
                    and isinstance(n_.value, ast.Call) and isinstance(
                        n_.value.func, ast.Attribute)
                    and n_.value.func.attr == "AddAtom"
                    and isinstance(n_.targets[0], ast.Name)]
            for ad in adds:
                idx_ = ad.targets[0].id
                if any(isinstance(n_, ast.Assign) and isinstance(
                        n_.targets[0], ast.Subscript)
                       and norm(n_.targets[0].slice) == idx_
                       and norm(n_.value) == a_ for n_ in ast.walk(l_)):
                    created = True
    if created:
        res.ok("R-DICT-DIR", inst, mk.loc())
    else:
        res.unrecognised("R-DICT-DIR", inst, mk.loc(),
                         "atom creation loop not recognised")
    # the perception receives atom_types and connectivity_matrix() side by
    # side: the matrix must be numbered by the atoms view (rule of C09)
    from . import C09
    from .common import merge_rules
    tmp = Result(res.prop)
    C09.check_matrix_view(prog, tmp)
    merge_rules(res, tmp, ("R-VIEW-AGREE",))

