"""C17 -- subgraph, compose and components form a consistent algebra."""
from __future__ import annotations

import ast
from ..core import utext
import re

from ..core import (GRAPH_CLASSES, SHORT, AnalysisError, DefUse, Program,
                    ancestors, call_name, norm, parent)
from ..report import Result
from .C06 import chain_of, STEREO_SLOTS

LEVEL_TEXT = (
    "static analysis of the resolved subgraph / compose chains per class: "
    "one-shot typestate of the Iterable parameter on every path, slot "
    "coverage (every slot of the class is filled from the same slot of the "
    "source), induced-subgraph filter shape (bonds: all members in S; "
    "descriptors and changes: all non-placeholder atoms in S), and the shape "
    "of the component search. Maximality of components and value equality of "
    "the recomposed graph are not decided.")

ALL_SLOTS = ("_atom_attrs", "_neighbors", "_bond_attrs") + STEREO_SLOTS
MATERIALISE = ("list", "tuple", "set", "frozenset", "sorted", "dict")


def iterable_params(fi) -> list[str]:
    out = []
    a = fi.node.args
    for p in a.posonlyargs + a.args + a.kwonlyargs:
        if p.annotation is not None and "Iterable" in norm(p.annotation):
            out.append(p.arg)
    return out


class OneShot:
    """Counts consuming uses of an iterable parameter along the statement
    order; a use inside a loop (or comprehension) counts as many."""

    def __init__(self, fi, pname: str):
        self.fi = fi
        self.p = pname
        self.uses: list[tuple[ast.AST, bool]] = []   # (node, repeated)
        self.materialised_at: ast.AST | None = None
        self.walk(fi.node.body, False)

    def walk(self, stmts, in_loop: bool) -> bool:
        """returns False once the parameter has been materialised."""
        for st in stmts:
            if self.materialised_at is not None:
                return False
            if isinstance(st, ast.Assign) and len(st.targets) == 1 and \
                    isinstance(st.targets[0], ast.Name) and \
                    st.targets[0].id == self.p:
                v = st.value
                if isinstance(v, ast.Call) and call_name(v) in MATERIALISE \
                        and len(v.args) == 1 and norm(v.args[0]) == self.p:
                    self.uses.append((v, in_loop))
                    self.materialised_at = st
                    return False
                self.scan(v, in_loop)
                self.materialised_at = st      # rebound to something else
                return False
            if isinstance(st, (ast.For, ast.While)):
                if isinstance(st, ast.For):
                    self.scan(st.iter, in_loop)
                else:
                    self.scan(st.test, True)
                if not self.walk(st.body, True):
                    return False
                self.walk(st.orelse, in_loop)
            elif isinstance(st, ast.If):
                self.scan(st.test, in_loop)
                a = self.walk(st.body, in_loop)
                b = self.walk(st.orelse, in_loop)
                if not (a and b):
                    return False
            elif isinstance(st, (ast.With, ast.Try)):
                for sub in ast.iter_child_nodes(st):
                    if isinstance(sub, ast.stmt):
                        self.walk([sub], in_loop)
                    elif isinstance(sub, ast.ExceptHandler):
                        self.walk(sub.body, in_loop)
            else:
                self.scan(st, in_loop)
        return True

    def scan(self, node: ast.AST, in_loop: bool) -> None:
        for n in ast.walk(node):
            if isinstance(n, ast.Name) and n.id == self.p and isinstance(
                    n.ctx, ast.Load):
                rep = in_loop
                # repeated if evaluated per element of a comprehension
                prev = n
                for a in ancestors(n):
                    if a is node:
                        break
                    if isinstance(a, (ast.ListComp, ast.SetComp,
                                      ast.GeneratorExp, ast.DictComp)):
                        first_iter = a.generators[0].iter
                        if not _contains(first_iter, n):
                            rep = True
                    prev = a
                # `x is None` style tests do not consume
                par = parent(n)
                if isinstance(par, ast.Compare) and all(isinstance(
                        o, (ast.Is, ast.IsNot)) for o in par.ops):
                    continue
                self.uses.append((n, rep))


def _contains(tree: ast.AST, node: ast.AST) -> bool:
    return any(x is node for x in ast.walk(tree))


def check_one_shot(prog: Program, res: Result) -> None:
    res.rule("R-ONE-SHOT", "an Iterable parameter of subgraph / compose is "
             "consumed at most once (iteration, membership test, conversion, "
             "hand-over to another call) unless it is first rebound to a "
             "materialised collection (list/tuple/set/...)")
    seen = set()
    n = 0
    for K in GRAPH_CLASSES:
        for meth in ("subgraph", "compose"):
            for fi in chain_of(prog, K, meth):
                if fi.qual in seen:
                    continue
                seen.add(fi.qual)
                for p in iterable_params(fi):
                    n += 1
                    os_ = OneShot(fi, p)
                    total = sum(2 if rep else 1 for _, rep in os_.uses)
                    inst = f"{fi.short}({p})"
                    if total <= 1:
                        res.ok("R-ONE-SHOT", inst, fi.loc(),
                               "materialised first" if os_.materialised_at
                               else "single use")
                    else:
                        sites = [norm(parent(u) or u, 60) for u, _ in os_.uses]
                        res.bad("R-ONE-SHOT", inst, fi.loc(),
                                f"{inst}: the iterable is consumed more than "
                                f"once ({sites}); a generator argument gives "
                                "an empty / partial result", instance=inst)
    res.need("R-ONE-SHOT", n, 5, "Iterable parameters")


def slot_writes(fi):
    """(written slot, receiver text, value expressions, node)"""
    out = []
    setters = {"set_atom_stereo": "_atom_stereo",
               "set_bond_stereo": "_bond_stereo",
               "set_atom_stereo_change": "_atom_stereo_change",
               "set_bond_stereo_change": "_bond_stereo_change"}
    for node in ast.walk(fi.node):
        if isinstance(node, ast.Assign):
            for t in node.targets:
                if isinstance(t, ast.Attribute) and t.attr in ALL_SLOTS:
                    out.append((t.attr, norm(t.value), [node.value], node))
                elif isinstance(t, ast.Subscript):
                    b = t.value
                    while isinstance(b, ast.Subscript):
                        b = b.value
                    if isinstance(b, ast.Attribute) and b.attr in ALL_SLOTS:
                        out.append((b.attr, norm(b.value), [node.value], node))
        elif isinstance(node, ast.Call) and isinstance(node.func, ast.Attribute):
            if node.func.attr in setters:
                out.append((setters[node.func.attr], norm(node.func.value),
                            list(node.args) + [k.value for k in node.keywords],
                            node))
            elif node.func.attr in ("update", "add", "setdefault"):
                b = node.func.value
                # X.slot.update(E) / X.slot.setdefault(k, set()).update(E) /
                # X.slot[k].update(E)
                while True:
                    if isinstance(b, ast.Subscript):
                        b = b.value
                    elif isinstance(b, ast.Call) and isinstance(
                            b.func, ast.Attribute) and b.func.attr in (
                            "setdefault", "get"):
                        b = b.func.value
                    else:
                        break
                if isinstance(b, ast.Attribute) and b.attr in ALL_SLOTS \
                        and node.func.attr == "update":
                    out.append((b.attr, norm(b.value), list(node.args), node))
                elif node.func.attr == "setdefault" and isinstance(
                        node.func.value, ast.Attribute) and \
                        node.func.value.attr in ALL_SLOTS and \
                        len(node.args) == 2:
                    # X.slot.setdefault(k, v) stores v (when k is new)
                    out.append((node.func.value.attr,
                                norm(node.func.value.value),
                                [node.args[1]], node))
    return out


def check_slot_cover(prog: Program, res: Result) -> None:
    res.rule("R-SLOT-COVER[subgraph/compose]", "for class K the chain of "
             "subgraph / compose fills every slot of K on the result with a "
             "value computed from the same slot of the source graph(s)")
    for K in GRAPH_CLASSES:
        for meth in ("subgraph", "compose"):
            chain = chain_of(prog, K, meth)
            if not chain:
                raise AnalysisError(f"{K}.{meth} does not resolve")
            covered: dict[str, str] = {}
            for fi in chain:
                du = DefUse(fi.node)
                first = fi.params()[0]
                for slot, recv, vals, node in slot_writes(fi):
                    if meth == "subgraph" and recv == first:
                        continue
                    reads = set()
                    for v in vals:
                        for d in du.dep_nodes(v):
                            for n in ast.walk(d):
                                if isinstance(n, ast.Attribute):
                                    reads.add(n.attr)
                    src_names = {slot, slot.lstrip("_"),
                                 {"_atom_stereo": "get_atom_stereo",
                                  "_bond_stereo": "get_bond_stereo",
                                  "_atom_stereo_change": "atom_stereo_changes",
                                  "_bond_stereo_change": "bond_stereo_changes",
                                  }.get(slot, slot)}
                    if reads & src_names:
                        covered.setdefault(slot, f"{fi.short}: {norm(node, 80)}")
            for s in prog.all_slots(K):
                inst = f"{SHORT[K]}.{meth} fills {s}"
                if s in covered:
                    res.ok("R-SLOT-COVER[subgraph/compose]", inst,
                           chain[0].loc(), covered[s])
                else:
                    res.bad("R-SLOT-COVER[subgraph/compose]",
                            f"{K}.{meth}: {s}", chain[0].loc(),
                            f"{inst}: nothing in "
                            f"{' -> '.join(f.short for f in chain)} copies "
                            f"{s} of the source into the result",
                            instance=inst)



MERGED_SLOTS = ("_atom_attrs", "_bond_attrs", "_atom_stereo", "_bond_stereo",
                "_atom_stereo_change", "_bond_stereo_change")


def check_compose_order(prog: Program, res: Result) -> None:
    res.rule("R-COMPOSE-ORDER", "where composed graphs overlap the later "
             "graph wins: every table of the result is filled by stores / "
             "update() calls inside a forward loop over the graphs (or a "
             "comprehension in that order); ChainMap, setdefault, `if key "
             "not in` guards and reversed iteration let the first graph win")
    seen = set()
    n = 0
    for K in GRAPH_CLASSES:
        for fi in chain_of(prog, K, "compose"):
            if fi.qual in seen:
                continue
            seen.add(fi.qual)
            params = fi.params()
            gparam = params[1] if len(params) > 1 else None
            # locals that hold the graphs in the caller's order
            fwd = {gparam}
            rev = set()
            chain_locals = set()
            for a in ast.walk(fi.node):
                if isinstance(a, ast.Assign) and len(a.targets) == 1 and \
                        isinstance(a.targets[0], ast.Name):
                    v = a.value
                    t = a.targets[0].id
                    vt = norm(v, 300)
                    if isinstance(v, ast.Call) and call_name(v) in (
                            "list", "tuple") and v.args and \
                            norm(v.args[0]) in fwd:
                        fwd.add(t)
                    elif isinstance(v, (ast.ListComp, ast.GeneratorExp)) and \
                            len(v.generators) == 1 and norm(
                            v.generators[0].iter) in fwd:
                        fwd.add(t)
                    elif "reversed(" in vt or "[::-1]" in vt:
                        rev.add(t)
                    if "ChainMap(" in vt:
                        chain_locals.add(t)
            for node in ast.walk(fi.node):
                slot = None
                kind = None
                if isinstance(node, ast.Assign) and len(node.targets) == 1 \
                        and isinstance(node.targets[0], ast.Subscript) and \
                        isinstance(node.targets[0].value, ast.Attribute) and \
                        node.targets[0].value.attr in MERGED_SLOTS:
                    slot, kind = node.targets[0].value.attr, "store"
                elif isinstance(node, ast.Call) and isinstance(
                        node.func, ast.Attribute) and node.func.attr in (
                        "update", "setdefault") and isinstance(
                        node.func.value, ast.Attribute) and \
                        node.func.value.attr in MERGED_SLOTS:
                    slot, kind = node.func.value.attr, node.func.attr
                elif isinstance(node, ast.Assign) and len(
                        node.targets) == 1 and isinstance(
                        node.targets[0], ast.Attribute) and \
                        node.targets[0].attr in MERGED_SLOTS \
                        and "ChainMap(" in norm(node.value, 300) + " ".join(
                            norm(a.value, 300) for a in ast.walk(fi.node)
                            if isinstance(a, ast.Assign) and any(
                                isinstance(t, ast.Name) and t.id in {
                                    x.id for x in ast.walk(node.value)
                                    if isinstance(x, ast.Name)}
                                for t in a.targets)):
                    # the table is rebound to a merge of the graphs' tables
                    slot, kind = node.targets[0].attr, "rebind"
                if slot is None:
                    continue
                n += 1
                inst = f"{fi.short}: {norm(node, 80)}"
                loops = [a for a in ancestors(node)
                         if isinstance(a, (ast.For, ast.comprehension))]
                loops += [g for a in ancestors(node)
                          if isinstance(a, (ast.ListComp, ast.DictComp,
                                            ast.SetComp, ast.GeneratorExp))
                          for g in a.generators]
                iters = [norm(l.iter, 200) for l in loops]
                # each of these lets the first visited graph win; visiting
                # the graphs in reverse turns that round once more
                flips = []
                if kind == "setdefault":
                    flips.append("setdefault keeps the entry that is "
                                 "already there")
                guard = [a for a in ancestors(node)
                         if isinstance(a, ast.If) and " not in " in norm(
                             a.test) and slot in norm(a.test)]
                if guard:
                    flips.append(f"`{norm(guard[0].test, 60)}` keeps the "
                                 "entry that is already there")
                argt = norm(node.args[0], 300) if (
                    kind == "update" and node.args) else (
                    norm(node.value, 300) if kind == "rebind" else "")
                names = {x.id for x in ast.walk(node)
                         if isinstance(x, ast.Name)}
                chain_src = argt
                for a in ast.walk(fi.node):
                    if isinstance(a, ast.Assign) and len(a.targets) == 1 and \
                            isinstance(a.targets[0], ast.Name) and \
                            a.targets[0].id in (names & chain_locals):
                        chain_src += " " + norm(a.value, 300)
                if "ChainMap(" in chain_src:
                    flips.append("a ChainMap looks a key up in its first "
                                 "mapping first")
                reversed_ = any("reversed(" in i or "[::-1]" in i or i in rev
                                for i in iters) or "reversed(" in chain_src \
                    or "[::-1]" in chain_src
                if reversed_:
                    flips.append("the graphs are visited in reverse order")
                why = "; ".join(flips) if len(flips) % 2 == 1 else None
                if not why and flips:
                    res.ok("R-COMPOSE-ORDER", inst, fi.loc(node),
                           "first-wins construct over reversed graphs")
                    continue
                if why:
                    res.bad("R-COMPOSE-ORDER", inst, fi.loc(node),
                            f"{fi.short}: `{norm(node, 80)}`: {why}; the "
                            "property lets the later graph win where atoms "
                            "or bonds overlap")
                    continue
                if any(i in fwd for i in iters) or (
                        kind == "update" and not loops and False):
                    res.ok("R-COMPOSE-ORDER", inst, fi.loc(node))
                elif kind == "update" and node.args and isinstance(
                        node.args[0], (ast.DictComp,)) and any(
                        norm(g.iter) in fwd
                        for g in node.args[0].generators[:1]):
                    res.ok("R-COMPOSE-ORDER", inst, fi.loc(node))
                else:
                    res.unrecognised("R-COMPOSE-ORDER", inst, fi.loc(node),
                                     "the order in which the graphs "
                                     "contribute to this store is not "
                                     "recognised")
    res.need("R-COMPOSE-ORDER", n, 6, "table stores in the compose chains")


def check_compose_merge(prog: Program, res: Result) -> None:
    res.rule("R-COMPOSE-MERGE", "compose merges the neighbour set of an atom "
             "with what earlier graphs contributed (in-place update / union "
             "with the existing entry); overwriting the entry loses the "
             "bonds of overlapping pieces while the bond table keeps them")
    seen = set()
    n = 0
    for K in GRAPH_CLASSES:
        for fi in chain_of(prog, K, "compose"):
            if fi.qual in seen:
                continue
            seen.add(fi.qual)
            for node in ast.walk(fi.node):
                # X._neighbors[k] = E
                if isinstance(node, ast.Assign) and len(node.targets) == 1 \
                        and isinstance(node.targets[0], ast.Subscript) and \
                        isinstance(node.targets[0].value, ast.Attribute) and \
                        node.targets[0].value.attr == "_neighbors":
                    n += 1
                    recv = norm(node.targets[0].value)
                    inst = f"{fi.short}: {norm(node, 90)}"
                    reads_self = any(
                        norm(x) == recv for x in ast.walk(node.value)
                        if isinstance(x, ast.Attribute))
                    if reads_self:
                        res.ok("R-COMPOSE-MERGE", inst, fi.loc(node))
                    else:
                        res.bad("R-COMPOSE-MERGE", inst, fi.loc(node),
                                f"{fi.short}: `{norm(node, 90)}` replaces the "
                                "neighbour set collected from earlier graphs")
                elif isinstance(node, ast.Assign) and any(
                        isinstance(t, ast.Attribute) and t.attr == "_neighbors"
                        for t in node.targets):
                    n += 1
                    inst = f"{fi.short}: {norm(node, 90)}"
                    inloop = any(isinstance(a, (ast.For, ast.While))
                                 for a in ancestors(node))
                    if inloop:
                        res.bad("R-COMPOSE-MERGE", inst, fi.loc(node),
                                f"{fi.short}: `{norm(node, 90)}` rebinds the "
                                "neighbour table for every graph")
                    else:
                        res.ok("R-COMPOSE-MERGE", inst, fi.loc(node))
                elif isinstance(node, ast.Call) and isinstance(
                        node.func, ast.Attribute) and node.func.attr in (
                        "update", "__ior__", "add") and "_neighbors" in norm(
                        node.func.value):
                    n += 1
                    recv = norm(node.func.value)
                    inst = f"{fi.short}: {norm(node, 90)}"
                    # X._neighbors.update(other._neighbors) replaces entries
                    if recv.endswith("._neighbors"):
                        res.bad("R-COMPOSE-MERGE", inst, fi.loc(node),
                                f"{fi.short}: `{norm(node, 90)}` replaces "
                                "whole neighbour sets of overlapping atoms")
                    elif re.search(r"_neighbors\.setdefault\(\w+, \w+\)$", recv) \
                            and not recv.endswith("set())"):
                        res.bad("R-COMPOSE-MERGE", inst, fi.loc(node),
                                f"{fi.short}: `{norm(node, 90)}` seeds the "
                                "entry with a set of the source graph")
                    else:
                        res.ok("R-COMPOSE-MERGE", inst, fi.loc(node))
    res.need("R-COMPOSE-MERGE", n, 1, "neighbour stores in compose")


def _membership_form(test: ast.AST):
    """Classify a keep-condition over a descriptor's atoms.
    returns (quantifier, handles_none, iter text) or None."""
    nodes = list(ast.walk(test))
    nodes.sort(key=lambda n: 0 if (isinstance(n, ast.Call) and call_name(n)
                                   in ("all", "any")) else 1)
    for n in nodes:
        if isinstance(n, ast.Call) and call_name(n) in ("all", "any") and \
                len(n.args) == 1 and isinstance(
                n.args[0], (ast.GeneratorExp, ast.ListComp)):
            g = n.args[0]
            gen = g.generators[-1]          # the generator binding the atom
            it = norm(gen.iter)
            elt = norm(g.elt)
            var = norm(gen.target)
            none_ok = (f"{var} is None" in elt
                       or any(f"{var} is not None" in norm(c) for c in gen.ifs)
                       or "is not None" in it or "discard(None)" in it)
            return call_name(n), none_ok, it, elt
        if isinstance(n, ast.Call) and isinstance(n.func, ast.Attribute) and \
                n.func.attr in ("issuperset", "issubset"):
            return "all", False, norm(n), norm(n)
    return None


def check_induced(prog: Program, res: Result) -> None:
    res.rule("R-INDUCED", "subgraph keeps a bond iff all its members are in "
             "S, a neighbour iff it is in S, and a descriptor / stereo change "
             "iff all its non-placeholder atoms are in S (universal "
             "quantifier; the None placeholder must not be tested against S)")
    mg = prog.resolve_method("MolGraph", "subgraph")
    # bonds ------------------------------------------------------------------
    found_bond = found_nbr = False
    for node in ast.walk(mg.node):
        if isinstance(node, ast.DictComp) and "_bond_attrs" in norm(
                node.generators[0].iter):
            conds = node.generators[0].ifs
            txt = " and ".join(norm(c) for c in conds)
            found_bond = True
            inst = "MolGraph.subgraph keeps a bond iff all members in S"
            ok = bool(conds) and ("issuperset(" in txt or "all(" in txt or
                                  "<=" in txt) and "any(" not in txt \
                and "not " not in txt
            if ok:
                res.ok("R-INDUCED", inst, mg.loc(node), txt)
            else:
                res.bad("R-INDUCED", f"{mg.short}: bond filter `{txt}`",
                        mg.loc(node), f"{inst}: filter is `{txt or 'absent'}`",
                        instance=inst)
        if isinstance(node, (ast.SetComp,)) and "_neighbors" in norm(
                node.generators[0].iter):
            conds = node.generators[0].ifs
            txt = " and ".join(norm(c) for c in conds)
            var = norm(node.generators[0].target)
            found_nbr = True
            inst = "MolGraph.subgraph keeps a neighbour iff it is in S"
            if len(conds) == 1 and isinstance(conds[0], ast.Compare) and \
                    isinstance(conds[0].ops[0], ast.In) and norm(
                    conds[0].left) == var:
                res.ok("R-INDUCED", inst, mg.loc(node), txt)
            else:
                res.bad("R-INDUCED", f"{mg.short}: neighbour filter `{txt}`",
                        mg.loc(node), f"{inst}: filter is `{txt or 'absent'}`",
                        instance=inst)
    if not (found_bond and found_nbr):
        res.error("R-INDUCED: bond / neighbour comprehension of "
                  "MolGraph.subgraph not recognised")
    # descriptors / changes --------------------------------------------------
    # set forms of "all atoms of the descriptor are kept": S >= set(d.atoms),
    # set(d.atoms) <= S, S.issuperset(d.atoms), set(d.atoms).issubset(S) test
    # the None placeholder against S unless it is taken out explicitly
    judged = set()
    for K in ("StereoMolGraph", "StereoCondensedReactionGraph"):
        for fi in chain_of(prog, K, "subgraph"):
            if fi.qual in judged:
                continue
            judged.add(fi.qual)
            for node in ast.walk(fi.node):
                txt = None
                if isinstance(node, ast.Compare) and len(node.ops) == 1 and \
                        isinstance(node.ops[0], (ast.GtE, ast.LtE)):
                    txt = norm(node, 120)
                elif isinstance(node, ast.Call) and isinstance(
                        node.func, ast.Attribute) and node.func.attr in (
                        "issubset", "issuperset"):
                    txt = norm(node, 120)
                if txt is None or not re.search(r"\.atoms\b", txt) or \
                        "len(" in txt:
                    continue
                inst = f"{fi.short}: `{txt}` leaves the placeholder out"
                if "None" in txt:
                    res.ok("R-INDUCED", inst, fi.loc(node))
                else:
                    res.bad("R-INDUCED", f"{fi.short}: set-form filter "
                            f"{txt[:60]}", fi.loc(node),
                            f"{fi.short}: `{txt}` tests the None placeholder "
                            "against S (None is never an atom of the graph), "
                            "so descriptors and stereo changes with a lone "
                            "pair are dropped even from subgraph(all atoms)",
                            instance=inst)
    for K in ("StereoMolGraph", "StereoCondensedReactionGraph"):
        seen_slots = set()
        for fi in chain_of(prog, K, "subgraph"):
            for loop in ast.walk(fi.node):
                if not isinstance(loop, ast.For):
                    continue
                it = norm(loop.iter)
                slot = next((s for s in sorted(STEREO_SLOTS, key=len,
                                               reverse=True)
                             if f"self.{s}" in it
                             or f"self.{s.lstrip('_')}" in it), None)
                if slot is None:
                    continue
                ifs = [n for n in ast.walk(loop) if isinstance(n, ast.If)]
                forms = [(_membership_form(i.test), i) for i in ifs]
                forms = [(f, i) for f, i in forms if f]
                inst = f"{SHORT[K]}: {fi.short} keeps {slot} entries fully inside S"
                if not forms:
                    res.bad("R-INDUCED", f"{fi.short}: {slot} unfiltered",
                            fi.loc(loop), f"{inst}: no `all(... in S ...)` "
                            "condition in the loop", instance=inst)
                    continue
                seen_slots.add(slot)
                for (q, none_ok, ittxt, elt), i in forms:
                    if q != "all":
                        res.bad("R-INDUCED",
                                f"{fi.short}: {slot} any()", fi.loc(i),
                                f"{inst}: existential filter "
                                f"`{norm(i.test, 90)}`", instance=inst)
                    elif not none_ok:
                        res.bad("R-INDUCED",
                                f"{fi.short}: {slot} None placeholder",
                                fi.loc(i),
                                f"{inst}: `{norm(i.test, 90)}` tests the None "
                                "placeholder against S, so descriptors with "
                                "a lone pair are dropped even when all their "
                                "atoms are in S", instance=inst)
                    elif " not in " in elt:
                        res.bad("R-INDUCED", f"{fi.short}: {slot} negated",
                                fi.loc(i), f"{inst}: negated membership "
                                f"`{norm(i.test, 90)}`", instance=inst)
                    else:
                        res.ok("R-INDUCED", inst + f" [{norm(i.test, 60)}]",
                               fi.loc(i))


def _worklist_shape(fi) -> tuple[str, str]:
    """('ok'|'bad'|'unknown', reason) for a work-list graph search:
    pop x from WL; x enters the result set R; every bonded neighbour of x that
    is not in R yet is pushed; nothing leaves the loop early."""
    fn = fi.node
    loops = [n for n in ast.walk(fn) if isinstance(n, ast.While)]
    if not loops:
        return "unknown", "no while loop (search not written as a work list)"
    w = loops[0]
    test = w.test
    if isinstance(test, ast.Name):
        WL = test.id
    elif isinstance(test, ast.Call) and call_name(test) == "len" and \
            isinstance(test.args[0], ast.Name):
        WL = test.args[0].id
    elif isinstance(test, ast.Compare) and isinstance(test.left, ast.Call) \
            and call_name(test.left) == "len" and isinstance(
            test.left.args[0], ast.Name):
        WL = test.left.args[0].id
    else:
        return "unknown", f"loop condition `{norm(test)}` is not a work list"
    rets = [r for r in ast.walk(fn) if isinstance(r, ast.Return)
            and r.value is not None]
    if len(rets) != 1 or not isinstance(rets[0].value, ast.Name):
        return "unknown", "result is not one returned set"
    R = rets[0].value.id
    if any(isinstance(n, (ast.Break, ast.Return)) for n in ast.walk(w)):
        return "bad", "early exit inside the search loop"
    popped = None
    for n in ast.walk(w):
        if isinstance(n, ast.Assign) and isinstance(n.value, ast.Call) and \
                isinstance(n.value.func, ast.Attribute) and \
                n.value.func.attr in ("pop", "popleft") and \
                norm(n.value.func.value) == WL and isinstance(
                n.targets[0], ast.Name):
            popped = n.targets[0].id
    if popped is None:
        return "unknown", f"no `x = {WL}.pop()` in the loop"

    def nbr_source(e):
        """variable whose neighbours e enumerates, or None."""
        if isinstance(e, ast.Call) and isinstance(e.func, ast.Attribute) and \
                e.func.attr == "bonded_to" and len(e.args) == 1 and \
                isinstance(e.args[0], ast.Name):
            return e.args[0].id
        if isinstance(e, ast.Subscript) and norm(e.value).endswith(
                "_neighbors") and isinstance(e.slice, ast.Name):
            return e.slice.id
        if isinstance(e, ast.BinOp) and isinstance(e.op, ast.Sub) and \
                norm(e.right) == R:
            return nbr_source(e.left)
        if isinstance(e, ast.Call) and call_name(e) in (
                "set", "list", "tuple", "sorted", "iter") and len(e.args) == 1:
            return nbr_source(e.args[0])
        return None

    def filter_ok(c, var) -> bool:
        t = norm(c)
        return t in (f"{var} not in {R}", f"{var} not in {WL}",
                     f"{var} != {popped}", f"{var} is not {popped}",
                     f"not {var} in {R}", f"{var} not in {R} and {var} not in {WL}")

    sources = []        # (source variable, [filters], ok filters?)
    unknown_push = []
    mark_at_push = False
    for n in ast.walk(w):
        if isinstance(n, ast.For):
            src = nbr_source(n.iter)
            pushes = [c for c in ast.walk(n) if isinstance(c, ast.Call)
                      and isinstance(c.func, ast.Attribute)
                      and c.func.attr in ("append", "appendleft", "add",
                                          "extend", "update")
                      and norm(c.func.value) == WL]
            if not pushes:
                continue
            if src is None or not isinstance(n.target, ast.Name):
                unknown_push.append(norm(n.iter, 60))
                continue
            var = n.target.id
            for c in pushes:
                if not (len(c.args) == 1 and norm(c.args[0]) == var):
                    unknown_push.append(norm(c, 60))
                    continue
                conds = []
                for a in ancestors(c):
                    if a is n:
                        break
                    if isinstance(a, ast.If):
                        # the push sits in body or orelse
                        in_body = any(c is x for b in a.body
                                      for x in ast.walk(b))
                        conds.append(a.test if in_body else ast.UnaryOp(
                            ast.Not(), a.test))
                # `if v in R: continue` filters earlier in the loop body
                for st in n.body:
                    if isinstance(st, ast.If) and any(isinstance(
                            b, ast.Continue) for b in st.body):
                        conds.append(ast.UnaryOp(ast.Not(), st.test))
                texts = []
                good = True
                for cnd in conds:
                    t = norm(cnd)
                    t = re.sub(r"^not \((\w+) in (\w+)\)$", r"\1 not in \2", t)
                    t = re.sub(r"^not (\w+) in (\w+)$", r"\1 not in \2", t)
                    texts.append(t)
                    good &= t in (f"{var} not in {R}", f"{var} not in {WL}",
                                  f"{var} != {popped}")
                sources.append((src, texts, good))
                if any(isinstance(x, ast.Call) and norm(x.func) == f"{R}.add"
                       and norm(x.args[0]) == var for x in ast.walk(n)):
                    mark_at_push = True
        elif isinstance(n, ast.Call) and isinstance(n.func, ast.Attribute) \
                and n.func.attr in ("extend", "update") and norm(
                n.func.value) == WL and len(n.args) == 1:
            arg = n.args[0]
            # already counted when it sits inside a recognised for loop
            if any(isinstance(a, ast.For) and a is not w for a in ancestors(n)
                   if a is not w and any(a is x for x in ast.walk(w))):
                continue
            if isinstance(arg, (ast.GeneratorExp, ast.ListComp, ast.SetComp)) \
                    and len(arg.generators) == 1 and isinstance(
                    arg.generators[0].target, ast.Name):
                g = arg.generators[0]
                var = g.target.id
                src = nbr_source(g.iter)
                if src is None or norm(arg.elt) != var:
                    unknown_push.append(norm(arg, 60))
                    continue
                texts = [norm(c) for c in g.ifs]
                sources.append((src, texts, all(filter_ok(c, var)
                                                for c in g.ifs)))
            else:
                src = nbr_source(arg)
                if src is None:
                    unknown_push.append(norm(arg, 60))
                else:
                    sources.append((src, [], True))
        elif isinstance(n, ast.AugAssign) and norm(n.target) == WL:
            unknown_push.append(norm(n, 60))
    # marking
    marks_pop = any(
        isinstance(x, ast.Call) and norm(x.func) in (f"{R}.add",)
        and len(x.args) == 1 and norm(x.args[0]) == popped
        for x in ast.walk(w)) or any(
        isinstance(x, ast.AugAssign) and norm(x.target) == R
        and popped in norm(x.value) for x in ast.walk(w))
    if marks_pop:
        # the mark may only be guarded by `x not in R`
        for x in ast.walk(w):
            if isinstance(x, ast.Call) and norm(x.func) == f"{R}.add" and \
                    norm(x.args[0]) == popped:
                for a in ancestors(x):
                    if a is w:
                        break
                    if isinstance(a, ast.If) and norm(a.test) not in (
                            f"{popped} not in {R}",):
                        return "bad", (f"the popped node is marked only under "
                                       f"`{norm(a.test)}`")
    if not sources and not unknown_push:
        return "bad", "neighbours are not pushed onto the work list"
    wrong = [s_ for s_ in sources if s_[0] != popped]
    if wrong:
        return "bad", ("neighbour loop does not range over the popped node "
                       f"`{popped}` but over `{wrong[0][0]}`")
    filtered = [s_ for s_ in sources if not s_[2]]
    if filtered:
        return "bad", ("neighbours are pushed only under "
                       f"{filtered[0][1]}: atoms reachable only through the "
                       "others are never visited")
    if not sources:
        return "unknown", f"pushes {unknown_push} not recognised"
    if not (marks_pop or mark_at_push):
        return "bad", "popped node is not marked visited"
    return "ok", f"pop {popped} from {WL}, mark in {R}, push neighbours"


def check_components(prog: Program, res: Result) -> None:
    res.rule("R-COMPONENT-SHAPE", "node_connected_component is a work-list "
             "search: pops a node, marks it, pushes every unvisited bonded "
             "neighbour, no early exit; connected_components starts a search "
             "from every atom not yet visited and merges the result into "
             "visited")
    fi = prog.resolve_method("MolGraph", "node_connected_component")
    if fi is None:
        raise AnalysisError("MolGraph.node_connected_component vanished")
    inst = "MolGraph.node_connected_component work-list shape"
    verdict, why = _worklist_shape(fi)
    if verdict == "ok":
        res.ok("R-COMPONENT-SHAPE", inst, fi.loc(), why)
    elif verdict == "bad":
        res.bad("R-COMPONENT-SHAPE", f"{fi.short}: {why}", fi.loc(),
                f"{inst}: {why}", instance=inst)
    else:
        res.unrecognised("R-COMPONENT-SHAPE", inst, fi.loc(), why)
    fi = prog.resolve_method("MolGraph", "connected_components")
    if fi is None:
        raise AnalysisError("MolGraph.connected_components vanished")
    inst = "MolGraph.connected_components partition shape"
    me = fi.params()[0]
    loops = [n for n in ast.walk(fi.node) if isinstance(n, ast.For)
             and norm(n.iter) in (f"{me}.atoms", f"{me}._atom_attrs",
                                  f"list({me}.atoms)", f"tuple({me}.atoms)")
             and isinstance(n.target, ast.Name)]
    ok = False
    why = "no loop over self.atoms"
    for l in loops:
        a_ = l.target.id
        guard = [n for n in l.body if isinstance(n, ast.If)
                 and re.fullmatch(rf"{a_} not in (\w+)", norm(n.test))]
        if not guard:
            why = "no `atom not in visited` guard"
            continue
        V = re.fullmatch(rf"{a_} not in (\w+)", norm(guard[0].test)).group(1)
        g = " ; ".join(norm(b, 200) for b in guard[0].body)
        comp = re.search(rf"(\w+) = {me}\.node_connected_component\({a_}\)", g)
        if "node_connected_component(" not in g:
            why = "no component search in the guarded body"
        elif comp is None and re.search(
                rf"\.append\({me}\.node_connected_component\({a_}\)\)", g) \
                and not re.search(rf"{V}\.(update|add)\(|{V} \|=|{V} = ", g):
            # the component is recorded but has no name: nothing is merged
            why = "component not merged into visited"
        elif comp is None:
            why = None      # search present, spelling not followed
        elif not re.search(rf"\.append\({comp.group(1)}\)", g):
            why = "component not recorded"
        elif not re.search(
                rf"{V}\.update\({comp.group(1)}\)|{V} \|= {comp.group(1)}|"
                rf"{V} = {V} \| {comp.group(1)}|"
                rf"{V} = {V}\.union\({comp.group(1)}\)", g):
            why = "component not merged into visited"
        elif any(isinstance(n, (ast.Break, ast.Return)) for n in ast.walk(l)):
            why = "early exit from the atom loop"
        else:
            ok = True
    if ok:
        res.ok("R-COMPONENT-SHAPE", inst, fi.loc())
    elif why in (None, "no loop over self.atoms"):
        res.unrecognised("R-COMPONENT-SHAPE", inst, fi.loc(),
                         why or "component search not followed")
    else:
        res.bad("R-COMPONENT-SHAPE", f"{fi.short}: {why}", fi.loc(),
                f"{inst}: {why}", instance=inst)


def run(prog: Program, res: Result, tier: str) -> None:
    res.trusted += ["setter -> slot table", "an Iterable may be a one-shot "
                    "iterator (generator)"]
    check_one_shot(prog, res)
    check_slot_cover(prog, res)
    check_induced(prog, res)
    check_compose_merge(prog, res)
    check_compose_order(prog, res)
    check_components(prog, res)
