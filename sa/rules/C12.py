"""C12 -- RDKit import depends on the molecule, not its representation
(table and identifier clauses)."""
from __future__ import annotations

import ast
import re
from ..core import utext
from math import factorial

from ..convtables import canon_importer, UNK, Groups, importer_tables
from ..core import (AnalysisError, DefUse, Program, call_name, norm, parent)
from ..report import Result

LEVEL_TEXT = (
    "static, exhaustive on the importer's literal tables as it uses them "
    "(constant folding over index tuples): the square-planar, trigonal-"
    "bipyramidal and octahedral permutation labels form a transversal of the "
    "orderings modulo the class's permutation group (3, 20, 30 pairwise "
    "unequal descriptors, every arrangement has a label), the two tetrahedral "
    "tags and the E/Z switch give unequal descriptors; every identifier "
    "stored in the graph or a descriptor goes through id_atom_map. "
    "Invariance under RDKit renumbering / SMILES spelling depends on RDKit's "
    "neighbour order and tag semantics and is not decided.")


def run(prog: Program, res: Result, tier: str) -> None:
    res.rule("T-TRANSVERSAL", "for SP / TB / OH the importer's labels import "
             "(for pairwise distinct ligands) to pairwise unequal descriptors "
             "and there are exactly n!/|G| of them, so every arrangement has "
             "a label; the two tetrahedral tags map to opposite parities; the "
             "Z / E switch maps to two unequal PlanarBond orderings")
    res.rule("R-IDMAP", "every atom identifier stored in the graph or in a "
             "descriptor is id_atom_map[RDKit index] (None-preserving .get "
             "for placeholders), never a raw RDKit index; both converters "
             "build id_atom_map the same way")
    G = Groups(prog)
    imp = importer_tables(prog)
    fi = imp["_fi"]
    for cls, k in (("SquarePlanar", 4), ("TrigonalBipyramidal", 5),
                   ("Octahedral", 6)):
        tab = imp[cls]
        bad_rows = [l for l, (a, p) in tab.items() if a is UNK or p is UNK]
        if bad_rows:
            raise AnalysisError(f"importer {cls}: labels {bad_rows[:3]} not "
                                "foldable")
        want = factorial(k) // len(G.G[cls])
        inst = f"{cls}: {len(tab)} labels, expected n!/|G| = {want}"
        if len(tab) == want:
            res.ok("T-TRANSVERSAL", inst, fi.loc())
        else:
            res.bad("T-TRANSVERSAL", f"{cls} label count {len(tab)}", fi.loc(),
                    f"{inst}: some arrangements have no label / labels are "
                    "redundant", instance=inst)
        labels = sorted(tab)
        classes: list[list] = []
        for l in labels:
            a, p = tab[l]
            # each row must use every neighbour exactly once, centre first
            inst = f"{cls} label {l}: uses the centre and each neighbour once"
            if a[0] == "c" and sorted(a[1:]) == sorted(f"n{i}" for i in range(k)):
                res.ok("T-TRANSVERSAL", inst, fi.loc())
            else:
                res.bad("T-TRANSVERSAL", f"{cls} label {l} atoms {a}",
                        fi.loc(), f"{inst}: atoms are {a}", instance=inst)
                continue
            for cl in classes:
                a0, p0 = tab[cl[0]]
                if G.equiv(cls, a0, p0, a, p):
                    cl.append(l)
                    break
            else:
                classes.append([l])
        dup = [c for c in classes if len(c) > 1]
        inst = f"{cls}: labels pairwise unequal ({len(classes)} classes)"
        if not dup and len(classes) == len(labels):
            res.ok("T-TRANSVERSAL", inst, fi.loc())
        else:
            res.bad("T-TRANSVERSAL", f"{cls} labels collapse", fi.loc(),
                    f"{cls}: the {len(labels)} labels import to only "
                    f"{len(classes)} distinct descriptors; e.g. labels "
                    f"{dup[0][:4] if dup else '?'} give equal graphs for "
                    "pairwise distinct ligands", instance=inst)
    # tetrahedral tags
    tags = imp["tetrahedral_tags"]
    inst = f"tetrahedral tags {tags}"
    if tags.get("CHI_TETRAHEDRAL_CW") in (1, -1) and tags.get(
            "CHI_TETRAHEDRAL_CCW") == -tags.get("CHI_TETRAHEDRAL_CW") and \
            tags.get("CHI_TETRAHEDRAL", 0) is None:
        res.ok("T-TRANSVERSAL", inst, fi.loc())
    else:
        res.bad("T-TRANSVERSAL", "tetrahedral tags", fi.loc(),
                f"{inst}: CW and CCW must map to opposite parities, the "
                "unspecified tag to None", instance=inst)
    # both tetrahedral constructions use (centre, *neighbours)
    txt = utext(fi.node)
    inst = "tetrahedral descriptor = (centre, *RDKit neighbours[, None])"
    if "stereo_atoms = (id_atom_map[atom_idx], *neighbors)" in txt and \
            "Tetrahedral((*stereo_atoms, None), self._rd_tetrahedral[chiral_tag])" \
            in txt.replace("\n", "").replace("  ", ""):
        res.ok("T-TRANSVERSAL", inst, fi.loc())
    else:
        # accept any formatting: look at the AST
        ok = any(isinstance(n, ast.Call) and call_name(n) == "Tetrahedral"
                 and n.args and norm(n.args[0]) == "(*stereo_atoms, None)"
                 for n in ast.walk(fi.node)) and \
            "stereo_atoms = (id_atom_map[atom_idx], *neighbors)" in txt
        folded = None if ok else _fold_tetrahedral(imp, fi)
        if ok or folded == "ok":
            res.ok("T-TRANSVERSAL", inst, fi.loc())
        elif folded is not None:
            res.bad("T-TRANSVERSAL", "tetrahedral atom tuple", fi.loc(),
                    f"{inst}: {folded}", instance=inst)
        else:
            res.unrecognised("T-TRANSVERSAL", inst, fi.loc(),
                             "construction of the tetrahedral atom tuple")
    # E / Z
    swaps = [n for n in ast.walk(fi.node) if isinstance(n, ast.If)
             and norm(n.test) == "invert"]
    inst = "E/Z: the E ordering is a PlanarBond ordering unequal to the Z one"
    ok = False
    for s_ in swaps:
        from ..core import index_perm
        for node in ast.walk(s_):
            ip = index_perm(node) if isinstance(
                node, (ast.ListComp, ast.GeneratorExp, ast.Tuple, ast.List)) \
                else None
            if ip is None:
                continue
            perm = ip[1]
            base = tuple(range(6))
            if sorted(perm) == list(base) and perm not in set(
                    G.G["PlanarBond"]):
                ok = True
    located = ok
    # the same choice written as two orderings: X if invert else Y (or the
    # two arms of `if invert:` assigning the same name)
    pairs = []
    for n in ast.walk(fi.node):
        if isinstance(n, ast.IfExp) and norm(n.test) in ("invert",
                                                         "not invert"):
            pairs.append((n.body, n.orelse))
        elif isinstance(n, ast.If) and norm(n.test) in ("invert",
                                                        "not invert") and \
                len(n.body) == 1 and len(n.orelse) == 1 and all(
                isinstance(x, ast.Assign) for x in (n.body[0], n.orelse[0])) \
                and norm(n.body[0].targets[0]) == norm(n.orelse[0].targets[0]):
            pairs.append((n.body[0].value, n.orelse[0].value))
    for a_, b_ in pairs:
        if isinstance(a_, ast.Tuple) and isinstance(b_, ast.Tuple) and \
                len(a_.elts) == len(b_.elts) == 6:
            ta, tb = [norm(x) for x in a_.elts], [norm(x) for x in b_.elts]
            if sorted(ta) == sorted(tb) and len(set(ta)) == 6:
                perm = tuple(tb.index(x) for x in ta)
                located = True
                if perm not in set(G.G["PlanarBond"]):
                    ok = True
    for s_ in swaps:
        located = True
    zmap = [n for n in ast.walk(fi.node) if isinstance(n, ast.Dict)
            and any("STEREOZ" in norm(k) for k in n.keys)]
    zm = {norm(k).split(".")[-1]: norm(v) for d in zmap
          for k, v in zip(d.keys, d.values)}
    if ok and zm.get("STEREOZ") == "False" and zm.get("STEREOE") == "True":
        res.ok("T-TRANSVERSAL", inst, fi.loc())
    elif (not located and zm.get("STEREOZ") == "False"
          and zm.get("STEREOE") == "True") or (not zm and not located):
        res.unrecognised("T-TRANSVERSAL", inst, fi.loc(),
                         "the re-ordering applied for STEREOE (`if invert:` "
                         "re-indexing or a choice between two orderings) was "
                         "not found")
    else:
        res.bad("T-TRANSVERSAL", "E/Z switch", fi.loc(),
                f"{inst}: switch {zm}, swap is a non-symmetry: {ok}",
                instance=inst)
    check_idmap(prog, res, fi)
    check_idx_id_mix(prog, res, fi)
    check_ring_choice(prog, res, fi)
    check_falsy_and_state(prog, res, fi)
    res.exhaustive = True
    res.trusted += ["literal permutation tables (checked by C04)",
                    "RDKit presents `_chiralPermutation` relative to "
                    "GetNeighbors() order (OpenSMILES semantics)"]


def _fold_tetrahedral(imp, fi):
    """The atom tuple of the tagged tetrahedral branch, evaluated for three
    and four RDKit neighbours: "ok", a description of the deviation, or None
    when a statement on the way cannot be evaluated."""
    from ..convtables import Fold, _branches
    brs = [b for b in _branches(fi.node, "_rd_tetrahedral")
           if " in " in norm(b.test)]
    if len(brs) != 1:
        return None
    for k in (3, 4):
        nb = tuple(f"n{i}" for i in range(k))
        env = dict(imp["_env"])
        env.update({"neighbors": nb, "id_atom_map[atom_idx]": "c"})
        f = Fold(env)
        reached = []

        def walk(stmts):
            for st in stmts:
                if isinstance(st, ast.If):
                    t = f.ev(st.test)
                    if t is UNK:
                        return False
                    if not walk(st.body if t else st.orelse):
                        return False
                elif isinstance(st, ast.Raise):
                    return False
                else:
                    f.run([st])
                    reached.extend(
                        n for n in ast.walk(st) if isinstance(n, ast.Call)
                        and call_name(n) == "Tetrahedral")
            return True
        if not walk(brs[0].body) or len(reached) != 1:
            return None
        c = reached[0]
        kw = {x.arg: x.value for x in c.keywords}
        a = f.ev(c.args[0] if c.args else kw.get("atoms"))
        if a is UNK:
            return None
        want = ("c",) + nb + ((None,) if k == 3 else ())
        if tuple(a) != want:
            return (f"for {k} RDKit neighbours the tagged tetrahedral branch "
                    f"builds {tuple(a)}, the tag is defined against {want}")
    return "ok"


def check_idmap(prog: Program, res: Result, fi) -> None:
    from ..core import reaching_defs

    def is_atomid(e: ast.AST, depth=0) -> bool:
        """Every leaf of e is id_atom_map[...] / .get(...) / None / an
        AtomId-valued name / a re-indexing of an AtomId tuple."""
        if depth > 40:
            return False
        if isinstance(e, ast.Constant):
            return e.value is None
        if isinstance(e, ast.Subscript):
            if norm(e.value) == "id_atom_map":
                return True
            return is_atomid(e.value, depth + 1)
        if isinstance(e, ast.Call):
            cn = call_name(e)
            if cn == "id_atom_map.get":
                return True
            if cn in ("tuple", "list") and e.args:
                return is_atomid(e.args[0], depth + 1)
            return False
        if isinstance(e, (ast.Tuple, ast.List)):
            return all(is_atomid(x.value if isinstance(x, ast.Starred) else x,
                                 depth + 1) for x in e.elts)
        if isinstance(e, (ast.ListComp, ast.GeneratorExp)):
            return is_atomid(e.elt, depth + 1)
        if isinstance(e, ast.IfExp):
            return is_atomid(e.body, depth + 1) and is_atomid(e.orelse, depth + 1)
        if isinstance(e, ast.BinOp) and isinstance(e.op, ast.Mult):
            # [None] * k: a repetition of an AtomId sequence
            seq = e.left if isinstance(e.left, (ast.List, ast.Tuple)) else (
                e.right if isinstance(e.right, (ast.List, ast.Tuple))
                else None)
            return seq is not None and is_atomid(seq, depth + 1)
        if isinstance(e, ast.BinOp) and isinstance(e.op, ast.Add):
            return is_atomid(e.left, depth + 1) and is_atomid(
                e.right, depth + 1)
        if isinstance(e, ast.Name):
            defs = reaching_defs(fi.node, e)
            if not defs:
                return False
            for value, kind in defs:
                if kind == "iter":
                    # element of an iterable: AtomId iff the iterable is an
                    # AtomId collection
                    if not is_atomid(value, depth + 1):
                        return False
                elif kind == "unpack":
                    return False
                elif not is_atomid(value, depth + 1):
                    return False
            return True
        if isinstance(e, ast.Starred):
            return is_atomid(e.value, depth + 1)
        return False

    n = 0
    for node in ast.walk(fi.node):
        if isinstance(node, ast.Call) and call_name(node) in (
                "Tetrahedral", "SquarePlanar", "TrigonalBipyramidal",
                "Octahedral", "PlanarBond", "AtropBond"):
            kw = {k.arg: k.value for k in node.keywords}
            a = node.args[0] if node.args else kw.get("atoms")
            n += 1
            inst = f"smg_from_rdmol: {norm(node, 70)} (line {node.lineno})"
            if a is not None and is_atomid(a):
                res.ok("R-IDMAP", inst, fi.loc(node))
            else:
                res.bad("R-IDMAP", f"smg_from_rdmol: {norm(node, 70)}",
                        fi.loc(node), f"{inst}: the atom tuple "
                        f"`{norm(a)}` is not built from id_atom_map[...]: a "
                        "raw RDKit index ends up in the descriptor (wrong "
                        "atoms when importing by atom-map number)",
                        instance=inst)
    res.need("R-IDMAP", n, 10, "descriptor constructions in the importer")
    # atoms and bonds of the graph
    for fn in (fi, canon_importer(prog.fn("rdmol2graph:mol_graph_from_rdmol"))):
        for what, meth, nargs in (("atoms", "add_atom", 1),
                                  ("bonds", "add_bond", 2)):
            inst = f"{fn.short}: {what} added through id_atom_map"
            # the graph under construction: the returned local
            gnames = {norm(r_.value) for r_ in ast.walk(fn.node)
                      if isinstance(r_, ast.Return)
                      and isinstance(r_.value, ast.Name)} or {"graph"}
            calls = [c for c in ast.walk(fn.node) if isinstance(c, ast.Call)
                     and isinstance(c.func, ast.Attribute)
                     and c.func.attr == meth
                     and norm(c.func.value) in gnames]
            if not calls:
                res.unrecognised("R-IDMAP", inst, fn.loc(),
                                 f"no graph.{meth}(...) call")
                continue
            # id map: the dictionary built from GetIdx() keys
            mapnames = {norm(n_.targets[0]) for n_ in ast.walk(fn.node)
                        if isinstance(n_, ast.Assign)
                        and isinstance(n_.targets[0], ast.Name)
                        and "GetIdx()" in norm(n_.value, 300)
                        and isinstance(n_.value, (ast.DictComp, ast.IfExp))} \
                | {"id_atom_map"}
            rawargs = [norm(a) for c in calls for a in c.args[:nargs]
                       if not (isinstance(a, ast.Subscript)
                               and norm(a.value) in mapnames)]
            if rawargs:
                res.bad("R-IDMAP", f"{fn.short}: {what} {rawargs}",
                        fn.loc(calls[0]), f"{inst}: graph.{meth} receives "
                        f"{rawargs}, not id_atom_map[...]: with "
                        "use_atom_map_number the graph is keyed by RDKit "
                        "indices", instance=inst)
            else:
                res.ok("R-IDMAP", inst, fn.loc(calls[0]))
    # sibling agreement of the two id_atom_map constructions
    def shape(dc):
        """(key accessor, value accessor, iterable) of {v.K(): v.V() for v in
        it}, independent of the name of v; None when not of that form."""
        if not (isinstance(dc, ast.DictComp) and len(dc.generators) == 1
                and not dc.generators[0].ifs
                and isinstance(dc.generators[0].target, ast.Name)):
            return None
        v = dc.generators[0].target.id
        def acc(e):
            if isinstance(e, ast.Call) and not e.args and not e.keywords and \
                    isinstance(e.func, ast.Attribute) and isinstance(
                    e.func.value, ast.Name) and e.func.value.id == v:
                return e.func.attr
            return None
        k, val = acc(dc.key), acc(dc.value)
        if k is None or val is None:
            return None
        return (k, val, norm(dc.generators[0].iter))

    def maps(fn):
        out, odd = [], []
        for node in ast.walk(fn.node):
            if isinstance(node, ast.Assign):
                tgt, value = node.targets[0], node.value
            elif isinstance(node, ast.AnnAssign) and node.value is not None:
                tgt, value = node.target, node.value
            else:
                continue
            if norm(tgt) != "id_atom_map":
                continue
            alts = [value]
            while any(isinstance(v, ast.IfExp) for v in alts):
                alts = [x for v in alts for x in (
                    (v.body, v.orelse) if isinstance(v, ast.IfExp) else (v,))]
            for v in alts:
                sh = shape(v)
                (out if sh else odd).append(sh or norm(v, 120))
        return sorted(out), odd
    (a, odd_a), (b, odd_b) = maps(fi), maps(
        canon_importer(prog.fn("rdmol2graph:mol_graph_from_rdmol")))
    inst = "mol_graph_from_rdmol and smg_from_rdmol build id_atom_map identically"
    want = sorted([("GetIdx", "GetAtomMapNum", "rdmol.GetAtoms()"),
                   ("GetIdx", "GetIdx", "rdmol.GetAtoms()")])
    if odd_a or odd_b or not a or not b:
        res.unrecognised("R-IDMAP", inst, fi.loc(),
                         f"id_atom_map is built by {odd_a + odd_b or 'nothing'}"
                         ", not by {atom.GetIdx(): atom.<accessor>() for atom "
                         "in rdmol.GetAtoms()}")
    elif a == b == want:
        res.ok("R-IDMAP", inst, fi.loc())
    else:
        res.bad("R-IDMAP", "id_atom_map constructions", fi.loc(),
                f"{inst}: {a} vs {b} (expected index -> index and index -> "
                "atom map number over rdmol.GetAtoms())", instance=inst)


def check_idx_id_mix(prog: Program, res: Result, fi) -> None:
    from .. import idkinds
    res.rule("R-IDX-ID-MIX", "inside the importer no ==, !=, in, not in "
             "compares an RDKit atom index with a graph atom identifier (or a "
             "collection of them), and id_atom_map is looked up with indices "
             "only: the two integer spaces coincide for the index import and "
             "differ for the import by atom-map number")
    n = 0
    for fn in (fi, canon_importer(prog.fn("rdmol2graph:mol_graph_from_rdmol"))):
        for node, txt, kl, kr, ok in idkinds.check(fn, {"id_atom_map"}):
            n += 1
            inst = f"{fn.short}: `{txt}` ({kl} vs {kr})"
            if ok:
                res.ok("R-IDX-ID-MIX", inst, fn.loc(node))
            else:
                res.bad("R-IDX-ID-MIX", f"{fn.short}: {txt}", fn.loc(node),
                        f"{fn.short}: `{txt}` relates an {kl} to an {kr}: "
                        "true by accident for the index import, wrong when "
                        "identifiers are atom-map numbers", instance=inst)
    res.need("R-IDX-ID-MIX", n, 28, "comparisons / map lookups with "
             "inferable kinds in the importer")


def check_ring_choice(prog: Program, res: Result, fi) -> None:
    from ..convtables import Fold, UNK
    res.rule("R-RING-CHOICE", "the ring-cis inference looks at a ring that "
             "decides: evaluated on a bond shared by a 6- and an 8-membered "
             "ring (the ring records are ordered / selected by the code's own "
             "key; the record it then reads must be the 6-ring) and on a bond "
             "shared by an aromatic 6-ring and a non-aromatic 8-ring (the "
             "record read must be the aromatic one): a small or aromatic ring "
             "forces cis whatever larger ring the bond also lies in")
    inst = "smg_from_rdmol: ring examined for the cis inference"
    # -- the ring records: a tuple / a call with an aromatic flag and a size
    rec = None
    for n in ast.walk(fi.node):
        if not isinstance(n, (ast.ListComp, ast.GeneratorExp)):
            continue
        if "GetSymmSSSR" not in norm(n, 2000):
            continue
        e = n.elt
        parts = None
        if isinstance(e, ast.Tuple):
            parts = [(i, x) for i, x in enumerate(e.elts)]
        elif isinstance(e, ast.Call) and e.keywords and not e.args:
            parts = [(k.arg, k.value) for k in e.keywords]
        if parts is None:
            continue
        size = [k for k, x in parts if norm(x).startswith("len(")]
        arom = [k for k, x in parts if "GetIsAromatic" in norm(x, 600)]
        if len(size) == 1 and len(arom) == 1:
            rec = (parts, size[0], arom[0], isinstance(e, ast.Tuple))
    if rec is None:
        # plain ring lists: taking the first ring that contains the bond
        # (next(..) / [0] without any ordering by size) depends on the order
        # in which RDKit happens to list the rings
        fns = [fi] + [prog.functions[q] for q in prog.norm_report.get(
            "new_functions", []) if q.startswith("rdmol2graph:")]
        for f_ in fns:
            if "GetSymmSSSR" not in utext(fi.node) + utext(f_.node):
                continue
            ordered = any(isinstance(n, ast.Call) and (
                (isinstance(n.func, ast.Attribute) and n.func.attr == "sort")
                or call_name(n) in ("sorted", "min", "max"))
                and "ring" in norm(n, 300).lower() for n in ast.walk(f_.node))
            for n in ast.walk(f_.node):
                if isinstance(n, ast.Call) and call_name(n) == "next" and \
                        n.args and isinstance(
                        n.args[0], ast.GeneratorExp) and "ring" in norm(
                        n.args[0].generators[0].iter).lower() and \
                        not ordered:
                    res.bad("R-RING-CHOICE", f"{f_.short}: first ring in "
                            "RDKit's order", f_.loc(n),
                            f"{inst}: `{norm(n, 80)}` takes the first ring "
                            "that contains the bond; the ring list is not "
                            "ordered by (aromatic, size), so for a bond "
                            "shared by a small and a large ring the ring "
                            "examined depends on the order RDKit lists them "
                            "in (different SMILES spellings import to "
                            "unequal graphs)", instance=inst)
                    return
        res.unrecognised("R-RING-CHOICE", inst, fi.loc(),
                         "ring records (aromatic flag, size, atoms) over "
                         "GetSymmSSSR not found")
        return
    parts, k_size, k_arom, positional = rec

    def record(arom, size):
        vals = {}
        for k, _x in parts:
            vals[k] = size if k == k_size else (
                arom if k == k_arom else f"ring{size}")
        return vals

    def key_of(lam, r):
        if lam is None:
            if positional:
                return tuple(r[k] for k, _ in parts)
            return UNK
        if not isinstance(lam, ast.Lambda) or len(lam.args.args) != 1:
            return UNK
        p = lam.args.args[0].arg
        env = {}
        if positional:
            env[p] = tuple(r[k] for k, _ in parts)
        else:
            for k, v in r.items():
                env[f"{p}.{k}"] = v
        return Fold(env).ev(lam.body)

    # -- how one record is selected
    selectors = []
    for n in ast.walk(fi.node):
        if isinstance(n, ast.Call) and isinstance(n.func, ast.Attribute) \
                and n.func.attr == "sort":
            kw = {k.arg: k.value for k in n.keywords}
            nm = norm(n.func.value)
            idx = {x.slice.value for x in ast.walk(fi.node)
                   if isinstance(x, ast.Subscript) and norm(x.value) == nm
                   and isinstance(x.slice, ast.Constant)
                   and isinstance(x.slice.value, int)}
            if len(idx) == 1:
                selectors.append(("sort", kw.get("key"), kw.get("reverse"),
                                  idx.pop()))
        elif isinstance(n, ast.Call) and isinstance(n.func, ast.Name) and \
                n.func.id in ("min", "max") and n.args and \
                "r" and any(isinstance(x, (ast.Name, ast.Attribute))
                            for x in ast.walk(n.args[0])):
            kw = {k.arg: k.value for k in n.keywords}
            if "key" in kw and ("size" in norm(kw["key"]) or "[" in norm(
                    kw["key"])):
                selectors.append((n.func.id, kw.get("key"), None, None))
    if len(selectors) != 1:
        res.unrecognised("R-RING-CHOICE", inst, fi.loc(),
                         f"{len(selectors)} ways of selecting the ring "
                         "(expected one sort + index or one min / max with a "
                         "key)")
        return
    how, key, rev, index = selectors[0]

    def choose(sample):
        ks = [key_of(key, r) for r in sample]
        if any(k is UNK for k in ks):
            return None
        try:
            if how == "sort":
                revv = False
                if rev is not None:
                    revv = Fold({}).ev(rev)
                    if revv is UNK:
                        return None
                order = [r for _k, r in sorted(zip(ks, sample),
                                               key=lambda t: t[0],
                                               reverse=bool(revv))]
                return order[index]
            pick = min if how == "min" else max
            return pick(zip(ks, sample), key=lambda t: t[0])[1]
        except (TypeError, IndexError):
            return None
    c1 = choose([record(False, 8), record(False, 6)])
    c2 = choose([record(False, 8), record(True, 6)])
    if c1 is None or c2 is None:
        res.unrecognised("R-RING-CHOICE", inst, fi.loc(),
                         "the selection key could not be evaluated")
        return
    if c1[k_size] != 6:
        res.bad("R-RING-CHOICE", "smg_from_rdmol: cis inference reads the "
                "largest ring", fi.loc(), f"{inst}: for a double bond shared "
                "by a 6-ring and an 8-ring the code examines the 8-ring; it "
                "is not smaller than _min_trans_ring_size, so the cis "
                "constraint of the 6-ring is ignored and an arbitrary, "
                "spelling dependent E/Z is stored (C1CCCC2=C1CCCCCC2 and "
                "C12=C(CCCC1)CCCCCC2 import to unequal graphs)",
                instance=inst)
    elif c2[k_arom] is not True:
        res.bad("R-RING-CHOICE", "smg_from_rdmol: cis inference prefers a "
                "large ring over an aromatic one", fi.loc(),
                f"{inst}: for a bond shared by an aromatic 6-ring and a "
                "non-aromatic 8-ring the code examines the 8-ring: it is "
                "neither aromatic nor smaller than _min_trans_ring_size, so "
                "the aromatic bond is not treated as cis and an arbitrary, "
                "spelling dependent E/Z is stored", instance=inst)
    else:
        res.ok("R-RING-CHOICE", inst, fi.loc())


def check_falsy_and_state(prog: Program, res: Result, fi) -> None:
    res.rule("R-FALSY-ID", "atom identifiers (0 is a legal identifier and "
             "RDKit index) are never tested by truthiness: presence tests on "
             "descriptor atoms are `is None` tests")
    res.rule("R-CONVERTER-STATELESS", "the converter object carries "
             "configuration only: no method stores per-molecule state on "
             "self, so the import of a molecule does not depend on what was "
             "imported before")
    n = 0
    for node in ast.walk(fi.node):
        if isinstance(node, ast.Call) and call_name(node) in ("any", "all") \
                and len(node.args) == 1:
            from ..pe import resolve
            a = resolve(node.args[0], fi.node)
            n += 1
            inst = f"smg_from_rdmol: {norm(node, 70)}"
            if isinstance(a, (ast.GeneratorExp, ast.ListComp)):
                elt = a.elt
                # element must be a comparison / call, not a bare identifier
                idish = re.search(r"atom|neighbo|nbr", norm(
                    a.generators[0].iter)) or re.search(
                    r"\.atoms\b|\batoms\[|neighbo|nbr", norm(elt))
                if isinstance(elt, (ast.Name, ast.Subscript, ast.Attribute)) \
                        and idish:
                    res.bad("R-FALSY-ID", inst, fi.loc(node),
                            f"{inst}: identifiers are tested by truthiness; "
                            "atom 0 counts as absent")
                else:
                    res.ok("R-FALSY-ID", inst, fi.loc(node))
            elif "atoms" in norm(a) or "neighbors" in norm(a):
                res.bad("R-FALSY-ID", inst, fi.loc(node),
                        f"{inst}: identifiers are tested by truthiness "
                        "(`any(...)` over atom ids); atom 0 counts as absent, "
                        "so a descriptor whose only substituent is atom 0 is "
                        "dropped and E / Z import to equal graphs")
            else:
                res.ok("R-FALSY-ID", inst, fi.loc(node))
        elif isinstance(node, ast.BoolOp):
            # the unrolled form of all(... for a in (0, 1)): a and/or chain
            # over descriptor atoms
            vals = node.values
            if not any(re.search(r"\.atoms\b|\batoms\[", norm(v))
                       for v in vals):
                continue
            n += 1
            inst = f"smg_from_rdmol: {norm(node, 70)}"
            bare = [v for v in vals
                    if isinstance(v, (ast.Name, ast.Subscript, ast.Attribute))
                    and re.search(r"\.atoms\b|\batoms\[", norm(v))]
            if bare:
                res.bad("R-FALSY-ID", inst, fi.loc(node),
                        f"{inst}: identifiers are tested by truthiness; "
                        "atom 0 counts as absent")
            else:
                res.ok("R-FALSY-ID", inst, fi.loc(node))
    from .. import idkinds
    for x, ttxt, k in idkinds.truthiness_tests(fi, {"id_atom_map"}):
        n += 1
        res.bad("R-FALSY-ID", f"smg_from_rdmol: truth value of `{norm(x)}`",
                fi.loc(x), f"smg_from_rdmol: `{norm(x)}` ({k}) is used as a "
                f"truth value in `{ttxt}`: RDKit atom 0 / identifier 0 counts "
                "as absent")
    res.need("R-FALSY-ID", n, 3, "any()/all() tests in the importer")
    ci = prog.cls("RDMol2StereoMolGraph")
    for name, m in ci.methods.items():
        selfn = m.params()[0] if m.params() else "self"
        stores = []
        for node in ast.walk(m.node):
            tgts = []
            if isinstance(node, ast.Assign):
                tgts = node.targets
            elif isinstance(node, (ast.AugAssign, ast.AnnAssign)):
                tgts = [node.target]
            for t in tgts:
                b = t
                while isinstance(b, ast.Subscript):
                    b = b.value
                if isinstance(b, ast.Attribute) and norm(b.value) == selfn:
                    stores.append(node)
            if isinstance(node, ast.Call) and isinstance(
                    node.func, ast.Attribute) and node.func.attr in (
                    "append", "update", "add", "setdefault", "clear", "pop",
                    "extend") and isinstance(
                    node.func.value, ast.Attribute) and norm(
                    node.func.value.value) == selfn:
                stores.append(node)
        inst = f"RDMol2StereoMolGraph.{name} keeps no state on self"
        if stores:
            res.bad("R-CONVERTER-STATELESS",
                    f"RDMol2StereoMolGraph.{name}: {norm(stores[0], 70)}",
                    m.loc(stores[0]), f"{inst}: `{norm(stores[0], 80)}` "
                    "stores per-molecule data on the converter; a reused "
                    "converter sees the previous molecule's data (wrong ring "
                    "membership after renumbering)", instance=inst)
        else:
            res.ok("R-CONVERTER-STATELESS", inst, m.loc())
